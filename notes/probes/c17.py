import collections, traceback, io, logging
from hypothesis import given, settings, strategies as st, HealthCheck
from debian import copyright as C
logging.disable(logging.CRITICAL)
T = "ab1 :#.,-*?\té漢"
line = st.text(alphabet=T, max_size=8)
def ok_line(s): return s=="" or (s.strip()!="" and s!=".")
lic_lines = st.lists(line.filter(ok_line), max_size=5).filter(lambda L: not L or L[-1]!="")
syn = st.text(alphabet="abGPL-2+. ", max_size=8).map(str.strip)
lic = st.builds(lambda s,L: (s, "\n".join(L)), syn, lic_lines)
pat = st.text(alphabet="ab/.*?", min_size=1, max_size=5)
cont = st.builds(lambda a,b: " "+a+b, st.sampled_from([""," ","\t"]), st.text(alphabet="ab1 ,.é", min_size=1, max_size=8).filter(lambda s: s.strip()))
cpr = st.builds(lambda f,cs: "\n".join([f]+cs), st.text(alphabet="ab1 ,.é", max_size=8).map(str.strip), st.lists(cont, max_size=2))
para = st.one_of(st.tuples(st.just("F"), st.lists(pat,min_size=1,max_size=3), cpr, lic), st.tuples(st.just("L"), lic))
B=collections.Counter(); E={}
def rec(k,i): B[k]+=1; E.setdefault(k,i)
@settings(max_examples=2500, deadline=None, suppress_health_check=list(HealthCheck), database=None)
@given(st.lists(para, max_size=4), st.one_of(st.none(), lic), st.lists(st.text(alphabet="ab <>@.", min_size=1, max_size=6).map(str.strip).filter(bool), max_size=3))
def t(ps, hl, contacts):
    try:
        c = C.Copyright()
        if hl is not None: c.header.license = C.License(hl[0], hl[1])
        if contacts: c.header.upstream_contact = contacts
        for p in ps:
            if p[0]=="F": c.add_files_paragraph(C.FilesParagraph.create(p[1], p[2], C.License(*p[3])))
            else: c.add_license_paragraph(C.LicenseParagraph.create(C.License(*p[1])))
        text = c.dump()
    except Exception as e:
        rec("build-exc:"+type(e).__name__+":"+str(e)[:40], (ps,hl,contacts)); return
    try:
        c2 = C.Copyright(text.splitlines(True), strict=True)
    except Exception as e:
        rec("parse-exc:"+type(e).__name__+":"+str(e)[:40], (ps,text)); return
    exp = [p for p in ps if p[0]=="F"] + [p for p in ps if p[0]=="L"]  # add_files inserts after last Files paragraph
    got = list(c2.all_paragraphs())[1:]
    if len(got)!=len(exp): rec("count", (ps,text)); return
    for g,e in zip(got,exp):
        if e[0]=="F":
            if not isinstance(g,C.FilesParagraph) or g.files!=tuple(e[1]) or g.copyright!=e[2] or (g.license.synopsis,g.license.text)!=e[3]:
                rec("files-mismatch", (e, g.files, g.copyright, g.license, text)); return
        else:
            if not isinstance(g,C.LicenseParagraph) or (g.license.synopsis,g.license.text)!=e[1]:
                rec("lic-mismatch", (e, g.license, text)); return
    if hl is not None and (c2.header.license.synopsis, c2.header.license.text)!=hl: rec("hdr-lic", (hl, c2.header.license)); return
    if tuple(contacts)!=tuple(c2.header.upstream_contact or ()): rec("contacts", (contacts, c2.header.upstream_contact)); return
    if c2.dump()!=text: rec("dump2", (text, c2.dump())); return
    rec("ok",None)
t()
for kk,v in sorted(B.items()): print(v,kk,repr(E[kk])[:600])
