import sys, collections, traceback
sys.path.insert(0, sys.argv[1])
from hypothesis import given, settings, strategies as st, HealthCheck
from debian._deb822_repro import parse_deb822_file
from debian._deb822_repro.parsing import Deb822ParagraphElement
names = ["A","B","C","a"]
@st.composite
def fields(draw):
    n = draw(st.integers(1,5)); out=[]
    for i in range(n):
        nm = draw(st.sampled_from(names)); cm = draw(st.sampled_from(["","# c%d\n"%i]))
        val = draw(st.sampled_from([" v%d\n"%i, "\n  m%d\n"%i, " v%d\n# ic\n more%d\n"%(i,i), "v%d\n"%i]))
        out.append((nm, cm+nm+":"+val))
    return out
op = st.one_of(
    st.tuples(st.just("first"), st.integers(0,9), st.booleans()),
    st.tuples(st.just("last"), st.integers(0,9), st.booleans()),
    st.tuples(st.just("before"), st.integers(0,9), st.booleans(), st.integers(0,9), st.booleans()),
    st.tuples(st.just("after"), st.integers(0,9), st.booleans(), st.integers(0,9), st.booleans()),
    st.tuples(st.just("sort")),
    st.tuples(st.just("del"), st.integers(0,9), st.booleans()),
    st.tuples(st.just("set"), st.integers(0,9), st.booleans()),
    st.tuples(st.just("add"), st.sampled_from(["N","n2"])),
)
B = collections.Counter(); E = {}
def rec(k,i): B[k]+=1; E.setdefault(k,i)
def key_for(model, idx, indexed):
    i = idx % len(model); nm = model[i][0]
    occ = [j for j,(n,_) in enumerate(model) if n.lower()==nm.lower()]
    if indexed: return (nm, occ.index(i)), [i]
    return nm, occ
@settings(max_examples=int(sys.argv[2]), deadline=None, suppress_health_check=list(HealthCheck), database=None)
@given(fields(), st.lists(op, min_size=1, max_size=4), st.booleans())
def t(fl, ops, final_nl):
    text = "".join(t for _,t in fl)
    if not final_nl: text = text[:-1]
    d = parse_deb822_file(text.splitlines(True), accept_files_with_duplicated_fields=True)
    p = next(iter(d)); model = list(fl); ctr=0; cur=None
    try:
        for o in ops:
            cur=o[0]
            if not model: break
            if o[0] in ("first","last"):
                k, idxs = key_for(model, o[1], o[2])
                moved = [model[i] for i in idxs]; rest=[m for j,m in enumerate(model) if j not in idxs]
                getattr(p, "order_"+o[0])(k); model = moved+rest if o[0]=="first" else rest+moved
            elif o[0] in ("before","after"):
                k, idxs = key_for(model, o[1], o[2]); rk, ridxs = key_for(model, o[3], o[4])
                ref = ridxs[0] if o[0]=="before" else ridxs[-1]
                try: getattr(p, "order_"+o[0])(k, rk)
                except ValueError:
                    if ref in idxs: continue
                    rec("unexpected-ValueError", (text, ops)); return
                if ref in idxs: rec("missing-ValueError:"+o[0], (text, ops, o)); return
                refitem = model[ref]
                moved = [model[i] for i in idxs]; rest=[m for j,m in enumerate(model) if j not in idxs]
                pos = [j for j,m in enumerate(rest) if m is refitem][0]
                model = rest[:pos]+moved+rest[pos:] if o[0]=="before" else rest[:pos+1]+moved+rest[pos+1:]
            elif o[0]=="sort":
                p.sort_fields(); model = sorted(model, key=lambda m: m[0].lower())
            elif o[0]=="del":
                k, idxs = key_for(model, o[1], o[2]); del p[k]
                model=[m for j,m in enumerate(model) if j not in idxs]
            elif o[0]=="set":
                k, idxs = key_for(model, o[1], o[2]); ctr+=1
                p[k] = "new%d"%ctr
                first = idxs[0]; old = model[first]
                cm = old[1][:old[1].index(old[0]+":")] if old[1].startswith("#") else ""
                new = (old[0], cm+old[0]+": new%d\n"%ctr)
                model=[(new if j==first else m) for j,m in enumerate(model) if j==first or j not in idxs]
            elif o[0]=="add":
                if any(n.lower()==o[1].lower() for n,_ in model): continue
                ctr+=1; p[o[1]]="add%d"%ctr; model.append((o[1], o[1]+": add%d\n"%ctr))
            out = d.dump(); exp = "".join(t for _,t in model)
            if out != exp and out+"\n" != exp:
                rec("order-mismatch:"+cur, (text, ops, out, exp)); return
            cnt=collections.Counter()
            for n,tx in model:
                i=cnt[n.lower()]; cnt[n.lower()]+=1
                got = p.get_kvpair_element((n,i)).convert_to_text()
                if got != tx and got+"\n"!=tx: rec("index-mismatch:"+cur, (text, ops, n, i, got, tx)); return
    except Exception as e:
        rec("exc:%s:%s:%s"%(cur,type(e).__name__,str(e)[:40]), (text, ops, traceback.format_exc()[-300:])); return
    rec("ok",None)
t()
for k,v in sorted(B.items(), key=lambda kv:-kv[1])[:12]: print(v,k,repr(E[k])[:420])
