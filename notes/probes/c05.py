import sys, collections, traceback
sys.path.insert(0, sys.argv[1])
from hypothesis import given, settings, strategies as st, HealthCheck
from debian._deb822_repro import parse_deb822_file
NAMES=["Alpha","Beta","Gamma","Delta","X-y"]
first=st.sampled_from([" v\n","v\n","  v w  \n","\tv\n","\n",": x\n"," #h\n"])
cont=st.sampled_from([" c\n","\tc d\n","   e \n"," .\n"," #nc\n"])
cm=st.sampled_from(["","# c\n","#\n# two\n"])
@st.composite
def field(draw, nm):
    f=draw(first); cs=draw(st.lists(st.tuples(st.sampled_from(["","# ic\n"]),cont),max_size=2))
    if f=="\n" and not cs: cs=[("", " c\n")]
    return (nm, draw(cm), nm+":"+f+"".join(a+b for a,b in cs))
@st.composite
def doc(draw):
    np=draw(st.integers(1,3)); paras=[]; segs=[]
    for i in range(np):
        nms=draw(st.lists(st.sampled_from(NAMES),min_size=1,max_size=3,unique=True))
        paras.append([draw(field(n)) for n in nms])
    seps=[draw(st.sampled_from(["\n","\n\n","\n# free\n\n"])) for _ in range(np-1)]
    lead=draw(st.sampled_from(["","\n","# top\n\n"]))
    return lead,paras,seps,draw(st.booleans())
val=st.sampled_from(["n","  n m ","n\n c2","n\n\tc2\n c3","","n\n# ic\n c"])
op=st.one_of(st.tuples(st.just("set"),st.integers(0,5),st.integers(0,5),val,st.booleans()),
             st.tuples(st.just("add"),st.integers(0,5),st.sampled_from(["New","Zed"]),val),
             st.tuples(st.just("del"),st.integers(0,5),st.integers(0,5),st.booleans()))
def canon(v):
    ls=v.split("\n"); ls=[ls[0].strip()]+[l for l in ls[1:] if not l.startswith("#")]
    return "\n".join(ls) if len(ls)>1 else ls[0]
def newtext(name,v):
    if "\n" not in v: return name+": "+v.strip()+"\n"
    f,rest=v.split("\n",1); return name+": "+f.strip()+"\n"+rest+"\n"
B=collections.Counter(); E={}
def rec(k,i): B[k]+=1; E.setdefault(k,i)
def render(lead,paras,seps,final):
    out=lead
    for i,p in enumerate(paras):
        out+="".join(c+t for _,c,t in p)
        if i<len(seps): out+=seps[i]
    return out
@settings(max_examples=int(sys.argv[2]), deadline=None, suppress_health_check=list(HealthCheck), database=None)
@given(doc(), st.lists(op,min_size=1,max_size=4))
def t(dc, ops):
    lead,paras,seps,final=dc
    paras=[list(p) for p in paras]
    text=render(lead,paras,seps,final)
    if not final: text=text[:-1]
    try:
        d=parse_deb822_file(text.splitlines(True)); ps=list(d)
        assert len(ps)==len(paras)
        for o in ops:
            pi=o[1]%len(paras); p=ps[pi]; mp=paras[pi]
            if o[0]=="set":
                if not mp: continue
                fi=o[2]%len(mp); nm,c,tx=mp[fi]; key=nm.upper() if o[4] else nm
                p[key]=o[3]; mp[fi]=(nm,c,newtext(nm,o[3]))
            elif o[0]=="add":
                if any(n.lower()==o[2].lower() for n,_,_ in mp): continue
                p[o[2]]=o[3]; mp.append((o[2],"",newtext(o[2],o[3])))
            else:
                if len(mp)<=1: continue
                fi=o[2]%len(mp); nm=mp[fi][0]; del p[nm.lower() if o[3] else nm]; del mp[fi]
            out=d.dump(); exp=render(lead,paras,seps,True)
            if out!=exp and out+"\n"!=exp: rec("bytes:"+o[0],(text,ops,o,out,exp)); return
        d2=parse_deb822_file(d.dump().splitlines(True)); ps2=list(d2)
        if [list(q.keys()) for q in ps2]!=[[n for n,_,_ in mp] for mp in paras]: rec("keys",(text,ops,d.dump())); return
        rec("ok",None)
    except Exception as e: rec("EXC:"+type(e).__name__+":"+str(e)[:50],(text,ops,traceback.format_exc()[-300:]))
t()
for k,v in sorted(B.items(), key=lambda kv:-kv[1])[:8]: print(v,k,repr(E[k])[:500])
