import sys, itertools, collections, functools
sys.path.insert(0, sys.argv[1])
from debian import copyright as C
def parse_pat(p):
    out=[]; i=0
    while i<len(p):
        c=p[i]; i+=1
        if c=="*": out.append(("*",))
        elif c=="?": out.append(("?",))
        elif c=="\\":
            if i>=len(p): return None
            c=p[i]; i+=1
            if c not in "\\?*": return None
            out.append(("L",c))
        else: out.append(("L",c))
    return out
def ref_match(toks, name):
    @functools.lru_cache(None)
    def m(i,j):
        if i==len(toks): return j==len(name)
        t=toks[i]
        if t[0]=="*": return any(m(i+1,k) for k in range(j,len(name)+1))
        if j>=len(name): return False
        if t[0]=="?": return m(i+1,j+1)
        return name[j]==t[1] and m(i+1,j+1)
    return m(0,0)
ptoks=["a","/","*","?","\\*","\\\\","\\a","."]
nchars=["a","/","*","\\","\n","."]
pats=["".join(t) for L in (1,2,3) for t in itertools.product(ptoks,repeat=L)]
pats += ["a\\"]
names=["".join(t) for L in (0,1,2,3) for t in itertools.product(nchars,repeat=L)]
B=collections.Counter(); E={}
def rec(k,i): B[k]+=1; E.setdefault(k,i)
import random; rnd=random.Random(1)
lists=[[p] for p in pats]+[[rnd.choice(pats),rnd.choice(pats)] for _ in range(int(sys.argv[2]))]
n=0
for pl in lists:
    toks=[parse_pat(p) for p in pl]
    para=C.FilesParagraph.create(pl,"x",C.License("A"))
    for name in names:
        n+=1
        try: got=para.matches(name)
        except C.MachineReadableFormatError:
            if all(t is not None for t in toks): rec("unexpected-error",(pl,name))
            else: rec("ok-error",None)
            continue
        if any(t is None for t in toks): rec("missing-error",(pl,name)); continue
        exp=any(ref_match(tuple(t),name) for t in toks)
        if got!=exp: rec("mismatch-got%s"%got,(pl,name))
        else: rec("ok-%s"%exp,None)
print(n)
for k,v in sorted(B.items()): print(v,k,repr(E[k])[:200])
