import sys, collections, traceback, re
sys.path.insert(0, sys.argv[1])
from hypothesis import given, settings, strategies as st, HealthCheck
from debian.debtags import DB
PK = ["a","b","pk","foo","bar","x1","lib-z","q"]
TG = ["f::a","f::b","g::a","g","h::x::y","role::p"]
pk = st.sampled_from(PK); tg = st.sampled_from(TG); tags = st.sets(tg, max_size=3)
op = st.one_of(
  st.tuples(st.just("insert"), st.integers(0,9), pk, tags.map(sorted)),
  st.tuples(st.sampled_from(["reverse","reverse_copy","copy","facet"]), st.integers(0,9)),
  st.tuples(st.sampled_from(["choose","choose_copy","fpk","fpk_copy","fpt","fpt_copy"]), st.integers(0,9), st.sets(pk,max_size=4).map(sorted)),
  st.tuples(st.sampled_from(["ftag","ftag_copy"]), st.integers(0,9), st.sets(tg,max_size=4).map(sorted)),
)
class M:  # reference: forward dict pkg->set(tags), reverse dict tag->set(pkgs) kept as relation + key sets
    def __init__(s, P=None, T=None, R=None): s.P=set(P or ()); s.T=set(T or ()); s.R=set(R or ())
    def fwd(s): return {p:{t for (q,t) in s.R if q==p} for p in s.P}
    def rev(s): return {t:{p for (p,u) in s.R if u==t} for t in s.T}
B=collections.Counter(); E={}
def rec(k,i): B[k]+=1; E.setdefault(k,i)
FACET = re.compile(r"^([^:]+).+")
def check(db, m):
    return db.db==m.fwd() and db.rdb==m.rev()
@settings(max_examples=int(sys.argv[2]), deadline=None, suppress_health_check=list(HealthCheck), database=None)
@given(st.lists(st.tuples(pk, tags.map(sorted)), max_size=5, unique_by=lambda x:x[0]), st.lists(op, min_size=1, max_size=8), st.booleans())
def t(init, ops, singlechar):
    if singlechar: init=[(p[0],ts) for p,ts in init]; init=list({p:(p,ts) for p,ts in init}.values())
    db=DB(); db.read(iter(["%s: %s\n"%(p,", ".join(ts)) if ts else p+"\n" for p,ts in init]))
    m=M([p for p,_ in init], {t for _,ts in init for t in ts}, {(p,t) for p,ts in init for t in ts})
    pool=[[db,m,set()]]  # shared-with ids
    known=0
    try:
        for o in ops:
            i=o[1]%len(pool); d,mm,_=pool[i]
            if o[0]=="insert":
                p=o[2][0] if singlechar else o[2]
                if p in mm.P: continue
                d.insert(p,set(o[3]))
                newtags=[t for t in o[3] if t not in mm.T]
                mm.P.add(p); mm.T|=set(o[3]); mm.R|={(p,t) for t in o[3]}
                # drop sharing relatives
                pool=[e for j,e in enumerate(pool) if j==i or (id(d) not in e[2] and id(e[0]) not in pool[i][2])]
                if not check(d,mm):
                    # known deviation?
                    exp_rev=mm.rev()
                    for t in newtags: exp_rev[t]=set(p)
                    if d.db==mm.fwd() and d.rdb==exp_rev: known+=1; rec("known-insert",None); return
                    rec("VIOL:insert",(init,ops,d.db,d.rdb)); return
                # copies must be intact
                for e in pool:
                    if not check(e[0],e[1]): rec("VIOL:insert-broke-other",(init,ops,o,e[0].db,e[0].rdb,e[1].fwd())); return
                continue
            if o[0]=="reverse": nd=d.reverse(); nm=M(mm.T,mm.P,{(t,p) for p,t in mm.R}); share=True
            elif o[0]=="reverse_copy": nd=d.reverse_copy(); nm=M(mm.T,mm.P,{(t,p) for p,t in mm.R}); share=False
            elif o[0]=="copy": nd=d.copy(); nm=M(mm.P,mm.T,mm.R); share=False
            elif o[0]=="facet":
                nd=d.facet_collection(); f=lambda t: FACET.sub(r"\1",t)
                nm=M(mm.P,{f(t) for p,t in mm.R},{(p,f(t)) for p,t in mm.R}); share=False
                if not check(nd,nm): rec("known-or-viol:facet",None); return
            elif o[0] in("choose","choose_copy","fpk","fpk_copy","fpt","fpt_copy"):
                sel=set(o[2])
                if o[0]=="choose": nd=d.choose_packages(sel)
                elif o[0]=="choose_copy":
                    sel=sel & mm.P; nd=d.choose_packages_copy(sel)
                elif o[0]=="fpk": nd=d.filter_packages(lambda p:p in sel)
                elif o[0]=="fpk_copy": nd=d.filter_packages_copy(lambda p:p in sel)
                elif o[0]=="fpt": nd=d.filter_packages_tags(lambda pt:pt[0] in sel)
                else: nd=d.filter_packages_tags_copy(lambda pt:pt[0] in sel)
                keep=mm.P&sel; R={(p,t) for p,t in mm.R if p in keep}
                nm=M(keep,{t for _,t in R},R); share=not o[0].endswith("_copy") or o[0]=="choose_copy"
            else:
                sel=set(o[2]); nd=d.filter_tags(lambda t:t in sel) if o[0]=="ftag" else d.filter_tags_copy(lambda t:t in sel)
                keep=mm.T&sel; R={(p,t) for p,t in mm.R if t in keep}
                nm=M({p for p,_ in R},keep,R); share=(o[0]=="ftag")
            if not check(nd,nm): rec("VIOL:"+o[0],(init,ops,o,nd.db,nd.rdb,nm.fwd(),nm.rev())); return
            ent=[nd,nm,set()]
            if share: ent[2].add(id(d)); 
            pool.append(ent)
    except Exception as e:
        rec("EXC:"+type(e).__name__+":"+str(e)[:40],(init,ops,traceback.format_exc()[-300:])); return
    rec("ok",None)
t()
for k,v in sorted(B.items(), key=lambda kv:-kv[1])[:10]: print(v,k,repr(E[k])[:600])
