import sys, itertools, collections
sys.path.insert(0, sys.argv[1])
from debian.debian_support import Version
UP = set("abcdefghijklmnopqrstuvwxyzABCDEFGHIJKLMNOPQRSTUVWXYZ0123456789.+~-")
REV = UP - {"-"}
def recog(s):
    # returns ("VALID",(e,u,r)) | ("INVALID",) | ("UNSPEC",)
    if s == "": return ("INVALID",)
    epoch=None; rest=s
    if ":" in s:
        e, rest = s.split(":",1)
        if e=="" or not all(c in "0123456789" for c in e): 
            return ("INVALID",)
        epoch=e
        upchars = UP|{":"}
    else: upchars = UP
    if not all(c in upchars for c in rest): return ("INVALID",)
    if rest=="": return ("INVALID",)
    if "-" in rest:
        u, r = rest.rsplit("-",1)
        if u=="" or r=="": return ("UNSPEC",)
        return ("VALID",(epoch,u,r))
    return ("VALID",(epoch,rest,None))
alpha = ["0","1","a",".","+","~","-",":"," ","\n","_","١","é"]
B=collections.Counter(); E={}
def rec(k,i): B[k]+=1; E.setdefault(k,i)
n=0
for L in range(0,int(sys.argv[2])+1):
    for tup in itertools.product(alpha, repeat=L):
        s="".join(tup); n+=1
        exp=recog(s)
        try:
            v=Version(s); got=(v.epoch,v.upstream_version,v.debian_revision)
            if exp[0]=="INVALID": rec("accepted-invalid",s); continue
            if str(v)!=s: rec("str-differs",s); continue
            rc=(got[0]+":" if got[0] is not None else "")+got[1]+("-"+got[2] if got[2] is not None else "")
            if rc!=s: rec("recompose-differs",(s,got)); continue
            if exp[0]=="VALID" and got!=exp[1]: rec("split-differs",(s,got,exp[1])); continue
            rec("ok-"+exp[0],s)
        except ValueError:
            if exp[0]=="VALID": rec("rejected-valid",s)
            else: rec("rej-"+exp[0],s)
print(n)
for k,v in sorted(B.items()): print(v,k,repr(E[k])[:200])
