import sys, collections, traceback, itertools, re
sys.path.insert(0, sys.argv[1])
from hypothesis import given, settings, strategies as st, HealthCheck
from debian.deb822 import Dsc, Changes, BuildInfo, PdiffIndex, Release
DOC = {  # from the module docstring / class docstrings, not from _multivalued_fields
 Dsc: {"Files":["md5sum","size","name"],"Checksums-Sha1":["sha1","size","name"],"Checksums-Sha256":["sha256","size","name"],"Checksums-Sha512":["sha512","size","name"]},
 Changes: {"Files":["md5sum","size","section","priority","name"],"Checksums-Sha1":["sha1","size","name"],"Checksums-Sha256":["sha256","size","name"],"Checksums-Sha512":["sha512","size","name"]},
 BuildInfo: {"Checksums-Md5":["md5","size","name"],"Checksums-Sha1":["sha1","size","name"],"Checksums-Sha256":["sha256","size","name"],"Checksums-Sha512":["sha512","size","name"]},
 Release: {"MD5Sum":["md5sum","size","name"],"SHA1":["sha1","size","name"],"SHA256":["sha256","size","name"],"SHA512":["sha512","size","name"]},
 PdiffIndex: {**{p+"SHA%s-%s"%(h,k):["SHA%s"%h,"size",("date" if k!="Download" else "filename")] for h in ("1","256") for k in ("History","Patches","Download") for p in ("","X-Unmerged-")}, "SHA1-Current":["SHA1","size"],"SHA256-Current":["SHA256","size"]},
}
tok=st.text(alphabet="ab1:#./-_é", min_size=1, max_size=6)
size=st.integers(0,10**18).map(str)
B=collections.Counter(); E={}
def rec(k,i): B[k]+=1; E.setdefault(k,i)
@st.composite
def case(draw):
    cls=draw(st.sampled_from(list(DOC)))
    fields=DOC[cls]
    present=draw(st.lists(st.sampled_from(sorted(fields)),unique=True,min_size=1,max_size=len(fields)))
    recs={}
    for f in present:
        subs=fields[f]
        n=draw(st.integers(1,3))
        recs[f]=[{s:(draw(size) if s=="size" else draw(tok)) for s in subs} for _ in range(n)]
    dak=draw(st.booleans())
    return cls,present,recs,dak
@settings(max_examples=int(sys.argv[2]), deadline=None, suppress_health_check=list(HealthCheck), database=None)
@given(case())
def t(c):
    cls,present,recs,dak=c
    try:
        o=cls(); o["Origin"]="x"
        if cls is Release and dak: o.size_field_behavior="dak"
        for f in present: o[f]=recs[f]
        text=o.dump()
        o2=cls(text)
        for f in present:
            got=[{s:r[s] for s in DOC[cls][f]} for r in o2[f]] if not hasattr(o2[f],"keys") else [{s:o2[f][s] for s in DOC[cls][f]}]
            if got!=recs[f]: rec("records-differ",(cls.__name__,f,recs[f],got,text)); return
        if cls is Release and dak: o2.size_field_behavior="dak"
        if o2.dump()!=text: rec("dump2-differs",(cls.__name__,text,o2.dump())); return
        # alignment
        if cls in (Release,PdiffIndex):
            cur=None
            for line in text.splitlines():
                if not line.startswith(" "): cur=line.split(":")[0]; continue
                if cur in recs:
                    w=16 if (cls is Release and not dak) else max(len(r["size"]) for r in recs[cur])
                    m=re.match(r"^ (\S+) ( *)(\S+)( |$)",line)
                    if not m or len(m.group(2))+len(m.group(3))!=max(w,len(m.group(3))): rec("align",(cls.__name__,dak,line,w)); return
        rec("ok:"+cls.__name__,None)
    except Exception as e: rec("EXC:"+cls.__name__+":"+type(e).__name__+":"+str(e)[:30],(present,traceback.format_exc()[-200:]))
t()
for k,v in sorted(B.items(), key=lambda kv:-kv[1])[:10]: print(v,k,repr(E[k])[:300])
