import sys, io, collections, traceback, os, tempfile
sys.path.insert(0, sys.argv[1])
from hypothesis import given, settings, strategies as st, HealthCheck
from debian.arfile import ArFile
def hdr(name, size, mt, u, g, mode):
    h=("%-16s%-12d%-6d%-6d%-8o%-10d"%(name,mt,u,g,mode,size)).encode()+b"`\n"; assert len(h)==60; return h
name=st.text(alphabet="ab.-_1", min_size=1, max_size=6)
data=st.lists(st.sampled_from([b"\n",b"a",b"bc",b"\x00",b"`\n",b"!<arch>\n",b"x"*7]),max_size=6).map(b"".join)
member=st.tuples(name, st.booleans(), data, st.integers(0,10**9), st.integers(0,99999), st.integers(0,99999))
op=st.one_of(
  st.tuples(st.just("read"),st.integers(0,9)), st.tuples(st.just("readn"),st.integers(0,9),st.integers(1,12)),
  st.tuples(st.just("readline"),st.integers(0,9)), st.tuples(st.just("readlinen"),st.integers(0,9),st.integers(0,12)),
  st.tuples(st.just("readlines"),st.integers(0,9)), st.tuples(st.just("tell"),st.integers(0,9)),
  st.tuples(st.just("seek"),st.integers(0,9),st.integers(0,50),st.sampled_from([0,1,2])),
)
B=collections.Counter(); E={}
def rec(k,i): B[k]+=1; E.setdefault(k,i)
@settings(max_examples=int(sys.argv[2]), deadline=None, suppress_health_check=list(HealthCheck), database=None)
@given(st.lists(member,max_size=4), st.lists(op,max_size=20), st.booleans())
def t(ms, ops, byname):
    raw=b"!<arch>\n"
    for n,gnu,d,mt,u,g in ms: raw+=hdr(n+("/" if gnu else ""),len(d),mt,u,g,0o644)+d+(b"\n" if len(d)%2 else b"")
    tmp=None
    try:
        if byname:
            fd,tmp=tempfile.mkstemp(); os.write(fd,raw); os.close(fd); ar=ArFile(filename=tmp)
        else: ar=ArFile(fileobj=io.BytesIO(raw))
        if ar.getnames()!=[m[0] for m in ms]: rec("names",(ms,ar.getnames())); return
        got=[(m.size,m.mtime,m.owner,m.group) for m in ar.getmembers()]
        if got!=[(len(m[2]),m[3],m[4],m[5]) for m in ms]: rec("meta",(ms,got)); return
        for n in set(m[0] for m in ms):
            last=[i for i,m in enumerate(ms) if m[0]==n][-1]
            if ar.getmember(n) is not ar.getmembers()[last]: rec("getmember-not-last",(ms,n)); return
        if not ms: rec("ok-empty",None); return
        mem=ar.getmembers(); sh=[io.BytesIO(m[2]) for m in ms]
        for o in ops:
            i=o[1]%len(ms); m=mem[i]; s=sh[i]
            if o[0]=="read": a,b=m.read(),s.read()
            elif o[0]=="readn": a,b=m.read(o[2]),s.read(o[2])
            elif o[0]=="readline": a,b=m.readline(),s.readline()
            elif o[0]=="readlinen": a,b=m.readline(o[2]),s.readline(o[2])
            elif o[0]=="readlines": a,b=m.readlines(),s.readlines()
            elif o[0]=="tell": a,b=m.tell(),s.tell()
            else:
                off,wh=o[2],o[3]
                if wh==2: off=-min(off,len(ms[i][2]))
                if wh==1: off=off if off%2 else -min(off,s.tell())
                m.seek(off,wh); s.seek(off,wh); a=b=None
            if a!=b: rec("diff:"+o[0],(ms,ops,o,a,b)); return
            for mm,ss in zip(mem,sh):
                if mm.tell()!=ss.tell(): rec("tell-diff-after:"+o[0],(ms,ops,o,mm.tell(),ss.tell())); return
        rec("ok",None)
    except Exception as e:
        rec("EXC:"+type(e).__name__+":"+str(e)[:40],(ms,ops,traceback.format_exc()[-300:]))
    finally:
        if tmp: os.unlink(tmp)
t()
for k,v in sorted(B.items(), key=lambda kv:-kv[1])[:10]: print(v,k,repr(E[k])[:500])
