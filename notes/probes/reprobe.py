import sys, io, itertools, collections
sys.path.insert(0,'/tmp/scratch/repo/lib')
from debian._deb822_repro import parse_deb822_file, LIST_SPACE_SEPARATED_INTERPRETATION as WS
from debian._deb822_repro.tokens import tokenize_deb822_file
# C01 exhaustive re-run
bodies = ["", " ", "\t", "#c", "A: b", "A:", "A:b ", " c", "\tc", " #x", "junk", "-A: b", "\xa0", "\r", "a\rb: c", "\x0b", " \x0b", "\u2028", "A: b\r", ":", "A : b", "\x85", "A:\u2028"]
fails = collections.Counter(); ex={}; n=0
for k in (1,2,3):
    for combo in itertools.product(bodies, repeat=k):
        for mode in ("term","lastun","none"):
            if mode=="term": lines=[b+"\n" for b in combo]
            elif mode=="lastun":
                if combo[-1]=="": continue
                lines=[b+"\n" for b in combo[:-1]]+[combo[-1]]
            else:
                if k<2: continue
                lines=list(combo)
            exp = "".join(lines) if mode!="none" else "".join(l+"\n" for l in lines)
            n+=1
            try:
                d=parse_deb822_file(list(lines), accept_files_with_error_tokens=True, accept_files_with_duplicated_fields=True)
                if d.dump()!=exp or "".join(t.text for t in tokenize_deb822_file(list(lines)))!=exp:
                    fails[("MISMATCH",mode)]+=1; ex.setdefault(("MISMATCH",mode),lines)
            except Exception as e:
                key=(type(e).__name__,str(e)[:50],mode); fails[key]+=1; ex.setdefault(key,lines)
print("C01", n, dict(fails), ex)
# C11
for val in [" \n a\n", "\t \n\t b c\n"]:
    d = parse_deb822_file(("F:"+val+"Z: 1\n").splitlines(True)); p=next(iter(d))
    with p.as_interpreted_dict_view(WS)["F"] as l:
        print("C11", list(l)); l.append("zz"); l.remove("a") if "a" in list(l) else None
    print(repr(d.dump()))
# C06
from debian.arfile import ArFile
def hdr(name,size): return ("%-16s%-12d%-6d%-6d%-8o%-10d"%(name,1,2,3,0o644,size)).encode()+b"`\n"
a=b"!<arch>\n"+hdr("a/",11)+b"line1\nline2\n"+hdr("b",4)+b"xyz\n"
m=ArFile(fileobj=io.BytesIO(a)).getmembers()[0]
print("C06", m.readline(), m.tell(), m.readline(), m.tell(), m.readline(), m.tell()); m.seek(0); print(m.readlines(), m.readline(3)); m.seek(20); print(m.readline(), m.tell())
# C12
from debian.deb822 import PdiffIndex, Release
p=PdiffIndex("SHA1-Current: abc 12\nSHA1-History:\n aaa 1 p1\n bbb 22 p2\n"); print("C12", repr(p.dump()))
r=Release("MD5Sum:\n aa 12 x\n bb 3456 y\n"); r.size_field_behavior="dak"; print(repr(r.dump()))
# C20
from debian.debtags import DB
db=DB(); db.read(iter(["p1: t1, t2\n","p2: t1\n"])); c=db.copy(); rc=db.reverse_copy(); db.insert("x",{"t1"}); print("C20", c.rdb, rc.db)
