import sys
sys.path.insert(0, sys.argv[1])
from debian._deb822_repro import parse_deb822_file
from debian._deb822_repro.parsing import Deb822ParagraphElement
def P(t): return parse_deb822_file(t.splitlines(True))
def newp(n):
    p = Deb822ParagraphElement.new_empty_paragraph(); p["N%d"%n]="v"; return p
docs = ["A: 1\n\nB: 2\n", "A: 1\n\n\nB: 2", "A: 1\n\n# free\n\nB: 2\n", "# lead\n\nA: 1\n", "A: 1\n# trailing", "\n\nA: 1\n \nB: 2\n\n", "", "# only\n"]
for t in docs:
    for idx in (0,1,2,5):
        d = P(t); 
        try:
            d.insert(idx, newp(idx)); out = d.dump()
            ps = [list(p.keys()) for p in P(out)]
            print(repr(t), idx, "->", repr(out), ps)
        except Exception as e: print(repr(t), idx, "EXC", type(e).__name__, e)
    d = P(t); d.append(newp(9)); out=d.dump(); print(repr(t), "append ->", repr(out), [list(p.keys()) for p in P(out)])
