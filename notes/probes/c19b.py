import sys, os, gzip, tempfile, shutil, hashlib, builtins
sys.path.insert(0, sys.argv[1])
from unittest import mock
from debian import debian_support as ds
class FailingFile:
    def __init__(s, f, k): s.f=f; s.k=k; s.n=0
    def write(s, data):
        s.n+=1
        if s.n==s.k: raise OSError(28,"No space left on device")
        return s.f.write(data)
    def __enter__(s): s.f.__enter__(); return s
    def __exit__(s,*a): return s.f.__exit__(*a)
    def __getattr__(s,n): return getattr(s.f,n)
def fake_open_factory(target, k):
    def fake_open(name, *a, **kw):
        f=builtins.open(name,*a,**kw)
        if name==target: return FailingFile(f,k)
        return f
    return fake_open
cur=["a\n","b\n","c\n"]
for start in ("absent","old"):
  for k in (1,2,3,4):
    d=tempfile.mkdtemp(); os.makedirs(d+"/repo"); 
    with gzip.open(d+"/repo/P.gz","wt") as f: f.write("".join(cur))
    local=d+"/local"
    if start=="old": open(local,"w").write("old\n")
    try:
        with mock.patch.object(ds,"open",fake_open_factory(local+".new",k),create=True):
            r=ds.update_file("file://"+d+"/repo/P",local)
        print(start,k,"returned",r==cur, open(local).read()=="".join(cur), sorted(os.listdir(d)))
    except Exception as e:
        st = (open(local).read() if os.path.exists(local) else None)
        print(start,k,"EXC",type(e).__name__,"local:",repr(st),sorted(os.listdir(d)))
    shutil.rmtree(d)
