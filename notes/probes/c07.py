import sys, io, tarfile, gzip, bz2, lzma, collections, traceback, hashlib
sys.path.insert(0, sys.argv[1])
from hypothesis import given, settings, strategies as st, HealthCheck
from debian.debfile import DebFile, DebError
from debian.deb822 import Deb822
def hdr(name,size): h=("%-16s%-12d%-6d%-6d%-8o%-10d"%(name,0,0,0,0o100644,size)).encode()+b"`\n"; assert len(h)==60,name; return h
def ar(ms):
    out=b"!<arch>\n"
    for n,d in ms: out+=hdr(n,len(d))+d+(b"\n" if len(d)%2 else b"")
    return out
def tar(files,fmt):
    b=io.BytesIO()
    with tarfile.open(fileobj=b,mode="w",format=fmt) as t:
        ti=tarfile.TarInfo("./"); ti.type=tarfile.DIRTYPE; t.addfile(ti)
        for n,d in files:
            ti=tarfile.TarInfo("./"+n); ti.size=len(d); t.addfile(ti,io.BytesIO(d))
    return b.getvalue()
COMP={"":lambda b:b,".gz":gzip.compress,".bz2":bz2.compress,".xz":lambda b:lzma.compress(b,format=lzma.FORMAT_XZ),".lzma":lambda b:lzma.compress(b,format=lzma.FORMAT_ALONE)}
comp=st.sampled_from(sorted(COMP))
seg=st.text(alphabet="ab .é漢-_+", min_size=1, max_size=6).filter(lambda s:s==s.strip() and s not in (".",".."))
fname=st.lists(seg,min_size=1,max_size=3).map("/".join)
files=st.lists(st.tuples(fname,st.binary(max_size=20)),max_size=4,unique_by=lambda x:x[0])
scripts=st.dictionaries(st.sampled_from(['preinst','postinst','prerm','postrm','config']),st.binary(max_size=10),max_size=5)
B=collections.Counter(); E={}
def rec(k,i): B[k]+=1; E.setdefault(k,i)
@settings(max_examples=int(sys.argv[2]), deadline=None, suppress_health_check=list(HealthCheck), database=None)
@given(files,scripts,comp,comp,st.sampled_from([tarfile.GNU_FORMAT,tarfile.PAX_FORMAT,tarfile.USTAR_FORMAT]),st.integers(0,2))
def t(fs,sc,ce,de,fmt,pos):
    try:
        ctrl={"Package":"foo","Version":"1.0-1","Description":"short\n long é\n ."}
        md5=b"".join(hashlib.md5(d).hexdigest().encode()+b"  "+n.encode()+b"\n" for n,d in fs)
        cfiles=[("control",Deb822(ctrl).dump().encode()),("md5sums",md5)]+sorted(sc.items())
        ms=[("control.tar"+ce,COMP[ce](tar(cfiles,fmt))),("data.tar"+de,COMP[de](tar(fs,fmt)))]
        ms.insert(pos,("debian-binary",b"2.0\n"))
        d=DebFile(fileobj=io.BytesIO(ar(ms)))
        assert d.version==b"2.0"
        assert dict(d.debcontrol())==ctrl,("ctrl",dict(d.debcontrol()))
        assert d.scripts()==sc,("scripts",d.scripts())
        assert d.md5sums(encoding="utf-8")=={n:hashlib.md5(x).hexdigest() for n,x in fs},("md5",d.md5sums(encoding="utf-8"))
        assert d.md5sums()=={n.encode():hashlib.md5(x).hexdigest() for n,x in fs}
        for n,x in fs:
            for spn in (n,"./"+n,"/"+n):
                assert d.data.has_file(spn) and (spn in d.data) and d.data.get_content(spn)==x and d.data[spn]==x,("file",spn)
        for spn in ("nope","./nope","/nope"): assert not d.data.has_file(spn)
        rec("ok",None)
    except Exception as e: rec("FAIL:"+type(e).__name__+":"+str(e)[:60],(fs,sc,ce,de,fmt,traceback.format_exc()[-300:]))
t()
for k,v in sorted(B.items(), key=lambda kv:-kv[1])[:8]: print(v,k,repr(E[k])[:400])
