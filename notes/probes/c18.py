import sys, collections, traceback, difflib, subprocess, tempfile, os
sys.path.insert(0, sys.argv[1])
from hypothesis import given, settings, strategies as st, HealthCheck
from debian.debian_support import patches_from_ed_script, patch_lines
pool=["a\n","b\n","c\n","..\n"," .\n","1a\n","\n"]
def ed(a,b,single):
    sm=difflib.SequenceMatcher(None,a,b,autojunk=False); out=[]
    for tag,i1,i2,j1,j2 in reversed(sm.get_opcodes()):
        if tag=="equal": continue
        rng=("%d"%(i1+1)) if (i2-i1==1 and single) else "%d,%d"%(i1+1,i2)
        if tag=="delete": out.append(rng+"d\n")
        elif tag=="insert": out.append("%da\n"%i1); out+=b[j1:j2]+[".\n"]
        else: out.append(rng+"c\n"); out+=b[j1:j2]+[".\n"]
    return out
B=collections.Counter(); E={}
def rec(k,i): B[k]+=1; E.setdefault(k,i)
lines=st.lists(st.sampled_from(pool),max_size=10)
@settings(max_examples=int(sys.argv[2]), deadline=None, suppress_health_check=list(HealthCheck), database=None)
@given(lines, lines, st.booleans(), st.booleans(), st.booleans())
def t(a,b,single,asbytes,usediff):
    if usediff:
        d=tempfile.mkdtemp()
        open(d+"/a","w").write("".join(a)); open(d+"/b","w").write("".join(b))
        r=subprocess.run(["diff","-e",d+"/a",d+"/b"],capture_output=True,text=True)
        os.unlink(d+"/a"); os.unlink(d+"/b"); os.rmdir(d)
        script=r.stdout.splitlines(True)
        if any(l.startswith("s/") for l in script): rec("diff-uses-s",None); return
    else: script=ed(a,b,single)
    try:
        if asbytes:
            L=[x.encode() for x in a]; patch_lines(L, patches_from_ed_script(iter([x.encode() for x in script]))); ok = L==[x.encode() for x in b]
        else:
            L=list(a); patch_lines(L, patches_from_ed_script(script)); ok = L==b
        if not ok: rec("wrong-result",(a,b,script,L)); return
        rec("ok-diff" if usediff else "ok",None)
    except Exception as e: rec("EXC:"+type(e).__name__+":"+str(e)[:40],(a,b,script))
    # truncation: drop final "." if last line is "."
    if script and script[-1]==".\n":
        try:
            list(patches_from_ed_script(script[:-1])); rec("unterminated-accepted",(script[:-1],))
        except ValueError: rec("unterminated-rejected",None)
t()
for k,v in sorted(B.items(), key=lambda kv:-kv[1])[:10]: print(v,k,repr(E[k])[:300])
