import collections, traceback
from hypothesis import given, settings, strategies as st, HealthCheck
from debian.deb822 import Deb822, Deb822Dict
from debian._util import OrderedSet
keys = ["A","a","Ab","AB","ab","b","B","X-y","x-Y","zz"]
k = st.sampled_from(keys)
op = st.one_of(
 st.tuples(st.just("set"), k, st.sampled_from(["1","2","v w"])),
 st.tuples(st.just("del"), k), st.tuples(st.just("get"), k), st.tuples(st.just("in"), k),
 st.tuples(st.just("first"), k), st.tuples(st.just("last"), k),
 st.tuples(st.just("before"), k, k), st.tuples(st.just("after"), k, k),
 st.tuples(st.just("sort")), st.tuples(st.just("copy")), st.tuples(st.just("reparse")),
 st.tuples(st.just("pop"), k), st.tuples(st.just("setdefault"), k, st.just("d")),
)
B=collections.Counter(); E={}
def rec(kd,i): B[kd]+=1; E.setdefault(kd,i)
def find(m,key):
    for i,(s,v) in enumerate(m):
        if s.lower()==key.lower(): return i
    return None
@settings(max_examples=4000, deadline=None, suppress_health_check=list(HealthCheck), database=None)
@given(st.sampled_from(["empty","dict","text"]), st.lists(op, min_size=1, max_size=25))
def t(init, ops):
    if init=="empty": d=Deb822(); m=[]
    elif init=="dict": d=Deb822({"A":"1","b":"2"}); m=[["A","1"],["b","2"]]
    else: d=Deb822("Ab: 1\nzz: 2\nB: 3\n"); m=[["Ab","1"],["zz","2"],["B","3"]]
    for o in ops:
        before=[list(x) for x in m]
        try:
            if o[0]=="set":
                i=find(m,o[1]); d[o[1]]=o[2]
                if i is None: m.append([o[1],o[2]])
                else: m[i][1]=o[2]
            elif o[0]=="del":
                i=find(m,o[1])
                try: del d[o[1]]; assert i is not None, "del missing succeeded"; del m[i]
                except KeyError: assert i is None, "KeyError on present"
            elif o[0]=="get":
                i=find(m,o[1])
                try: v=d[o[1]]; assert i is not None and v==m[i][1]
                except KeyError: assert i is None
            elif o[0]=="in": assert (o[1] in d)==(find(m,o[1]) is not None)
            elif o[0] in("first","last"):
                i=find(m,o[1])
                try:
                    getattr(d,"order_"+o[0])(o[1]); assert i is not None
                    x=m.pop(i); m.insert(0,x) if o[0]=="first" else m.append(x)
                except KeyError: assert i is None
            elif o[0] in("before","after"):
                i=find(m,o[1]); j=find(m,o[2])
                try:
                    getattr(d,"order_"+o[0])(o[1],o[2])
                    assert i is not None and j is not None and i!=j, "should have raised"
                    x=m.pop(i); j=find(m,o[2]); m.insert(j if o[0]=="before" else j+1, x)
                except KeyError: assert i is None or j is None, "KeyError but both present"
                except ValueError: assert o[1].lower()==o[2].lower(), "ValueError unexpected"
            elif o[0]=="sort": d.sort_fields(); m.sort(key=lambda e:e[0].lower())
            elif o[0]=="copy": d=d.copy()
            elif o[0]=="reparse":
                if m: d=Deb822(d.dump())
            elif o[0]=="pop":
                i=find(m,o[1])
                try: v=d.pop(o[1]); assert i is not None and v==m[i][1]; del m[i]
                except KeyError: assert i is None
            elif o[0]=="setdefault":
                i=find(m,o[1]); v=d.setdefault(o[1],o[2])
                if i is None: m.append([o[1],o[2]])
                assert v==(o[2] if i is None else m[i][1])
            assert list(d)==[s for s,_ in m], ("order", list(d), m)
            assert [d[x] for x in d]==[v for _,v in m]
            assert len(d)==len(m)
        except AssertionError as e:
            rec("FAIL:"+o[0]+":"+str(e)[:40], (init,ops,o,list(d.items()),m,before)); return
        except Exception as e:
            rec("EXC:"+o[0]+":"+type(e).__name__, (init,ops,traceback.format_exc()[-300:])); return
    rec("ok",None)
t()
for kk,v in sorted(B.items()): print(v,kk,repr(E[kk])[:500])
