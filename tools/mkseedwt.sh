#!/bin/sh
# tools/mkseedwt.sh C18 C19 ... : scratch worktree /tmp/seed-<ID> of /repo HEAD with PROPERTY.txt
for p in "$@"; do
  git -C /repo worktree add --detach -q /tmp/seed-$p HEAD
  /venv/bin/python - "$p" <<'PY'
import json, sys
for l in open('/verif/properties.jsonl'):
    p = json.loads(l)
    if p['id'] == sys.argv[1]:
        open('/tmp/seed-%s/PROPERTY.txt' % p['id'], 'w').write(
            "Property %s: %s\n\nStatement: %s\n\nQuantified over: %s\n\nAnchored in: %s\n" % (
                p['id'], p['title'], p['statement'], p['quantifier']['text'], ', '.join(p['anchors']['files'])))
PY
done
