#!/bin/sh
# tools/try_seed.sh <seeded dir name or patch file> <CHECK ID> [tier]: run one check against one patch in a scratch worktree
p=$1; [ -d "/verif/seeded/$p" ] && p=/verif/seeded/$p/patch.diff
t=$(mktemp -d /tmp/vtry-XXXXXX)
git -C /repo worktree add --detach -q $t/wt HEAD && (cd $t/wt && patch -p1 -s -f -i $p) && \
  (cd /verif && VERIF_OUT_DIR=$t VERIF_NO_SHRINK=1 VERIF_REPO_LIB=$t/wt/lib ./check $2 --tier ${3:-quick} 2>&1 | cut -c1-220 | head -${4:-8})
git -C /repo worktree remove --force $t/wt; rm -rf $t
