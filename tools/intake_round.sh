#!/bin/sh
# tools/intake_round.sh <slug> <letters...>: intake every /tmp/seed-*/patch<L>.diff not yet kept
slug=$1; shift
for d in /tmp/seed-C*; do
  id=$(basename $d | sed 's/seed-//')
  for x in "$@"; do
    [ -f $d/patch$x.diff ] || continue
    [ -d /verif/seeded/$id-$x-$slug ] && continue
    /verif/tools/seed_intake.py $d $id $x $slug 2>&1 | tail -1
  done
done
