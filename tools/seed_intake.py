#!/venv/bin/python
"""Take an independently written breaking change into /verif/seeded/ after confirming it.

    tools/seed_intake.py <scratch dir> <PROPERTY ID> <A|B|...> <slug>

Expects <scratch dir>/patch<X>.diff, demo<X>.py, notes<X>.md.  In a fresh detached worktree of
/repo HEAD (under $TMPDIR) it confirms: unchanged tree -> full suite passes and the demo exits 0;
with the patch -> full suite still passes and the demo exits 1.  Only then the files are copied
to seeded/<ID>-<X>-<slug>/ (patch.diff, demo.py, notes.md, meta.json).
"""
import json
import os
import shutil
import subprocess
import sys
import tempfile

ROOT = os.path.dirname(os.path.dirname(os.path.abspath(__file__)))
PY = "/venv/bin/python"


def sh(cmd, cwd):
    r = subprocess.run(cmd, cwd=cwd, stdout=subprocess.PIPE, stderr=subprocess.STDOUT)
    return r.returncode, r.stdout.decode("utf-8", "replace")


def main():
    src, pid, x, slug = sys.argv[1:5]
    patch = os.path.join(src, "patch%s.diff" % x)
    demo = os.path.join(src, "demo%s.py" % x)
    notes = os.path.join(src, "notes%s.md" % x)
    tmp = tempfile.mkdtemp(prefix="vseed-")
    wt = os.path.join(tmp, "wt")
    ran = []
    try:
        subprocess.run(["git", "-C", "/repo", "worktree", "add", "--detach", "-q", wt, "HEAD"], check=True)
        head = subprocess.run(["git", "-C", "/repo", "rev-parse", "--short", "HEAD"],
                              stdout=subprocess.PIPE).stdout.decode().strip()
        shutil.copy(demo, os.path.join(wt, "demo.py"))
        rc0, out0 = sh([PY, "demo.py", wt], wt)
        ran.append("unchanged tree (%s): demo exit %d" % (head, rc0))
        rc, out = sh(["git", "apply", patch], wt)
        if rc != 0:
            print("patch does not apply:", out[-300:])
            return 2
        rct, outt = sh([PY, "-m", "pytest", "-q", "-p", "no:cacheprovider"], wt)
        tail = outt.strip().splitlines()[-1]
        ran.append("patched tree: pytest rc=%d (%s)" % (rct, tail))
        rc1, out1 = sh([PY, "demo.py", wt], wt)
        ran.append("patched tree: demo exit %d" % rc1)
        ok = rc0 == 0 and rct == 0 and rc1 == 1
        for l in ran:
            print(l)
        if not ok:
            print("NOT CONFIRMED; demo output on patched tree:\n" + out1[-600:])
            return 1
        dst = os.path.join(ROOT, "seeded", "%s-%s-%s" % (pid, x, slug))
        os.makedirs(dst, exist_ok=True)
        shutil.copy(patch, os.path.join(dst, "patch.diff"))
        shutil.copy(demo, os.path.join(dst, "demo.py"))
        if os.path.exists(notes):
            shutil.copy(notes, os.path.join(dst, "notes.md"))
        meta = {"property": pid, "slug": slug, "written_by": "independent sub-agent given only the "
                "property text and a scratch worktree of /repo", "repo_head": head,
                "needs_to_manifest": "see notes.md", "confirmed": ran,
                "demo_output_patched": out1[-800:]}
        with open(os.path.join(dst, "meta.json"), "w") as f:
            json.dump(meta, f, indent=1)
        print("kept as", dst)
        return 0
    finally:
        subprocess.run(["git", "-C", "/repo", "worktree", "remove", "--force", wt],
                       stdout=subprocess.PIPE, stderr=subprocess.STDOUT)
        shutil.rmtree(tmp, ignore_errors=True)


if __name__ == "__main__":
    sys.exit(main())
