#!/venv/bin/python
"""Regenerate MANIFEST.json from the table below (kept in one place so it is always valid)."""
import json
import os
import sys

ROOT = os.path.dirname(os.path.dirname(os.path.abspath(__file__)))

# id -> (technique, level text, level note, design ref)
CHECKS = {
    "C01": (
        "bounded-exhaustive enumeration of line-class sequences + Hypothesis over arbitrary "
        "Unicode lines (+ Atheris byte fuzzing in thorough); oracle: dump/token texts == input",
        "generated-input search with a round-trip oracle: every sequence of <=3 (quick) / <=4 "
        "(thorough) line bodies from a 26-body lexical-class alphabet x 3 termination modes is "
        "enumerated completely, plus thousands of Hypothesis-generated Unicode line lists; "
        "a search, not a proof - absence is only established for the enumerated sub-domain",
        "trusts: the expected text is plain concatenation of generated lines; Hypothesis; "
        "empty unterminated line is outside the domain (documented caller error)",
        "DESIGN.md 4/C01"),
    "C05": (
        "Hypothesis op-list histories (set/add/del) over structure-generated documents + bounded "
        "enumeration of small documents; oracle: reference document model compared byte-for-byte "
        "after every operation, fresh parse at the end",
        "generated-input search against a reference list model of the document: thousands of "
        "(document, history) cases, dump compared with the model's bytes after every step, values "
        "re-read through a fresh parse; a search, not a proof",
        "trusts the document model (vcheck/model/docmodel.py, list surgery over generated "
        "structure, no parser); layout inside a written field is the library's choice",
        "DESIGN.md 4/C05"),
    "C10": (
        "Hypothesis op-list histories of structural operations over documents with duplicated "
        "fields + bounded enumeration of every single ordering op/key on small paragraphs; oracle: "
        "reference list model (dump bytes, keys, every (name,i) lookup) after every operation, "
        "fresh parse after paragraph operations",
        "generated-input search against a reference list model with the docstring semantics of "
        "order_*/sort/set/delete/insert/append; byte equality after every step; a search, not a proof",
        "trusts the document model; number of newlines around an inserted paragraph and the side of "
        "free comments are left to the library, separation is judged by a fresh parse; emptied "
        "paragraphs are outside the domain",
        "DESIGN.md 4/C10"),
    "C11": (
        "bounded-exhaustive enumeration of line-shape layouts x single edits + Hypothesis list-field "
        "layouts x edit histories (append/remove/replace/value references/reformat, observed and "
        "unobserved); oracle: independent splitting function on the raw field text, list model "
        "after every step, byte identity of untouched fields",
        "generated-input search with a splitting oracle and a Python-list model of the edits; "
        "no-op byte identity, locality and re-read of the edited list are checked per case; a "
        "search, not a proof",
        "trusts the splitting oracle (vcheck/gen/c11_listfields.py, no library import); fields "
        "without any value are outside the domain (tokenizer precondition); the Uploaders "
        "interpretation is left out (its rule is not documented)",
        "DESIGN.md 4/C11"),
    "C12": (
        "bounded-exhaustive enumeration of every subset of each class's structured fields "
        "(all 2^14 for PdiffIndex in thorough) x record sets x {build, parse} + Hypothesis record "
        "lists; oracle: record round-trip against a table of documented sub-field names, dump "
        "never raises, size-column alignment predicate, newline rejection",
        "generated-input search with a round-trip oracle plus validity predicates over the dumped "
        "text; every subset of structured fields is enumerated completely per class; a search, "
        "not a proof",
        "trusts the table of documented sub-field names copied from deb822.py's module docstring; "
        "record lists hold 1..4 records of whitespace-free tokens",
        "DESIGN.md 4/C12"),
    "C13": (
        "enumerated skeleton of all 2^4 optional-part combinations x Hypothesis-generated leaves; "
        "oracle: parse_relations(str(r)) == r with no warning, str idempotent, same through the "
        "Packages/Sources relations mixin",
        "generated-input search with a round-trip oracle over relation structures; all 16 presence "
        "masks of the optional parts are forced to occur; a search, not a proof",
        "empty conjunctions/alternatives/arch lists/restriction groups are outside the domain "
        "(the text format cannot express them); profiles are lower-case",
        "DESIGN.md 4/C13"),
    "C18": (
        "bounded-exhaustive enumeration of small (old,new) pairs x 2 independent differs x 8 script "
        "spellings x str/bytes + Hypothesis pairs and one-corruption scripts (+ diff -e as a second "
        "script source); oracle: patched == new, ValueError for malformed/unterminated scripts",
        "generated-input search with a differential oracle (scripts come from an independent "
        "longhand LCS differ, difflib and diff -e; the result must equal the target lines) and a "
        "rejection oracle for syntactically corrupted scripts; a search, not a proof",
        "trusts the independent differ/ed model (vcheck/model/c18_eddiff.py; a mismatch between it "
        "and the target is a harness error); only syntactic malformations count as malformed",
        "DESIGN.md 4/C18"),
    "C19": (
        "Hypothesis-generated publication histories x local start states, with EVERY fault plan "
        "enumerated per history (patch replaced/truncated/missing/wrong, index missing/broken/"
        "wrong, k-th write, open, rename failing, two-fault plans); oracle: converged via the patch "
        "chain or full download, or raised with the local file byte-identical and no temp file left",
        "fault enumeration: for each generated history and start state the complete set of fault "
        "plans is executed against a file:// repository in a per-case temp dir with faults injected "
        "from the harness (unittest.mock); outcome judged by a safety/convergence predicate",
        "expectations depend on faults that were observed to fire; for index damage the statement "
        "does not name, either outcome (converged / raised with local intact) is accepted; mocks and "
        "temp dirs are checked not to outlive a case",
        "DESIGN.md 4/C19"),
    "C20": (
        "bounded-exhaustive enumeration of all 3-step (thorough: 4-step) derivation/insert "
        "histories + Hypothesis op-list histories over a pool of databases (+ RuleBasedStateMachine "
        "in thorough); oracle: reference relation M compared after every step, dual model M' for the "
        "one listed known finding",
        "model-based generated-input search: every database in the pool is compared with a reference "
        "relation after every step; sharing classes follow the docstrings; a deviation is tolerated "
        "only if it matches exactly the listed known finding (insert stores the characters of the "
        "package name) - anything else is a violation; a search, not a proof",
        "trusts the relation model (vcheck/model/c20_relation.py); known_findings.json lists "
        "insert-chars (the repository's own tests assert the buggy value, so it cannot be repaired)",
        "DESIGN.md 4/C20"),
    "C02": (
        "bounded enumeration of boundary first/continuation lines and name characters + Hypothesis "
        "documents, each read through 7 input forms x {plain, clearsigned} x {comments or not}; "
        "oracle: dump -> parse equals the generated fields (metamorphic agreement of all forms)",
        "generated-input search with a round-trip oracle and a metamorphic relation across input "
        "forms, armor and comment interleaving; a search, not a proof",
        "value alphabet = printable text + TAB; armor wraps individual paragraphs, no signature is "
        "verified; free-standing comment blocks are not fed to the Dsc/Changes readers",
        "DESIGN.md 4/C02"),
    "C08": (
        "bounded-exhaustive enumeration of all values of <=4 tokens over 12 boundary tokens + "
        "Hypothesis token sequences assigned to first/middle/last/new keys; oracle: independent "
        "statement of the rejection rule, accepted => one paragraph with the same field names "
        "through 6 input forms and both whitespace settings, rejected => state unchanged",
        "generated-input search with a validity predicate over the re-read dump and an independent "
        "rejection rule; the small-value space is enumerated completely; a search, not a proof",
        "characters Python treats as blanks/line boundaries but the format does not define are "
        "outside the domain; acceptance is demanded only for values inside C02's value domain",
        "DESIGN.md 4/C08"),
    "C16": (
        "bounded-exhaustive enumeration of small pattern lists x names + Hypothesis pattern lists "
        "(create/assign/parse routes, near-miss names, re-assignment) and multi-paragraph "
        "documents; oracle: independent glob matcher written without re, last match wins",
        "generated-input search, differential against an independent matcher (two implementations "
        "cross-checked on every evaluation); a search, not a proof",
        "trusts vcheck/model/c16_glob.py; patterns are non-empty and blank-free (the setter "
        "rejects others); an illegal paragraph in a document may raise or match nothing",
        "DESIGN.md 4/C16"),
    "C17": (
        "Hypothesis copyright documents (header, Files and License paragraphs in generated order, "
        "multi-line texts with empty/indented/dot-led lines) + codec-level line lists; oracle: dump "
        "-> strict parse equals what was built, dump idempotent, ' .' codec inverse",
        "generated-input search with round-trip oracles at document and codec level; a search, not "
        "a proof",
        "texts are compared as joined text (a trailing newline / [''] vs [] are the same text); "
        "paragraph order follows the add_*_paragraph docstrings",
        "DESIGN.md 4/C17"),
    "C03": (
        "bounded-exhaustive all-pairs comparison over an enumerated version pool + Hypothesis "
        "near-miss pairs and triples; oracle: line-by-line port of dpkg's verrevcmp cross-checked "
        "with a sort-key model (and with the dpkg binary), trichotomy/antisymmetry/transitivity, "
        "hash equality for equal versions",
        "generated-input search, differential against two independent formulations of dpkg's "
        "ordering (themselves validated against dpkg --compare-versions); all ordered pairs of the "
        "pool are compared; a search, not a proof",
        "trusts the dpkg port / sort-key model (a disagreement between them or with dpkg is a "
        "harness error); letter-led upstream versions count as valid (dpkg only warns)",
        "DESIGN.md 4/C03"),
    "C14": (
        "bounded-exhaustive enumeration of all strings of <=4 (thorough <=5) characters over a "
        "13-character alphabet + Hypothesis single-character mutations of valid versions and "
        "component-assignment histories; oracle: hand-written regex-free three-valued recogniser "
        "(cross-checked with dpkg --validate-version), lossless decomposition, exact rollback",
        "generated-input search against an independent recogniser of the version grammar; the small "
        "string space is enumerated completely; a search, not a proof",
        "trusts vcheck/model/c14_recogniser.py; strings whose split leaves an empty upstream or an "
        "empty revision are UNSPECIFIED (either outcome accepted); full_version is assigned strings only",
        "DESIGN.md 4/C14"),
    "C06": (
        "bounded-exhaustive enumeration of short operation histories over small archives + "
        "Hypothesis archives x interleaved read/readline/readlines/seek/tell/close histories in "
        "both open modes (+ binutils ar as a second writer in thorough); oracle: io.BytesIO shadow "
        "of every member compared after every operation, listing compared with what was written",
        "model-based generated-input search: every member is shadowed by an in-memory file and all "
        "members are compared after each step (isolation); archives come from an independent ar "
        "writer; a search, not a proof",
        "trusts the harness ar writer (validated byte-for-byte against binutils ar in thorough) and "
        "io.BytesIO; read(0)/negative sizes/negative seek targets are outside the domain",
        "DESIGN.md 4/C06"),
    "C07": (
        "Hypothesis packages x compression pairs (all 5x5 in thorough) x member orders x tar "
        "formats + enumerated matrix of structurally defective member sets (+ dpkg-deb as a second "
        "builder in thorough); oracle: contents == what was packed for 'name', './name', '/name'; "
        "DebError for every defective set",
        "generated-input search with a round-trip oracle over assembled packages and a rejection "
        "oracle over the enumerated defect matrix; a search, not a proof",
        "trusts the harness ar/tar builders (cross-checked with dpkg-deb --build); duplicate member "
        "names are not generated; which error an absent name raises is not prescribed",
        "DESIGN.md 4/C07"),
    "C04": (
        "Hypothesis over a structure-generated deb-changelog(5) grammar (blocks, extra keys, "
        "urgency comments, look-alike change lines, date variants) in six input forms; oracle: "
        "strict parse succeeds without warning, str() == text byte for byte, every parsed "
        "attribute == what the generator wrote",
        "generated-input search with a round-trip oracle plus attribute-by-attribute comparison "
        "with the generated structure; a search, not a proof",
        "texts come from the harness grammar (plain concatenation, an independent recogniser guards "
        "the domain); printable characters plus TAB where the format allows it",
        "DESIGN.md 4/C04"),
    "C09": (
        "bounded-exhaustive enumeration of all <=3-step (thorough <=4/5) histories over Deb822, "
        "OrderedSet and LinkedList + Hypothesis op-list histories from 13 start states "
        "(+ RuleBasedStateMachine in thorough); oracle: ordered case-insensitive list model "
        "compared after every step, retired copies re-observed",
        "model-based generated-input search: a plain list-of-[spelling, value] model is compared "
        "with the mapping (keys, spelling, order, values, dump, lookups in any case, error behaviour) "
        "after every operation; short histories are enumerated completely; a search, not a proof",
        "trusts vcheck/model/c09_cilist.py; copying means the mapping's own copy() (copy.deepcopy/"
        "pickle are outside the domain); popitem may remove any pair",
        "DESIGN.md 4/C09"),
    "C15": (
        "bounded enumeration of every junk-pool line at every position of a fixed changelog + "
        "Hypothesis line mutations of well-formed changelogs and editing histories (+ Atheris in "
        "thorough); oracle: lenient never raises, strict raises iff lenient warns (same message), "
        "formatted output re-parses to the same blocks and is a fixpoint, after every edit",
        "generated-input search with validity/consistency predicates (totality, strict<->warning "
        "equivalence, normal-form fixpoint); all 13 warning classes are reached; a search, not a proof",
        "ChangelogCreateError from str() means 'cannot be formatted'; the formatted text is "
        "re-parsed in the same input form; max_blocks is not covered",
        "DESIGN.md 4/C15"),
}

NOT_YET = "check not built yet in this round (planned; see DESIGN.md section 4)"

ALL = ["C%02d" % i for i in range(1, 21)]


def main():
    checks = []
    for pid in ALL:
        if pid not in CHECKS:
            continue
        tech, text, note, ref = CHECKS[pid]
        level = "fault_enumeration" if pid == "C19" else "exploration"
        checks.append({
            "property_id": pid,
            "quick_cmd": "./check %s --tier quick" % pid,
            "thorough_cmd": "./check %s --tier thorough" % pid,
            "evidence_file": "/verif/evidence/%s.json" % pid,
            "replay_cmd_template": "./check %s --replay {path}" % pid,
            "engine": "vcheck",
            "level_claimed": {"category": level, "text": text, "design_ref": ref},
            "level_note": note,
            "technique": tech,
        })
    man = {
        "version": 1,
        "setup_cmd": "/venv/bin/python -c 'import hypothesis' || /venv/bin/pip install --no-index "
                     "--find-links /opt/veriftools/wheels --target /verif/.deps hypothesis",
        "hooks": {
            "guard": "PYTHON_DEBIAN_VERIF",
            "enable": "no source hooks are needed: every property is observed through public API; "
                      "the checks import /repo/lib directly (python has no build step) and export "
                      "PYTHON_DEBIAN_VERIF=1 for form",
            "baseline_off_cmd": "cd /repo && /venv/bin/python -m pytest -ra -q -p no:cacheprovider "
                                "--timeout=900 --continue-on-collection-errors",
            "source_commits": [],
            "add_only": True,
        },
        "engines": [{
            "name": "vcheck", "path": "/verif/vcheck",
            "serves_properties": [c["property_id"] for c in checks],
            "kind_free_text": "property-based testing: case->oracle modules driven by bounded-"
                              "exhaustive enumerators, sharded Hypothesis strategies (op-list "
                              "histories, stateful machines) and Atheris; JSON replay files",
        }],
        "checks": checks,
        "not_applicable": [{"property_id": p, "reason": NOT_YET} for p in ALL if p not in CHECKS],
        "notes": "Exit 0 = held, 1 = VIOLATION line(s), 2 = harness error. VERIF_SEED selects the "
                 "Hypothesis seeds; VERIF_REPO_LIB (default /repo/lib) selects the tree under test; "
                 "VERIF_WORKERS (default 16) the process count. New failing cases are written to "
                 "/verif/failures/<ID>/ (git-ignored); committed regression cases live in "
                 "/verif/replays/<ID>/. known_findings.json lists recorded and fixed defects. "
                 "selftest/ holds the mutant sensitivity runs, seeded/ the independently written "
                 "breaking changes.",
    }
    with open(os.path.join(ROOT, "MANIFEST.json"), "w") as f:
        json.dump(man, f, indent=1)
        f.write("\n")
    try:
        import jsonschema
        schema = json.load(open("/root/.vp/MANIFEST.schema.json"))
        jsonschema.validate(man, schema)
        print("MANIFEST.json valid:", len(checks), "checks,", len(man["not_applicable"]), "not_applicable")
    except ImportError:
        print("MANIFEST.json written (jsonschema not available here)")


if __name__ == "__main__":
    sys.exit(main())
