#!/venv/bin/python
"""False-alarm soak: run every registered check (quick tier by default) at several seeds, each in
a fresh process, and print one line per run.  tools/soak.py [--tier T] [--seeds 1,2,3] [IDs...]"""
import argparse, json, os, subprocess, sys, time
ROOT = os.path.dirname(os.path.dirname(os.path.abspath(__file__)))
ap = argparse.ArgumentParser()
ap.add_argument("--tier", default="quick")
ap.add_argument("--seeds", default="1,2,3")
ap.add_argument("ids", nargs="*")
a = ap.parse_args()
man = json.load(open(os.path.join(ROOT, "MANIFEST.json")))
ids = a.ids or [c["property_id"] for c in man["checks"]]
bad = 0
for pid in ids:
    for seed in a.seeds.split(","):
        env = dict(os.environ, VERIF_SEED=seed)
        env.pop("PYTHONHASHSEED", None)
        t0 = time.time()
        r = subprocess.run(["./check", pid, "--tier", a.tier], cwd=ROOT, env=env,
                           stdout=subprocess.PIPE, stderr=subprocess.STDOUT)
        out = r.stdout.decode("utf-8", "replace").strip().splitlines()
        kf = sum(1 for l in out if l.startswith("KNOWN-FINDING"))
        first = [l for l in out if l.startswith(pid)][:1]
        print("%s seed=%s rc=%d %5.1fs kf=%d %s" % (pid, seed, r.returncode, time.time() - t0, kf,
                                                     first[0] if first else out[-1:] ))
        if r.returncode != 0:
            bad += 1
            for l in out[:6]:
                print("    " + l[:300])
        sys.stdout.flush()
sys.exit(1 if bad else 0)
