#!/venv/bin/python
"""Markdown table from a directory of evidence files: tools/summarize.py [evidence dir]"""
import glob, json, os, sys
d = sys.argv[1] if len(sys.argv) > 1 else os.path.join(os.path.dirname(os.path.dirname(os.path.abspath(__file__))), "evidence")
print("| ID | tier | evaluations | distinct non-trivial | sources (cases) | exhaustive sub-domain | wall s |")
print("|---|---|---|---|---|---|---|")
for f in sorted(glob.glob(os.path.join(d, "C*.json"))):
    e = json.load(open(f)); c = e["coverage"]
    src = ", ".join("%s %d" % (k, v) for k, v in sorted(c.get("per_source", {}).items()))
    print("| %s | %s | %d | %d | %s | %s | %.0f |" % (
        e["property_id"], e["tier"], c["evaluations"], c["distinct_nontrivial"], src,
        "yes" if c.get("exhaustive") else "-", e["wall_s"]))
