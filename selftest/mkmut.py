#!/venv/bin/python
"""mkmut.py <name> <repo-relative file> <old> <new> [--base DIR]: write selftest/mutants/<name>.patch
replacing exactly one occurrence of <old> by <new> in the file (base tree: /repo)."""
import difflib, os, sys
name, rel, old, new = sys.argv[1:5]
base = sys.argv[6] if len(sys.argv) > 6 and sys.argv[5] == "--base" else "/repo"
src = open(os.path.join(base, rel)).read()
assert src.count(old) == 1, "%d occurrences" % src.count(old)
dst = src.replace(old, new)
d = "".join(difflib.unified_diff(src.splitlines(True), dst.splitlines(True), "a/" + rel, "b/" + rel))
out = os.path.join(os.path.dirname(os.path.abspath(__file__)), "mutants", name + ".patch")
open(out, "w").write(d)
print(out, len(d.splitlines()), "lines")
