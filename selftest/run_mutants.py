#!/venv/bin/python
"""Sensitivity self-test: apply each mutant patch to a scratch copy of /repo and run the check.

    selftest/run_mutants.py [--tier quick|thorough] [--tests] [--jobs N] [ID-or-glob ...]

For every selftest/mutants/<ID>-*.patch (or seeded/<ID>*/patch.diff with --seeded):
  * a detached git worktree of /repo HEAD is created under $TMPDIR (outside /repo and /verif),
  * the patch is applied (patch -p1; a patch that does not apply is reported as STALE),
  * with --tests the repository's own test-suite is run there (a mutant the suite catches says
    nothing about the check),
  * the property's check is run with VERIF_REPO_LIB pointing at the copy; exit 1 + a VIOLATION
    line = detected,
  * the worktree is removed.
Results are appended to selftest/RESULTS.md (one table per invocation).  Not a registered check:
it works on copies of the source.
"""
import argparse
import concurrent.futures
import fnmatch
import glob
import os
import re
import shutil
import subprocess
import sys
import tempfile
import time

ROOT = os.path.dirname(os.path.dirname(os.path.abspath(__file__)))
PY = "/venv/bin/python"


def run_one(item, tier, tests, workers):
    pid, name, patch = item
    tmp = tempfile.mkdtemp(prefix="vmut-")
    wt = os.path.join(tmp, "wt")
    res = dict(pid=pid, name=name, applied=False, tests="-", detected=False, secs=0.0, sigs="")
    try:
        subprocess.run(["git", "-C", "/repo", "worktree", "add", "--detach", "-q", wt, "HEAD"],
                       check=True, stdout=subprocess.PIPE, stderr=subprocess.STDOUT)
        r = subprocess.run(["patch", "-p1", "-s", "-f", "-i", patch], cwd=wt,
                           stdout=subprocess.PIPE, stderr=subprocess.STDOUT)
        if r.returncode != 0:
            res["sigs"] = "STALE: " + r.stdout.decode()[-120:].replace("\n", " ")
            return res
        res["applied"] = True
        if tests:
            t = subprocess.run([PY, "-m", "pytest", "-q", "-x", "-p", "no:cacheprovider"], cwd=wt,
                               stdout=subprocess.PIPE, stderr=subprocess.STDOUT)
            tail = t.stdout.decode().strip().splitlines()[-1] if t.stdout else ""
            res["tests"] = "pass" if t.returncode == 0 else "FAIL(" + tail[:40] + ")"
        env = dict(os.environ, VERIF_REPO_LIB=os.path.join(wt, "lib"), VERIF_WORKERS=str(workers),
                   VERIF_NO_SHRINK="1", VERIF_OUT_DIR=tmp)
        t0 = time.time()
        c = subprocess.run([PY, "-m", "vcheck", pid, "--tier", tier], cwd=ROOT, env=env,
                           stdout=subprocess.PIPE, stderr=subprocess.STDOUT)
        res["secs"] = time.time() - t0
        out = c.stdout.decode("utf-8", "replace")
        res["detected"] = c.returncode == 1 and "VIOLATION property=%s" % pid in out
        res["sigs"] = ", ".join(sorted(set(re.findall(r"^  \[([^\]]+)\]", out, re.M))))[:160]
        if c.returncode == 2:
            res["sigs"] = "HARNESS-ERROR " + out[-200:].replace("\n", " ")
    finally:
        subprocess.run(["git", "-C", "/repo", "worktree", "remove", "--force", wt],
                       stdout=subprocess.PIPE, stderr=subprocess.STDOUT)
        shutil.rmtree(tmp, ignore_errors=True)
    return res


def main():
    ap = argparse.ArgumentParser()
    ap.add_argument("--tier", default="quick")
    ap.add_argument("--tests", action="store_true")
    ap.add_argument("--seeded", action="store_true")
    ap.add_argument("--jobs", type=int, default=4)
    ap.add_argument("--workers", type=int, default=4)
    ap.add_argument("--no-record", action="store_true")
    ap.add_argument("which", nargs="*")
    a = ap.parse_args()
    items = []
    if a.seeded:
        for d in sorted(glob.glob(os.path.join(ROOT, "seeded", "*", "patch.diff"))):
            name = os.path.basename(os.path.dirname(d))
            items.append((name.split("-")[0], "seeded/" + name, d))
    else:
        for p in sorted(glob.glob(os.path.join(ROOT, "selftest", "mutants", "*.patch"))):
            name = os.path.basename(p)[:-6]
            items.append((name.split("-")[0], name, p))
    if a.which:
        items = [i for i in items if any(fnmatch.fnmatch(i[1], w + "*") or i[0] == w for w in a.which)]
    rows = []
    with concurrent.futures.ThreadPoolExecutor(a.jobs) as ex:
        for r in ex.map(lambda it: run_one(it, a.tier, a.tests, a.workers), items):
            rows.append(r)
            print("%-44s %-8s tests=%-6s %5.1fs  %s" % (
                r["name"], "DETECTED" if r["detected"] else ("stale" if not r["applied"] else "MISSED"),
                r["tests"], r["secs"], r["sigs"]))
            sys.stdout.flush()
    det = sum(r["detected"] for r in rows)
    app = sum(r["applied"] for r in rows)
    print("%d/%d applied mutants detected (%s tier)" % (det, app, a.tier))
    if not a.no_record:
        head = subprocess.run(["git", "-C", "/repo", "rev-parse", "--short", "HEAD"],
                              stdout=subprocess.PIPE).stdout.decode().strip()
        with open(os.path.join(ROOT, "selftest", "RESULTS.md"), "a") as f:
            f.write("\n## %s tier, /repo at %s, %s: %d/%d detected\n\n" % (
                a.tier, head, "seeded changes" if a.seeded else "mutants", det, app))
            f.write("| mutant | repo tests | detected | seconds | signatures |\n|---|---|---|---|---|\n")
            for r in rows:
                f.write("| %s | %s | %s | %.1f | %s |\n" % (
                    r["name"], r["tests"], "yes" if r["detected"] else ("stale" if not r["applied"] else "NO"),
                    r["secs"], r["sigs"].replace("|", "/")))
    return 0 if det == app else 1


if __name__ == "__main__":
    sys.exit(main())
