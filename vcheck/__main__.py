import argparse
import os
import sys

from . import boot


def main():
    ap = argparse.ArgumentParser(prog="vcheck")
    ap.add_argument("prop")
    ap.add_argument("--tier", default=os.environ.get("VERIF_TIER") or "quick",
                    choices=["quick", "thorough"])
    ap.add_argument("--replay")
    ap.add_argument("--seed", type=int)
    a = ap.parse_args()
    boot.pin_hashseed()
    try:
        boot.boot()
        from . import engine
        seed = a.seed if a.seed is not None else int(os.environ.get("VERIF_SEED", "1") or "1")
        rc = engine.run(a.prop, a.tier, seed, a.replay)
    except boot.HarnessError as e:
        print("HARNESS-ERROR %s" % e, file=sys.stderr)
        rc = 2
    sys.stdout.flush()
    sys.exit(rc)


if __name__ == "__main__":
    main()
