"""Small shared vocabulary of the property modules."""
import hashlib
import json


class Violation(Exception):
    """Raised by an oracle: the code under test broke the property on this case.

    ``sig`` names the root-cause class (used for de-duplication and for the replay file name),
    ``msg`` is the human-readable detail.
    """

    def __init__(self, sig, msg=""):
        Exception.__init__(self, "%s: %s" % (sig, msg))
        self.sig = sig
        self.msg = msg


class Enum(object):
    """A finite sub-domain enumerated completely (split over workers with islice)."""

    def __init__(self, name, factory, desc, tiers=("quick", "thorough")):
        self.name, self.factory, self.desc, self.tiers = name, factory, desc, tiers


class Hyp(object):
    """A Hypothesis strategy producing JSON cases; ``n`` examples in each of ``shards`` shards."""

    def __init__(self, name, strategy, n, shards=1, tiers=("quick", "thorough")):
        self.name, self.strategy, self.n, self.shards, self.tiers = name, strategy, n, shards, tiers


class Custom(object):
    """A phase the property module runs itself (external binaries, fuzzers, state machines).

    ``fn(shard, nshards, seed, deadline, rec)`` must call ``rec.case(case)`` for every case it
    evaluates through the module's oracle, or ``rec.note(key, n)`` for auxiliary counters.
    """

    def __init__(self, name, fn, shards=1, tiers=("quick", "thorough")):
        self.name, self.fn, self.shards, self.tiers = name, fn, shards, tiers


def canon(case):
    return json.dumps(case, sort_keys=True, ensure_ascii=True, separators=(",", ":"))


def case_hash(case):
    return int.from_bytes(hashlib.sha1(canon(case).encode("ascii")).digest()[:8], "big")


def jsonable(case):
    """Round-trip through JSON so that what the oracle sees is what a replay file will hold."""
    return json.loads(json.dumps(case))


def b2s(b):
    return b.decode("latin-1")


def s2b(s):
    return s.encode("latin-1")


def short(x, n=300):
    r = repr(x)
    return r if len(r) <= n else r[:n] + "...(%d more)" % (len(r) - n)
