"""Independent ed-script tooling for C18 (and for building the pdiff repositories of C19).

Nothing here imports the library under test and nothing uses regular expressions (the library's
parser is a regex): scripts are produced from an LCS table written out longhand (or from
``difflib`` opcodes, or by ``/usr/bin/diff -e``) and are interpreted by a small sequential ed
model that works on the same line lists.

A *script* is a list of ``str`` lines, every one terminated by ``"\\n"``.  Only the subset used by
APT pdiffs exists: ``Na`` / ``N[,M]c`` / ``N[,M]d`` and text blocks closed by a lone ``.``.

Scripts are always emitted the way ``diff -e`` does it -- last hunk first -- so that no address is
influenced by an earlier command.  ``style`` is a bit set (1, 2, 4, 8) that varies the spelling, not the meaning (8: removals as an empty change):

  1   one-line ranges are written ``N,N`` instead of ``N``
  2   a change hunk is written as a delete followed by an append (two adjacent commands)
  4   every command covers one line only (``5d 4d 3d``; one ``Na`` per inserted line)
"""
import difflib
import os
import shutil
import subprocess
import tempfile

DIFF = "/usr/bin/diff"


class ModelError(Exception):
    """The harness's own script/line data is not what it should be (never the library's fault)."""


# ------------------------------------------------------------------------------------------
# hunks: list of (i1, i2, j1, j2), ascending, old[i1:i2] is replaced by new[j1:j2]


def lcs_hunks(old, new):
    """Minimal hunks from a longest-common-subsequence table (ties resolved towards deleting first)."""
    n, m = len(old), len(new)
    # t[i][j] = LCS length of old[i:], new[j:]
    t = [[0] * (m + 1) for _ in range(n + 1)]
    for i in range(n - 1, -1, -1):
        row, nxt = t[i], t[i + 1]
        oi = old[i]
        for j in range(m - 1, -1, -1):
            if oi == new[j]:
                row[j] = nxt[j + 1] + 1
            else:
                a, b = nxt[j], row[j + 1]
                row[j] = a if a >= b else b
    hunks = []
    i = j = 0
    start = None
    while i < n or j < m:
        if i < n and j < m and old[i] == new[j]:
            if start is not None:
                hunks.append((start[0], i, start[1], j))
                start = None
            i += 1
            j += 1
            continue
        if start is None:
            start = (i, j)
        if i < n and (j == m or t[i + 1][j] >= t[i][j + 1]):
            i += 1
        else:
            j += 1
    if start is not None:
        hunks.append((start[0], n, start[1], m))
    return hunks


def difflib_hunks(old, new):
    sm = difflib.SequenceMatcher(None, old, new, autojunk=False)
    return [(i1, i2, j1, j2) for tag, i1, i2, j1, j2 in sm.get_opcodes() if tag != "equal"]


def check_hunks(old, new, hunks):
    """Self-check: the hunks really turn old into new (ModelError otherwise)."""
    out, pos = [], 0
    for (i1, i2, j1, j2) in hunks:
        if not (pos <= i1 <= i2 <= len(old) and 0 <= j1 <= j2 <= len(new)) or (i1 == i2 and j1 == j2):
            raise ModelError("bad hunk %r" % ((i1, i2, j1, j2),))
        out += old[pos:i1] + new[j1:j2]
        pos = i2
    out += old[pos:]
    if out != new:
        raise ModelError("hunks do not produce the target")


def _rng(a, b, style):
    """1-based inclusive range a..b."""
    if a == b and not style & 1:
        return "%d" % a
    return "%d,%d" % (a, b)


def emit(hunks, new, style=0):
    """ed script (list of str lines) for the hunks, last hunk first."""
    out = []
    for (i1, i2, j1, j2) in reversed(hunks):
        text = list(new[j1:j2])
        ndel = i2 - i1
        if style & 4:
            for k in range(i2, i1, -1):
                out.append(_rng(k, k, style) + "d\n")
            for ln in reversed(text):
                out += ["%da\n" % i1, ln, ".\n"]
        elif ndel and text and style & 2:
            out.append(_rng(i1 + 1, i2, style) + "d\n")
            out += ["%da\n" % i1] + text + [".\n"]
        elif ndel and text:
            out += [_rng(i1 + 1, i2, style) + "c\n"] + text + [".\n"]
        elif ndel and style & 8:
            # a removal spelled as a change to nothing: "N,Mc" directly followed by "."
            out += [_rng(i1 + 1, i2, style) + "c\n", ".\n"]
        elif ndel:
            out.append(_rng(i1 + 1, i2, style) + "d\n")
        else:
            out += ["%da\n" % i1] + text + [".\n"]
    return out


def make_script(old, new, differ="lcs", style=0):
    hunks = difflib_hunks(old, new) if differ == "difflib" else lcs_hunks(old, new)
    check_hunks(old, new, hunks)
    return emit(hunks, new, style)


def emit_plan(old, new, hunks, style=0):
    """Script for hunks that are known by construction (checked first)."""
    check_hunks(old, new, hunks)
    return emit(hunks, new, style)


# ------------------------------------------------------------------------------------------
# big pairs from a compact description

LOOKALIKES = ["..\n", "1a\n", "\n", " .\n", "2,3d\n", ".x\n"]


def _int(v, lo, hi, default):
    if isinstance(v, bool) or not isinstance(v, int):
        return default
    return min(max(v, lo), hi)


def big_pair(desc):
    """(old, new, hunks) for a long file with many scattered edits.

    ``desc``: {"n": lines in old, "uniq": old[i] is "l<i mod uniq>", "phase": position of the
    first edit, "step": distance between edit positions, "count": number of edits (fewer if the
    file ends first), "ops": edit kinds used cyclically, "end": also append a line after the last
    one}.  Edit kinds (mod 7): 0 delete one line, 1 insert one line, 2 change one line, 3 delete two,
    4 change two lines into one, 5 insert three lines that look like commands / terminators,
    6 change one line into two.  A deletion never reaches past the next edit position, so the
    hunks are ordered and disjoint (touching when step <= 2).  Everything is clamped, so any
    dict is a description.
    """
    n = _int(desc.get("n"), 0, 20000, 100)
    uniq = _int(desc.get("uniq"), 1, 1000000, 1000000)
    phase = _int(desc.get("phase"), 0, 1000, 0)
    step = _int(desc.get("step"), 1, 1000, 3)
    count = _int(desc.get("count"), 0, 20000, 33)
    ops = [_int(o, 0, 1000, 0) for o in desc.get("ops") or [] if not isinstance(o, (list, dict))] or [0]
    old = ["l%d\n" % (i % uniq) for i in range(n)]
    new, hunks, pos = [], [], 0
    for k in range(count):
        p = phase + k * step
        if p >= n:
            break
        op = ops[k % len(ops)] % 7
        ndel = min({0: 1, 2: 1, 3: 2, 4: 2, 6: 1}.get(op, 0), step, n - p)
        if op in (1, 2, 4):
            text = ["n%d\n" % k]
        elif op == 6:
            text = ["n%d\n" % k, "m%d\n" % k]
        elif op == 5:
            text = [LOOKALIKES[(k + j) % len(LOOKALIKES)] for j in range(3)]
        else:
            text = []
        new += old[pos:p]
        hunks.append((p, p + ndel, len(new), len(new) + len(text)))
        new += text
        pos = p + ndel
    new += old[pos:]
    if desc.get("end") is True:
        hunks.append((n, n, len(new), len(new) + 1))
        new.append("end\n")
    return old, new, hunks


def have_diff():
    return os.path.exists(DIFF)


def diff_e(old, new):
    """``diff -e`` on two temporary files (lines are str, written as UTF-8).  None if it cannot be used."""
    if not have_diff():
        return None
    d = tempfile.mkdtemp(prefix="vcheck-c18-")
    try:
        pa, pb = os.path.join(d, "a"), os.path.join(d, "b")
        with open(pa, "wb") as f:
            f.write("".join(old).encode("utf-8"))
        with open(pb, "wb") as f:
            f.write("".join(new).encode("utf-8"))
        r = subprocess.run([DIFF, "-e", pa, pb], stdout=subprocess.PIPE, stderr=subprocess.PIPE,
                           env={"LC_ALL": "C", "PATH": "/usr/bin:/bin"})
        if r.returncode not in (0, 1) or r.stderr:
            raise ModelError("diff -e failed: rc=%d %r" % (r.returncode, r.stderr[:200]))
        out = r.stdout.decode("utf-8")
        # lines end at "\n" only (str.splitlines would also break at FF, CR, NEL, U+2028 ...)
        return [l + "\n" for l in out.split("\n")[:-1]] + ([out.split("\n")[-1]] if not out.endswith("\n") and out else [])
    finally:
        shutil.rmtree(d, ignore_errors=True)


# ------------------------------------------------------------------------------------------
# the ed model


def _number(s):
    if not s or any(ch not in "0123456789" for ch in s):
        raise ModelError("bad number %r" % s)
    return int(s)


def parse_script(script):
    """-> list of commands {letter, n1, n2 (or None), text (list), at (index of the command line),
    dot (index of the terminator, or None)}.  ModelError for anything outside the subset."""
    cmds = []
    k = 0
    while k < len(script):
        line = script[k]
        if not line.endswith("\n") or line.count("\n") != 1:
            raise ModelError("bad command line %r" % line)
        body = line[:-1]
        letter = body[-1:]
        if letter not in ("a", "c", "d"):
            raise ModelError("unsupported command %r" % line)
        addr = body[:-1]
        if "," in addr:
            a, b = addr.split(",", 1)
            n1, n2 = _number(a), _number(b)
        else:
            n1, n2 = _number(addr), None
        cmd = dict(letter=letter, n1=n1, n2=n2, text=[], at=k, dot=None)
        k += 1
        if letter != "d":
            while True:
                if k >= len(script):
                    raise ModelError("unterminated text block")
                if script[k] == ".\n":
                    cmd["dot"] = k
                    k += 1
                    break
                cmd["text"].append(script[k])
                k += 1
        cmds.append(cmd)
    return cmds


def apply_commands(old, cmds):
    """Sequential ed semantics.  -> (result, per-command list of (first, last, text, length before))
    where lines[first:last] = text is the 0-based slice form of the command."""
    buf = list(old)
    steps = []
    for c in cmds:
        n1, n2, letter = c["n1"], c["n2"], c["letter"]
        if letter == "a":
            if n2 is not None or not 0 <= n1 <= len(buf):
                raise ModelError("bad append address in %r" % (c,))
            first = last = n1
        else:
            if n2 is None:
                n2 = n1
            if not 1 <= n1 <= n2 <= len(buf):
                raise ModelError("bad range in %r (buffer has %d lines)" % (c, len(buf)))
            first, last = n1 - 1, n2
        steps.append((first, last, list(c["text"]), len(buf)))
        buf[first:last] = c["text"]
    return buf, steps


def apply_script(old, script):
    return apply_commands(old, parse_script(script))[0]
