"""Reference document model + history interpreter for the format-preserving parser (C05, C10).

The model is list surgery over the generated structure (gen/docs.py): it never parses.  The real
objects (Deb822FileElement, paragraph elements) are driven in lock-step and compared after every
operation:

* field-level operations (set/add/del/order_*/sort) must leave ``dump()`` equal to the model's
  rendering *byte for byte* - except inside the field that is being written, whose new text F' is
  only required to be "Name:" in the original spelling followed by well-formed value lines whose
  canonical reading equals the assigned value (the exact layout of F' is the library's choice);
* paragraph-level operations (insert/append) must splice the new paragraph's text between the
  right neighbours on a line boundary inside the separating region, adding nothing but newline
  characters (how many is the library's choice; that paragraphs stay separate is settled by the
  fresh parse at the end);
* an unterminated end of document: the newline *must* be supplied when something ends up after
  it, and (C10 mode) *may* be supplied by any operation; in strict mode (C05) it must not be
  supplied otherwise.
"""
from ..core import Violation, short
from ..gen.docs import render, canon_body, canon_new

from debian._deb822_repro import parse_deb822_file
from debian._deb822_repro.parsing import Deb822ParagraphElement


def spell(name, mode):
    return name if mode == 0 else name.upper() if mode == 1 else name.lower()


SORT_KEYS = {
    "default": None,
    "lower": lambda n: str(n).lower(),
    "reverse": lambda n: tuple(-ord(c) for c in str(n).lower()),
    "length": lambda n: len(str(n)),
    "cased": lambda n: str(n),
}
MODEL_SORT_KEYS = dict(SORT_KEYS, default=lambda n: n.lower())


def lines_of(text):
    """Lines end at "\n" and nowhere else (str.splitlines would also cut at FF, NEL, U+2028 ...)."""
    parts = text.split("\n")
    return [l + "\n" for l in parts[:-1]] + ([parts[-1]] if parts[-1] else [])


class DocRun(object):
    def __init__(self, doc, dups, strict_nl, use_view=False, blind=False):
        self.strict_nl = strict_nl
        # blind: between the operations only the dump is looked at (no look-ups by key, no
        # keys()): whatever the library remembers from its last look-up is what the history's own
        # "get" steps put there.  Everything is compared at the end.
        self.blind = False
        self._blind_wanted = blind
        self.lead = doc["lead"]
        self.paras = [[dict(f, open=False) for f in p] for p in doc["paras"]]
        self.seps = list(doc["seps"])
        self.tail = doc["tail"]
        text = render(doc)
        self.text0 = text
        if not doc["final_nl"] and "".join(self.chunks()).endswith("\n"):
            # the very last newline is missing: either of the tail text or of the last field
            if self.tail:
                self.tail = self.tail[:-1]
            else:
                self.paras[-1][-1]["open"] = True
        if "".join(self.chunks()) != text:
            raise AssertionError("model/render disagree")   # harness bug, not a violation
        self.labels = set()
        if text and not text.endswith("\n"):
            self.labels.add("doc-without-final-newline")
        self.file = parse_deb822_file(lines_of(text),
                                      accept_files_with_duplicated_fields=dups)
        # a second, never modified document parsed from the same text: whatever is done to the
        # first one, this one must keep dumping the original text (no state shared between documents)
        self.twin = parse_deb822_file(lines_of(text), accept_files_with_duplicated_fields=dups)
        self.rparas = list(self.file)
        if len(self.rparas) != len(self.paras):
            raise Violation("parse-paragraph-count", "parsed %d paragraphs from %s, expected %d" % (
                len(self.rparas), short(text), len(self.paras)))
        self.use_view = use_view
        self.token_roles = ()
        self.neg_roles = ()
        self.compare("parse")
        self.blind = self._blind_wanted
        if self.blind:
            self.labels.add("blind-between-operations")

    # -------------------------------------------------------------------------------- model
    def ftext(self, f):
        b = f["b"][:-1] if f["open"] else f["b"]
        return f["c"] + f["n"] + ":" + b

    def chunks(self, skip=None):
        """Text pieces in document order; the field ``skip`` (an object) yields a None marker."""
        out = [self.lead]
        for i, p in enumerate(self.paras):
            for f in p:
                out.append(None if f is skip else self.ftext(f))
            if i < len(self.seps):
                out.append(self.seps[i])
        out.append(self.tail)
        return out

    def text(self):
        return "".join(self.chunks())

    def open_field(self):
        for p in self.paras:
            for f in p:
                if f["open"]:
                    return f
        return None

    def settle_open(self):
        """Supply the final newline where the model now *requires* it (something follows)."""
        f = self.open_field()
        if f is None:
            return
        ch = self.chunks(skip=f)
        after = "".join(c for c in ch[ch.index(None) + 1:])
        if after != "":
            f["open"] = False

    def names(self, p):
        seen, out = set(), []
        for f in p:
            if f["n"].lower() not in seen:
                seen.add(f["n"].lower())
                out.append(f["n"])
        return out

    def occ(self, p, name):
        return [f for f in p if f["n"].lower() == name.lower()]

    def view(self, rp):
        return rp.configured_view() if self.use_view else rp

    def rkey(self, rp, p, key, role="key"):
        """The key handed to the library: name, (name, i) or - when the caller asked for it with
        ``self.token_roles`` and the key denotes one occurrence - that occurrence's field-name
        token (the third documented key form; it denotes exactly that occurrence)."""
        name, idx = key
        k = name if idx is None else (name, idx)
        if role in self.neg_roles and idx is not None:
            # (name, -k): counted from the last occurrence, as the library's own error message
            # advertises ("or e.g. -1 to denote the last field")
            n = len(self.occ(p, name))
            if n >= 2 and 0 <= idx < n:       # a paragraph without duplicates takes no index but 0
                self.labels.add("key-form:negative-index")
                return (name, idx - n)
        if role in self.token_roles:
            occ = self.occ(p, name)
            if occ and (idx is not None or len(occ) == 1):
                self.labels.add("key-form:name-token")
                return rp.get_kvpair_element(k).field_token
        return k

    # -------------------------------------------------------------------------------- compare
    def compare(self, what):
        d = self.file.dump()
        exp = self.text()
        if d != exp:
            alt = None
            f = self.open_field()
            if f is not None and not self.strict_nl:
                f["open"] = False
                alt = self.text()
                if d != alt:
                    f["open"] = True
            elif not self.strict_nl and self.tail and not self.tail.endswith("\n") and d == exp + "\n":
                self.tail += "\n"
                alt = d
            if d != alt:
                raise Violation(self.classify(d, exp), "after %s: dump %s, model %s (input %s)" % (
                    what, short(d), short(exp), short(self.text0, 200)))
        if self.blind:
            return
        # keys and (name, i) lookups on every live paragraph
        for pi, (p, rp) in enumerate(zip(self.paras, self.rparas)):
            keys = [str(k) for k in rp.keys()]
            if keys != [f["n"] for f in p]:
                raise Violation("keys-order", "after %s: paragraph %d keys %r, model %r" % (
                    what, pi, keys, [f["n"] for f in p]))
            if len(rp) != len(p):
                raise Violation("len", "after %s: len %d vs model %d" % (what, len(rp), len(p)))
            for name in self.names(p):
                occ = self.occ(p, name)
                for i, f in enumerate(occ):
                    kv = rp.get_kvpair_element((name, i), use_get=True)
                    got = None if kv is None else kv.convert_to_text()
                    if got != self.ftext(f):
                        raise Violation("index-semantics", "after %s: (%s, %d) is %s, model %s" % (
                            what, name, i, short(got), short(self.ftext(f))))
                v = rp[spell(name, 1)]
                if v != canon_body(occ[0]["b"]):
                    raise Violation("live-read", "after %s: p[%r] reads %s, model %s" % (
                        what, spell(name, 1), short(v), short(canon_body(occ[0]["b"]))))

    def classify(self, d, exp):
        if sorted(d.replace("\n", "")) == sorted(exp.replace("\n", "")) and \
                d.count("\n") < exp.count("\n"):
            return "glued-missing-newline"
        if sorted(d.split("\n")) == sorted(exp.split("\n")):
            return "order-differs"
        if len(d) < len(exp):
            return "bytes-lost"
        return "bytes-differ"

    # -------------------------------------------------------------------------------- field writes
    def written_region(self, f, what):
        """dump must be before + F' + after around model field ``f``; return F' body."""
        d = self.file.dump()
        o = self.open_field()
        for attempt in (0, 1):
            ch = self.chunks(skip=f)
            k = ch.index(None)
            before = "".join(ch[:k]) + f["c"]
            after = "".join(ch[k + 1:])
            fits = d.startswith(before) and d.endswith(after) and len(d) >= len(before) + len(after)
            if fits or self.strict_nl or o is None or o is f or attempt:
                break
            o["open"] = False    # C10 mode: the library may supply the final newline at any time
        if not fits:
            if attempt and o is not None:
                o["open"] = True
            if not d.startswith(before):
                sig = "write-changed-bytes-before"
                if d.startswith("".join(ch[:k])):
                    sig = "write-lost-field-comment"
                elif before.endswith("\n") and d.startswith(before[:-1]):
                    sig = "glued-missing-newline"
            else:
                sig = "write-changed-bytes-after"
            raise Violation(sig, "after %s: dump %s; expected %s + F' + %s" % (
                what, short(d), short(before), short(after)))
        region = d[len(before):len(d) - len(after)]
        head = f["n"] + ":"
        if not region.startswith(head):
            raise Violation("write-name-spelling", "after %s: written region %s does not start with %r" % (
                what, short(region), head))
        body = region[len(head):]
        if not body.endswith("\n"):
            raise Violation("write-not-whole-lines", "after %s: region %s" % (what, short(region)))
        for i, l in enumerate(body[:-1].split("\n")):
            if i > 0 and (l.strip() == "" or l[0] not in " \t#"):
                raise Violation("write-breaks-syntax", "after %s: region %s" % (what, short(region)))
        return body

    def assign(self, rp, rkey, value, route):
        """The documented ways to write a field: paragraph[key] = v, the same through
        configured_view() (defaults; or auto_resolve_ambiguous_fields=False where the key is not
        ambiguous), set_field_to_simple_value (single-line values) and set_field_from_raw_string
        (the raw text after the colon, used exactly as given)."""
        if route == "view":
            rp.configured_view()[rkey] = value
        elif route == "view-noresolve":
            rp.configured_view(auto_resolve_ambiguous_fields=False)[rkey] = value
        elif route == "simple" and "\n" not in value:
            rp.set_field_to_simple_value(rkey, value)
        elif route == "raw":
            if "\n" not in value:
                raw = " " + value.strip() + "\n"
            else:
                first, rest = value.split("\n", 1)
                raw = " " + first.strip() + "\n" + rest + ("" if rest.endswith("\n") else "\n")
            rp.set_field_from_raw_string(rkey, raw)
        else:
            self.view(rp)[rkey] = value
        self.labels.add("route:" + (route or "item"))

    def do_set_bad(self, pi, key, value, what, route=None):
        """An assignment the library refuses (ValueError) must leave the document as it was - the
        caller may catch the error and carry on.  If the library accepts the value instead, nothing
        is said about the result and the history ends here (returns False)."""
        p, rp = self.paras[pi], self.rparas[pi]
        rkey = self.rkey(rp, p, key)
        try:
            self.assign(rp, rkey, value, route)
        except ValueError:
            self.labels.add("refused-assignment")
            self.compare("refused " + what)
            return True
        self.labels.add("bad-value-accepted-history-ends")
        return False

    def do_set(self, pi, key, value, what, route=None):
        """key = (name as spelled by the caller, occurrence index or None)."""
        p, rp = self.paras[pi], self.rparas[pi]
        name, idx = key
        occ = self.occ(p, name)
        rkey = self.rkey(rp, p, key)
        if route == "view-noresolve" and len(occ) > 1 and idx is None:
            route = None       # the un-indexed key is ambiguous here: that view refuses it by design
        self.assign(rp, rkey, value, route)
        if not occ:
            # new field: last in its paragraph, on lines of its own
            f = {"n": name, "c": "", "b": "\n", "open": False}
            p.append(f)
            self.labels.add("add-field")
            self.settle_open()
        else:
            f = occ[0 if idx is None else idx]
            if idx is None:
                for g in occ[1:]:
                    p[:] = [x for x in p if x is not g]
                    self.labels.add("set-unindexed-removes-duplicates")
            self.settle_open()
        body = self.written_region(f, what)
        f["b"], f["open"] = body, False
        if canon_body(body) != canon_new(value):
            raise Violation("write-value", "after %s: field text %s reads %s, assigned %s" % (
                what, short(body), short(canon_body(body)), short(canon_new(value))))

    def do_get(self, pi, key, how, what):
        """A read through the mapping interface: p[key], p.get(key), key in p, or the field
        element itself.  Reads change nothing and agree with the model."""
        p, rp = self.paras[pi], self.rparas[pi]
        name, idx = key
        occ = self.occ(p, name)
        rkey = self.rkey(rp, p, key)
        f = None
        if occ and (idx is None or idx < len(occ)):
            f = occ[0 if idx is None else idx]
        exp = None if f is None else canon_body(f["b"])
        v = self.view(rp)
        if idx is None and len(occ) > 1 and how in ("in", "kvpair"):
            how = "item"      # these two forms refuse an ambiguous key by design; [] and get() resolve it
        self.labels.add("read:" + how)
        if how == "in":
            got = rkey in v
            if got != (f is not None):
                raise Violation("membership", "%s: %r in p is %r" % (what, rkey, got))
            return
        if how == "kvpair":
            kv = rp.get_kvpair_element(rkey, use_get=True)
            got = None if kv is None else kv.convert_to_text()
            if got != (None if f is None else self.ftext(f)):
                raise Violation("index-semantics", "%s: element of %r is %s, model %s" % (
                    what, rkey, short(got), short(None if f is None else self.ftext(f))))
            return
        if how == "get":
            got = v.get(rkey)
        else:
            try:
                got = v[rkey]
            except KeyError:
                if f is None:
                    return
                raise Violation("live-read", "%s: p[%r] raises KeyError, model %s" % (what, rkey, short(exp)))
            if f is None:
                raise Violation("live-read", "%s: p[%r] reads %s, the model has no such field" % (
                    what, rkey, short(got)))
        if got != exp:
            raise Violation("live-read", "%s: %s of %r reads %s, model %s" % (what, how, rkey, short(got), short(exp)))

    def do_clear(self, pi, what):
        """Mapping.clear(): every field of the paragraph is deleted."""
        p, rp = self.paras[pi], self.rparas[pi]
        self.view(rp).clear()
        p[:] = []
        self.labels.add("del-route:clear")

    def do_del(self, pi, key, what, route=None):
        p, rp = self.paras[pi], self.rparas[pi]
        name, idx = key
        occ = self.occ(p, name)
        rkey = self.rkey(rp, p, key)
        if not occ:
            before = self.file.dump()
            try:
                del self.view(rp)[rkey]
            except KeyError:
                self.compare("failed " + what)
                self.labels.add("del-missing-keyerror")
                return
            raise Violation("del-missing-no-keyerror", "del p[%r] did not raise" % (rkey,))
        if route == "pop" and (idx is not None or len(occ) == 1):
            # Mapping.pop(): deletes and hands back the value that was there
            f = occ[0 if idx is None else idx]
            got = self.view(rp).pop(rkey)
            self.labels.add("del-route:pop")
            if got != canon_body(f["b"]):
                raise Violation("pop-value", "%s: pop returned %s, the field held %s" % (
                    what, short(got), short(canon_body(f["b"]))))
        else:
            del self.view(rp)[rkey]
        for g in (occ if idx is None else [occ[idx]]):
            p[:] = [x for x in p if x is not g]

    # -------------------------------------------------------------------------------- ordering
    def resolve(self, p, key):
        name, idx = key
        occ = self.occ(p, name)
        if not occ:
            return None
        return occ if idx is None else [occ[idx]]

    def do_order(self, pi, op, key, ref, what):
        p, rp = self.paras[pi], self.rparas[pi]
        rkey = self.rkey(rp, p, key)
        moved = self.resolve(p, key)
        refnode = None
        rref = None
        expect = None
        if moved is None:
            expect = KeyError
        if op in ("before", "after"):
            rref = self.rkey(rp, p, ref, "ref")
            r = self.resolve(p, ref)
            if r is None:
                expect = KeyError
            else:
                refnode = r[0] if op == "before" else r[-1]
                if expect is None and any(refnode is m for m in moved):
                    expect = ValueError
        if expect is not None:
            before = self.file.dump()
            try:
                self.call_order(rp, op, rkey, rref)
            except expect:
                self.compare("failed " + what)
                self.labels.add("order-" + expect.__name__)
                return
            raise Violation("order-no-" + expect.__name__, "%s did not raise %s" % (what, expect.__name__))
        self.call_order(rp, op, rkey, rref)
        rest = [f for f in p if not any(f is m for m in moved)]
        if op == "first":
            new = moved + rest
        elif op == "last":
            new = rest + moved
        else:
            k = [i for i, f in enumerate(rest) if f is refnode][0]
            new = rest[:k] + moved + rest[k:] if op == "before" else rest[:k + 1] + moved + rest[k + 1:]
        if len(moved) > 1:
            self.labels.add("moved-duplicated-field-together")
        p[:] = new
        self.settle_open()

    def call_order(self, rp, op, rkey, rref):
        if op == "first":
            rp.order_first(rkey)
        elif op == "last":
            rp.order_last(rkey)
        elif op == "before":
            rp.order_before(rkey, rref)
        else:
            rp.order_after(rkey, rref)

    def do_sort(self, pi, keyname):
        p, rp = self.paras[pi], self.rparas[pi]
        if SORT_KEYS[keyname] is None:
            rp.sort_fields()
        else:
            rp.sort_fields(key=SORT_KEYS[keyname])
        p.sort(key=lambda f: MODEL_SORT_KEYS[keyname](f["n"]))
        self.settle_open()

    # -------------------------------------------------------------------------------- paragraphs
    def build_para(self, spec):
        fields, how = spec["fields"], spec.get("how", "assign")
        seen, uniq = set(), []
        for n, v in fields:
            if n.lower() not in seen:
                seen.add(n.lower())
                uniq.append([n, v])
        if how == "from_dict":
            rp = Deb822ParagraphElement.from_dict(dict(uniq))
        else:
            rp = Deb822ParagraphElement.new_empty_paragraph()
            for n, v in uniq:
                rp[n] = v
        text = rp.dump()
        # derive the model fields from the text the library chose, validating its shape
        mf, rest = [], text
        for n, v in uniq:
            head = n + ":"
            if not rest.startswith(head):
                raise Violation("new-paragraph-shape", "built paragraph %s for %r" % (short(text), uniq))
            nxt = len(rest)
            for n2, _ in uniq[len(mf) + 1:len(mf) + 2]:
                nxt = rest.find("\n" + n2 + ":")
                if nxt < 0:
                    raise Violation("new-paragraph-shape", "built paragraph %s for %r" % (short(text), uniq))
                nxt += 1
            body = rest[len(head):nxt]
            if not body.endswith("\n") or canon_body(body) != canon_new(v):
                raise Violation("new-paragraph-shape", "built paragraph %s for %r" % (short(text), uniq))
            mf.append({"n": n, "c": "", "b": body, "open": False})
            rest = rest[nxt:]
        return rp, mf

    def splice_check(self, region, left, right, new_text, what):
        """dump == left + X + right where X is ``region`` with new_text spliced in on a line
        boundary and only newline characters added around it."""
        d = self.file.dump()
        if not (d.startswith(left) and d.endswith(right) and len(d) >= len(left) + len(right)):
            raise Violation("paragraph-op-changed-other-bytes", "after %s: dump %s; expected %s .. %s" % (
                what, short(d), short(left), short(right)))
        mid = d[len(left):len(d) - len(right)]
        cuts = [0] + [i + 1 for i, c in enumerate(region) if c == "\n"]
        if region and not region.endswith("\n"):
            cuts.append(len(region))
        for c in sorted(set(cuts)):
            a, b = region[:c], region[c:]
            if a and not a.endswith("\n"):
                a += "\n"      # supplied newline of an unterminated comment
            if mid.startswith(a) and mid.endswith(b) and len(mid) >= len(a) + len(b):
                core = mid[len(a):len(mid) - len(b)]
                k = core.find(new_text)
                if k >= 0 and core[:k].strip("\n") == "" and core[k + len(new_text):].strip("\n") == "":
                    return a + core[:k], core[k + len(new_text):] + b
        raise Violation("paragraph-splice", "after %s: between the neighbours the dump has %s; "
                        "expected %s with %s spliced in on a line boundary" % (
                            what, short(mid), short(region), short(new_text)))

    def do_insert(self, idx, spec, what):
        rp, mf = self.build_para(spec)
        new_text = "".join(self.ftext(f) for f in mf)
        n = len(self.paras)
        if idx >= n:
            return self.do_append(spec, what, prebuilt=(rp, mf), via_insert=idx)
        self.file.insert(idx, rp)
        self.labels.add("insert-paragraph")
        # region between paragraph idx-1 (or start) and paragraph idx
        ch = []
        region = self.lead if idx == 0 else self.seps[idx - 1]
        left = "" if idx == 0 else self.prefix_upto_para(idx - 1)
        right = self.suffix_from_para(idx)
        a, b = self.splice_check(region, left, right, new_text, what)
        if idx == 0:
            self.lead = a
        else:
            self.seps[idx - 1] = a
        self.paras.insert(idx, mf)
        self.rparas.insert(idx, rp)
        self.seps.insert(idx, b)

    def prefix_upto_para(self, k):
        out = [self.lead]
        for i in range(k + 1):
            out.extend(self.ftext(f) for f in self.paras[i])
            if i < k:
                out.append(self.seps[i])
        return "".join(out)

    def suffix_from_para(self, k):
        out = []
        for i in range(k, len(self.paras)):
            out.extend(self.ftext(f) for f in self.paras[i])
            if i < len(self.seps):
                out.append(self.seps[i])
        out.append(self.tail)
        return "".join(out)

    def do_append(self, spec, what, prebuilt=None, via_insert=None):
        rp, mf = prebuilt or self.build_para(spec)
        new_text = "".join(self.ftext(f) for f in mf)
        if via_insert is None:
            self.file.append(rp)
        else:
            self.file.insert(via_insert, rp)
        self.labels.add("append-paragraph")
        f = self.open_field()
        if f is not None:
            f["open"] = False     # something is placed after it: the newline is required
            self.labels.add("append-after-unterminated-field")
        if self.tail and not self.tail.endswith("\n"):
            self.labels.add("append-after-unterminated-comment")
        left = self.prefix_upto_para(len(self.paras) - 1)
        a, b = self.splice_check(self.tail, left, "", new_text, what)
        self.seps.append(a)
        self.paras.append(mf)
        self.rparas.append(rp)
        self.tail = b

    # -------------------------------------------------------------------------------- end
    def finish(self):
        if self.blind:
            self.blind = False
            self.compare("the end of a blind history")
        if self.twin.dump() != self.text0:
            raise Violation("edit-leaks-into-another-document", "an unmodified document parsed from "
                            "the same text now dumps %s, text %s" % (short(self.twin.dump()), short(self.text0)))
        d = self.file.dump()
        f2 = parse_deb822_file(lines_of(d), accept_files_with_duplicated_fields=True)
        got = []
        for rp in f2:
            names = [str(k) for k in rp.keys()]
            vals = []
            cnt = {}
            for n in names:
                i = cnt.get(n.lower(), 0)
                cnt[n.lower()] = i + 1
                vals.append(rp[(n, i)])
            got.append(list(zip(names, vals)))
        exp = [[(f["n"], canon_body(f["b"])) for f in p] for p in self.paras if p]
        if got != exp:
            sig = "reparse-paragraphs-merged" if len(got) < len(exp) else \
                "reparse-paragraphs-split" if len(got) > len(exp) else "reparse-fields-differ"
            raise Violation(sig, "fresh parse of %s gives %s, model %s" % (short(d), short(got), short(exp)))
        if f2.find_first_error_element() is not None:
            raise Violation("reparse-error-tokens", "dump %s has syntax errors" % short(d))
        # case-insensitive lookup on the fresh parse
        for rp, p in zip(f2, [p for p in self.paras if p]):
            for name in self.names(p):
                for m in (1, 2):
                    if rp[spell(name, m)] != canon_body(self.occ(p, name)[0]["b"]):
                        raise Violation("reparse-case-lookup", "lookup of %r" % spell(name, m))
