"""Reference models for Debian version comparison (C03) -- independent of python-debian.

Two formulations that are deliberately unlike each other and unlike ``NativeVersion`` (which
splits with regexes and pops runs off lists):

* ``compare(a, b)`` -- a line-by-line port of dpkg ``lib/dpkg/version.c`` (``order()``,
  ``verrevcmp()``, ``dpkg_version_compare()``) written with index arithmetic over the strings,
  including dpkg's digit-by-digit number comparison (skip zeros, remember the first differing
  digit, the longer run wins) -- so digit runs of any length are compared exactly, no integer
  conversion is involved (the epoch, an ``int`` in dpkg, is compared the same way).
* ``sortkey(v)`` / ``key_compare(ka, kb)`` -- each version becomes
  ``(epoch, flat(upstream), flat(revision))`` where ``flat`` is the sequence of elementary
  quantities dpkg looks at, in order: the ``order`` of every character of a non-digit run, a
  ``0`` terminator, the value of the following digit run (an exact Python integer of arbitrary
  size, see ``number``), and so on; trailing zeros are stripped.
  Comparison is lexicographic on the zero-extended sequences.  That is a total preorder on
  versions by construction (a lexicographic order on sequences of integers), and two versions are
  equivalent exactly when their stripped keys are identical -- which is what the hash clause needs.

``split(v)`` is the dpkg split: epoch = digits before the *first* colon, revision = what follows
the *last* hyphen of the rest.  Only syntactically valid versions (non-empty upstream, non-empty
revision if a hyphen is present) may be passed in; nothing here validates.

``DpkgBinary`` wraps ``dpkg --compare-versions`` / ``--validate-version`` as a second opinion on
*these models* (not on the library).
"""
import itertools
import os
import subprocess

DIGITS = "0123456789"
ALPHA = "abcdefghijklmnopqrstuvwxyzABCDEFGHIJKLMNOPQRSTUVWXYZ"


class ModelError(Exception):
    """The reference models disagree with each other or with the dpkg binary (harness error)."""


def split(v):
    """(epoch string or None, upstream, revision string or None) -- dpkg's parseversion split."""
    epoch = None
    rest = v
    i = v.find(":")
    if i >= 0:
        epoch = v[:i]
        rest = v[i + 1:]
    j = rest.rfind("-")
    if j >= 0:
        return epoch, rest[:j], rest[j + 1:]
    return epoch, rest, None


# ------------------------------------------------------------------------------------------
# port of version.c


def order(s, i):
    """dpkg order() of the character at s[i]; the end of the string plays the role of NUL."""
    if i >= len(s):
        return 0
    c = s[i]
    if c in DIGITS:
        return 0
    if c in ALPHA:
        return ord(c)
    if c == "~":
        return -1
    return ord(c) + 256


def _isdigit(s, i):
    return i < len(s) and s[i] in DIGITS


def verrevcmp(a, b):
    i = j = 0
    la, lb = len(a), len(b)
    while i < la or j < lb:
        first_diff = 0
        while (i < la and not _isdigit(a, i)) or (j < lb and not _isdigit(b, j)):
            ac = order(a, i)
            bc = order(b, j)
            if ac != bc:
                return ac - bc
            i += 1
            j += 1
        while i < la and a[i] == "0":
            i += 1
        while j < lb and b[j] == "0":
            j += 1
        while _isdigit(a, i) and _isdigit(b, j):
            if not first_diff:
                first_diff = ord(a[i]) - ord(b[j])
            i += 1
            j += 1
        if _isdigit(a, i):
            return 1
        if _isdigit(b, j):
            return -1
        if first_diff:
            return first_diff
    return 0


def sign(x):
    return (x > 0) - (x < 0)


def compare(a, b):
    """-1, 0, 1 as dpkg_version_compare orders the version strings a and b."""
    ea, ua, ra = split(a)
    eb, ub, rb = split(b)
    # the epoch is a number of any size here (dpkg itself stops at INT_MAX): compared as a digit
    # run, i.e. digit by digit like every other number, never through a machine integer
    rc = verrevcmp(ea or "", eb or "")
    if rc:
        return sign(rc)
    rc = verrevcmp(ua, ub)
    if rc:
        return sign(rc)
    return sign(verrevcmp(ra or "", rb or ""))


# ------------------------------------------------------------------------------------------
# sort-key formulation


def _rank(c):
    if c == "~":
        return -1
    if c in ALPHA:
        return ord(c)
    return ord(c) + 256


def number(digits):
    """Exact value of a digit string of any length (int() itself refuses more than
    sys.get_int_max_str_digits() characters at once)."""
    n = 0
    for k in range(0, len(digits), 1000):
        chunk = digits[k:k + 1000]
        n = n * 10 ** len(chunk) + int(chunk)
    return n


def flat(part):
    out = []
    n = len(part)
    i = 0
    while i < n:
        while i < n and part[i] not in DIGITS:
            out.append(_rank(part[i]))
            i += 1
        out.append(0)
        k = i
        while i < n and part[i] in DIGITS:
            i += 1
        out.append(number(part[k:i]) if i > k else 0)
    while out and out[-1] == 0:
        out.pop()
    return tuple(out)


def sortkey(v):
    e, u, r = split(v)
    return (number(e) if e is not None else 0, flat(u), flat(r or ""))


def _cmp_padded(x, y):
    for p, q in itertools.zip_longest(x, y, fillvalue=0):
        if p != q:
            return -1 if p < q else 1
    return 0


def key_compare(ka, kb):
    if ka[0] != kb[0]:
        return -1 if ka[0] < kb[0] else 1
    return _cmp_padded(ka[1], kb[1]) or _cmp_padded(ka[2], kb[2])


def reference(a, b):
    """The agreed verdict of both formulations; ModelError if they differ (harness bug)."""
    c = compare(a, b)
    k = key_compare(sortkey(a), sortkey(b))
    if c != k:
        raise ModelError("dpkg port says %d, sort key says %d for %r vs %r" % (c, k, a, b))
    if (c == 0) != (sortkey(a) == sortkey(b)):
        raise ModelError("key equality and comparison disagree for %r vs %r" % (a, b))
    return c


# ------------------------------------------------------------------------------------------
# the real dpkg as a second opinion on the models

INT_MAX = 2 ** 31 - 1


class DpkgBinary(object):
    PATH = "/usr/bin/dpkg"

    def __init__(self):
        self.available = os.access(self.PATH, os.X_OK)
        self.calls = 0

    def _run(self, args):
        self.calls += 1
        env = {"LC_ALL": "C", "PATH": "/usr/bin:/bin"}
        p = subprocess.run([self.PATH] + args, stdin=subprocess.DEVNULL, stdout=subprocess.DEVNULL,
                           stderr=subprocess.PIPE, env=env)
        return p.returncode, p.stderr.decode("utf-8", "replace")

    @staticmethod
    def comparable(v):
        """Can this (valid) version be handed to ``dpkg --compare-versions``?"""
        e = split(v)[0]
        return "\x00" not in v and (e is None or number(e) <= INT_MAX)

    def holds(self, a, op, b):
        """True/False for ``dpkg --compare-versions a op b``; ModelError if dpkg rejects the syntax."""
        rc, err = self._run(["--compare-versions", a, op, b])
        if rc not in (0, 1) or "error" in err:
            raise ModelError("dpkg --compare-versions %r %s %r: rc=%d %s" % (a, op, b, rc, err.strip()))
        return rc == 0

    def validate(self, s):
        """(rc, stderr): rc 0 valid, 1 invalid (warning class), 2 invalid (error class).  ``s`` must not start
        with '-' (dpkg would read it as an option) nor contain NUL."""
        return self._run(["--validate-version", s])
