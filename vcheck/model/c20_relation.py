"""Reference relation for C20 (debtags.DB): pure data, never imports the library.

A ``State`` is the observable content of one database: ``fwd`` (package -> set of tags) and
``rev`` (tag -> set of packages).  As specified (model **M**) the two are always mutually inverse,
i.e. the state *is* a relation R with fwd[p] = {t | (p,t) in R} and rev[t] = {p | (p,t) in R}; keys
with an empty set are packages without tags (or, after ``reverse``, tags without packages).

Every operation is a function State -> State written from the docstrings of debtags.DB:

  read              pairs of every line, tags restricted to the filter; every package is a key
  insert            new package with its tags; each tag lists it
  reverse(_copy)    roles swapped
  copy              same content
  facet_collection  every tag replaced by its facet = the text before its '::' (defined for tags of
                    the documented shape facet::name only, see ``facetable``); the collection is
                    built by inserting every package with its facet set (``rebuild``)
  choose/filter_packages*, filter_packages_tags*   forward index restricted, reverse = its inverse
  filter_tags*      reverse index restricted, forward = its inverse

The last two lines fix which index is restricted and which one is re-derived; on a relation both
readings give the same pairs and differ only in whether a key left with an empty set is kept, so
the functions also return those *optional* keys and ``agrees`` accepts them present (empty) or absent.

Model **M'** (known finding "insert-chars") is M with one change, selected by ``deviant=True``:
the first insert under a tag absent from the reverse index stores ``set(pkg)`` -- the characters
of the name -- instead of ``{pkg}``.  It is the identity for one-character names.  It also acts
inside ``facet`` (facet_collection is documented as, and is, a sequence of inserts), where it needs
the order in which the source yields its packages.  In a state produced by M' the two indexes are
no longer inverse, and the "restrict one index, re-derive the other" reading above is what carries
such a state through later derivations.  The same reading carries the states that documented
sharing produces: after an insert into a filter_tags view (or into its source) the other one shows
the new name in a shared package set but not in its forward index (props/c20.py, after_insert).
"""
import re

FACETABLE = re.compile(r"^[^:]+::")


def facet_of(tag):
    return tag.split(":", 1)[0]


def facetable(tag):
    """A tag has a facet when it has the documented shape ``facet::name``: a non-empty text without
    colon, then '::' (the name may hold further colons: works-with::image:raster, h::x::y).  For
    such a tag "the text before the first colon" and "the text before the first '::'" are the same
    string.  For every other text (f:x, f:sub::y, special, :x) nothing documents what its facet
    is, and the model does not say."""
    return FACETABLE.match(tag) is not None


class State(object):
    __slots__ = ("fwd", "rev")

    def __init__(self, fwd=None, rev=None):
        self.fwd = {} if fwd is None else fwd
        self.rev = {} if rev is None else rev

    def copy(self):
        return State({k: set(v) for k, v in self.fwd.items()},
                     {k: set(v) for k, v in self.rev.items()})

    def __eq__(self, other):
        return self.fwd == other.fwd and self.rev == other.rev

    def __ne__(self, other):
        return not self == other

    def is_relation(self):
        for p, ts in self.fwd.items():
            for t in ts:
                if t not in self.rev or p not in self.rev[t]:
                    return False
        for t, ps in self.rev.items():
            for p in ps:
                if p not in self.fwd or t not in self.fwd[p]:
                    return False
        return True

    def max_card(self):
        return max([len(v) for v in self.rev.values()] or [0])

    def show(self):
        def side(d):
            return "{%s}" % ", ".join("%s: [%s]" % (k, " ".join(sorted(d[k]))) for k in sorted(d))
        return "db=%s rdb=%s" % (side(self.fwd), side(self.rev))


def invert(d):
    out = {}
    for k in d:
        for v in d[k]:
            out.setdefault(v, set()).add(k)
    return out


def read(lines, allowed=None):
    """lines: [(packages, tags)]; allowed: None or the set of tags the tag_filter lets through."""
    s = State()
    for pkgs, tags in lines:
        tags = set(tags) if allowed is None else {t for t in tags if t in allowed}
        for p in pkgs:
            s.fwd[p] = set(tags)
        for t in tags:
            s.rev.setdefault(t, set()).update(pkgs)
    return s


def _insert_into(s, pkg, tags, deviant):
    s.fwd[pkg] = set(tags)
    for t in tags:
        if t in s.rev:
            s.rev[t].add(pkg)
        elif deviant:
            s.rev[t] = set(pkg)        # the listed deviation: the characters of the name
        else:
            s.rev[t] = {pkg}


def insert(s, pkg, tags, deviant=False):
    n = s.copy()
    _insert_into(n, pkg, tags, deviant)
    return n


def swapped(s):
    c = s.copy()
    return State(c.rev, c.fwd)


def rebuild(fwd, order=None, deviant=False):
    """The collection obtained by inserting every package of ``fwd`` with its set, in ``order``."""
    n = State()
    for p in (sorted(fwd) if order is None else order):
        _insert_into(n, p, set(fwd[p]), deviant)
    return n


def facet(s, order=None, deviant=False):
    return rebuild({p: {facet_of(t) for t in ts} for p, ts in s.fwd.items()}, order, deviant)


def restrict_packages(s, keep):
    """keep(pkg, tags) -> bool.  Returns (state, optional reverse keys)."""
    fwd = {p: set(ts) for p, ts in s.fwd.items() if keep(p, ts)}
    rev = invert(fwd)
    return State(fwd, rev), set(s.rev) - set(rev)


def restrict_tags(s, keep):
    """keep(tag) -> bool.  Returns (state, optional forward keys)."""
    rev = {t: set(ps) for t, ps in s.rev.items() if keep(t)}
    fwd = invert(rev)
    return State(fwd, rev), set(s.fwd) - set(fwd)


def agrees(obs, exp, opt_fwd=(), opt_rev=()):
    """Observed state equals the expected one, optional keys allowed as extra empty entries."""
    for o, e, opt in ((obs.fwd, exp.fwd, opt_fwd), (obs.rev, exp.rev, opt_rev)):
        for k in o:
            if k not in e and not (k in opt and not o[k]):
                return False
        for k in e:
            if k not in o or o[k] != e[k]:
                return False
    return True


def diff(obs, exp):
    out = []
    for name, o, e in (("db", obs.fwd, exp.fwd), ("rdb", obs.rev, exp.rev)):
        for k in sorted(set(o) | set(e)):
            if k not in o:
                out.append("%s[%s] missing (expected [%s])" % (name, k, " ".join(sorted(e[k]))))
            elif k not in e:
                out.append("%s[%s]=[%s] unexpected" % (name, k, " ".join(sorted(o[k]))))
            elif o[k] != e[k]:
                out.append("%s[%s]=[%s] expected [%s]" % (name, k, " ".join(sorted(o[k])),
                                                           " ".join(sorted(e[k]))))
    return "; ".join(out[:6]) + (" ..." if len(out) > 6 else "")
