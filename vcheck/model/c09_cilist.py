"""Reference model for C09: an ordered, case-insensitive, case-preserving mapping as a plain list.

``pairs`` is a list of ``[spelling, value]``; a key is found by comparing ``.lower()`` (``ci``) or
exactly (plain ordered set).  Everything is list surgery; nothing here imports the library.
"""


class ListModel(object):
    def __init__(self, ci=True):
        self.ci = ci
        self.pairs = []

    # -- basics ---------------------------------------------------------------------------
    def norm(self, key):
        return key.lower() if self.ci else key

    def same(self, a, b):
        return self.norm(a) == self.norm(b)

    def find(self, key):
        k = self.norm(key)
        for i, p in enumerate(self.pairs):
            if self.norm(p[0]) == k:
                return i
        return None

    def __len__(self):
        return len(self.pairs)

    def keys(self):
        return [p[0] for p in self.pairs]

    def values(self):
        return [p[1] for p in self.pairs]

    def snapshot(self):
        return [list(p) for p in self.pairs]

    def clone(self):
        c = ListModel(self.ci)
        c.pairs = self.snapshot()
        return c

    # -- mutation (callers have checked presence) -------------------------------------------
    def set(self, key, value):
        """Assign; returns True when the key is new (appended with this spelling)."""
        i = self.find(key)
        if i is None:
            self.pairs.append([key, value])
            return True
        self.pairs[i][1] = value
        return False

    def delete(self, i):
        return self.pairs.pop(i)

    def move_first(self, i):
        self.pairs.insert(0, self.pairs.pop(i))

    def move_last(self, i):
        self.pairs.append(self.pairs.pop(i))

    def move_rel(self, i, ref_key, after):
        x = self.pairs.pop(i)
        j = self.find(ref_key)
        self.pairs.insert(j + 1 if after else j, x)

    def sort(self, keyfn):
        self.pairs.sort(key=lambda p: keyfn(p[0]))      # list.sort is stable, as sorted() is

    def clear(self):
        del self.pairs[:]


def posclass(i, n):
    """Where index ``i`` sits in a sequence of ``n`` elements."""
    if n == 1:
        return "only"
    if i == 0:
        return "head"
    if i == n - 1:
        return "tail"
    return "mid"


def variant(s, mode):
    if mode == "l":
        return s.lower()
    if mode == "u":
        return s.upper()
    if mode == "s":
        return s.swapcase()
    return s
