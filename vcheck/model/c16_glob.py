"""Reference matcher for the Files globs of the machine-readable copyright format (C16).

Written without ``re`` (and structurally unlike the library, which translates the globs into one
regular expression): a pattern is parsed into a token list once, and matching is a simulation of
the token positions reachable after each character of the name (the classical NFA walk).  A second,
independent formulation (memoised recursion on (token index, name index)) is kept for cross-checks.

Semantics (copyright-format 1.0, "Files" field; the statement of C16):

* ``*``   any run of characters, possibly empty, *including* ``/`` and newline
* ``?``   exactly one character (any, including ``/`` and newline)
* ``\\*`` ``\\?`` ``\\\\``  the literal ``*``, ``?``, backslash
* any other character after a backslash, or a backslash at the very end, is a format error
* the pattern has to cover the whole name
"""

STAR = 0
ANY = 1
LIT = 2


class GlobError(ValueError):
    """The pattern is not a legal glob (bad escape or trailing backslash)."""


def parse(pattern):
    """Pattern text -> tuple of tokens ``(STAR,)``, ``(ANY,)``, ``(LIT, char)``; GlobError if illegal."""
    out = []
    i, n = 0, len(pattern)
    while i < n:
        c = pattern[i]
        i += 1
        if c == "*":
            out.append((STAR,))
        elif c == "?":
            out.append((ANY,))
        elif c == "\\":
            if i >= n:
                raise GlobError("backslash at end of %r" % (pattern,))
            c = pattern[i]
            i += 1
            if c != "*" and c != "?" and c != "\\":
                raise GlobError("illegal escape \\%s in %r" % (c, pattern))
            out.append((LIT, c))
        else:
            out.append((LIT, c))
    return tuple(out)


def legal(pattern):
    try:
        parse(pattern)
    except GlobError:
        return False
    return True


def _closure(toks, states):
    """Add the positions reachable by letting a ``*`` match the empty string."""
    out = set(states)
    todo = list(states)
    while todo:
        s = todo.pop()
        if s < len(toks) and toks[s][0] == STAR and s + 1 not in out:
            out.add(s + 1)
            todo.append(s + 1)
    return out


def prefix_ends(toks, name):
    """All k such that the pattern matches exactly ``name[:k]`` (sorted list)."""
    n = len(toks)
    cur = _closure(toks, {0})
    ends = [0] if n in cur else []
    for k, ch in enumerate(name):
        nxt = set()
        for s in cur:
            if s == n:
                continue
            t = toks[s]
            if t[0] == STAR:
                nxt.add(s)          # the star swallows ch and stays available
            elif t[0] == ANY:
                nxt.add(s + 1)
            elif t[1] == ch:
                nxt.add(s + 1)
        cur = _closure(toks, nxt)
        if not cur:
            break
        if n in cur:
            ends.append(k + 1)
    return ends


def match(toks, name):
    """Does the (parsed) pattern match the whole of ``name``?"""
    ends = prefix_ends(toks, name)
    return bool(ends) and ends[-1] == len(name)


def match_rec(toks, name):
    """Second formulation: memoised recursion over (token index, name index)."""
    memo = {}
    nt, nn = len(toks), len(name)

    def m(i, j):
        key = (i, j)
        if key in memo:
            return memo[key]
        if i == nt:
            r = j == nn
        else:
            t = toks[i]
            if t[0] == STAR:
                r = m(i + 1, j) or (j < nn and m(i, j + 1))
            elif j >= nn:
                r = False
            elif t[0] == ANY:
                r = m(i + 1, j + 1)
            else:
                r = name[j] == t[1] and m(i + 1, j + 1)
        memo[key] = r
        return r

    return m(0, 0)


def list_matches(patterns, name):
    """Reference for a whole Files field: True/False, or raises GlobError if any pattern is illegal."""
    toks = [parse(p) for p in patterns]       # all are validated before any is applied
    return any(match(t, name) for t in toks)


def near_miss(toks, name):
    """Does the pattern match a *proper* prefix or a *proper* suffix of ``name`` (but see caller)?

    These are the names that tell an anchored alternative from an unanchored one.
    """
    n = len(name)
    if any(k < n for k in prefix_ends(toks, name)):
        return True
    for s in range(1, n + 1):
        if match(toks, name[s:]):
            return True
    return False
