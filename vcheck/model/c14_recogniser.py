"""Hand-written recogniser for Debian version strings (C14) -- no regular expressions.

Grammar (Policy 5.6.12 as worded by the property):

    version  = [ epoch ":" ] upstream [ "-" revision ]
    epoch    = 1*ASCII-DIGIT                       (the text before the FIRST colon)
    revision = 1*( ALNUM / "+" / "." / "~" )        (the text after the LAST hyphen of the rest)
    upstream = 1*( ALNUM / "." / "+" / "~" / "-" )  plus ":" only when an epoch is present

``recognise(s)`` returns ``(VALID, (epoch|None, upstream, revision|None))``, ``(INVALID, None)`` or
``(UNSPECIFIED, None)``.  UNSPECIFIED is returned exactly for strings that are inside the alphabet
and well-formed as far as the epoch goes, but whose split at the last hyphen leaves an empty
upstream part or an empty revision (``1-``, ``-1``, ``1:-1``, ``1.0-``): dpkg rejects them, the
library reads them as hyphenated upstream versions without revision, and the property text does
not settle which reading is meant (DESIGN.md section 6).
"""

VALID, INVALID, UNSPECIFIED = "VALID", "INVALID", "UNSPECIFIED"

ASCII_DIGITS = frozenset("0123456789")
ASCII_ALNUM = frozenset("abcdefghijklmnopqrstuvwxyzABCDEFGHIJKLMNOPQRSTUVWXYZ0123456789")
REVISION_CHARS = ASCII_ALNUM | frozenset("+.~")
UPSTREAM_CHARS = ASCII_ALNUM | frozenset(".+~-")
UPSTREAM_CHARS_WITH_EPOCH = UPSTREAM_CHARS | frozenset(":")


def _all_in(s, allowed):
    for c in s:
        if c not in allowed:
            return False
    return True


# Ruling switch: a string whose text after the last hyphen contains a colon ('0:1-2:3') is INVALID by
# the letter of the grammar (dpkg: "invalid character in revision number").  Set to True to file it
# under UNSPECIFIED together with the empty-revision family (the library reads all of them as a
# hyphenated upstream version without revision).
COLON_IN_REVISION_UNSPECIFIED = False


def recognise(s):
    v, parts, _ = recognise_detail(s)
    return (v, parts)


def recognise_detail(s):
    """(verdict, parts, detail); detail names the reason for INVALID / UNSPECIFIED verdicts."""
    v, parts = _recognise(s)
    if isinstance(v, tuple):
        return (v[0], parts, v[1])
    return (v, parts, "")


def _recognise(s):
    if not isinstance(s, str) or s == "":
        return (INVALID, None)
    epoch = None
    rest = s
    colon = -1
    for i, c in enumerate(s):
        if c == ":":
            colon = i
            break
    if colon >= 0:
        epoch = s[:colon]
        rest = s[colon + 1:]
        if epoch == "" or not _all_in(epoch, ASCII_DIGITS):
            return (INVALID, None)
        allowed = UPSTREAM_CHARS_WITH_EPOCH
    else:
        allowed = UPSTREAM_CHARS
    if rest == "" or not _all_in(rest, allowed):
        return (INVALID, None)
    hyphen = -1
    for i in range(len(rest) - 1, -1, -1):
        if rest[i] == "-":
            hyphen = i
            break
    if hyphen < 0:
        return (VALID, (epoch, rest, None))
    upstream = rest[:hyphen]
    revision = rest[hyphen + 1:]
    if upstream == "" or revision == "":
        return ((UNSPECIFIED, "empty-upstream-or-revision"), None)
    if not _all_in(revision, REVISION_CHARS):
        # for a split at the LAST hyphen this can only be a colon in the revision
        if COLON_IN_REVISION_UNSPECIFIED:
            return ((UNSPECIFIED, "colon-in-revision"), None)
        return ((INVALID, "colon-in-revision"), None)
    return (VALID, (epoch, upstream, revision))


def recompose(epoch, upstream, revision):
    """[epoch:]upstream[-revision] with None meaning 'absent'; None if upstream is not a string."""
    if not isinstance(upstream, str):
        return None
    if epoch is not None and not isinstance(epoch, str):
        return None
    if revision is not None and not isinstance(revision, str):
        return None
    out = ""
    if epoch is not None:
        out += epoch + ":"
    out += upstream
    if revision is not None:
        out += "-" + revision
    return out


def is_valid(s):
    return recognise(s)[0] == VALID


def invalid_cause(s):
    """For an INVALID string: which single repairable cause makes it invalid, if any.

    Returns "trailing-newline" if dropping one final newline makes it acceptable,
    "non-ascii-digit-epoch" if the text before the first colon consists of decimal digits of
    which some are not ASCII and replacing them makes it acceptable (a final newline may have
    to be dropped as well: reported as trailing-newline), "colon-in-revision" if everything is in
    order except that the text after the last hyphen contains a colon, else "other".
    """
    if recognise_detail(s)[2] == "colon-in-revision":
        return "colon-in-revision"
    t = s[:-1] if s.endswith("\n") else s
    if t != s and recognise(t)[0] != INVALID:
        return "trailing-newline"
    if ":" in t:
        head, tail = t.split(":", 1)
        if head and all(c.isdecimal() for c in head) and not _all_in(head, ASCII_DIGITS):
            u = "".join(str(int(c)) for c in head) + ":" + tail
            if recognise(u)[0] != INVALID:
                return "non-ascii-digit-epoch" if t == s else "trailing-newline"
    return "other"
