"""Child process of props/_fuzz.py: python -m vcheck.fuzzchild <module> <decoder> <out> <deadline> <libFuzzer args>"""
import importlib
import os
import pickle
import sys
import time


def main():
    module, decoder, out, deadline = sys.argv[1:5]
    fargs = sys.argv[5:]
    from vcheck import boot
    sys.dont_write_bytecode = True
    boot.ensure_pkg("atheris")
    import atheris
    sys.path.insert(0, boot.repo_lib())
    with atheris.instrument_imports(include=["debian"]):
        import debian  # noqa
        boot.boot()
        prop = importlib.import_module(module)
    from vcheck.engine import Rec
    dec = getattr(prop, decoder)
    rec = Rec(prop, float(deadline))
    runs = [int(a.split("=")[1]) for a in fargs if a.startswith("-runs=")][0]
    state = {"n": 0}

    def flush():
        tmp = out + ".tmp"
        with open(tmp, "wb") as f:
            pickle.dump(rec.export(), f)
        os.replace(tmp, out)

    def target(data):
        state["n"] += 1
        rec.notes["fuzz_execs"] += 1
        case = dec(data)
        if case is None:
            rec.notes["fuzz_undecodable"] += 1
        else:
            rec.case(case)
        if state["n"] % 5000 == 0 or state["n"] >= runs - 1:
            flush()

    flush()
    atheris.Setup([sys.argv[0]] + fargs, target)
    atheris.Fuzz()


if __name__ == "__main__":
    main()
