"""known_findings.json: genuine defects that are recorded rather than repaired.

The file is read only.  ``known`` entries name a deviation by id; a property module asks
``allowed(PID)`` which deviations it may tolerate (through a *dual model*, see DESIGN.md 2.6) and
must still report anything that fits neither the specified nor the listed behaviour.  With
``STRICT`` set the allowance is off: that is how each witness is replayed at start-up to decide
whether the KNOWN-FINDING line is still due.  ``fixed`` entries suppress nothing.
"""
import json
import os

from . import boot
from .core import Violation

STRICT = False
_cache = None


def load():
    global _cache
    if _cache is None:
        path = os.path.join(boot.ROOT, "known_findings.json")
        if os.path.exists(path):
            with open(path) as f:
                _cache = json.load(f)
        else:
            _cache = {"known": [], "fixed": []}
    return _cache


def known(pid):
    return [k for k in load().get("known", []) if k["property"] == pid]


def allowed(pid):
    if STRICT:
        return frozenset()
    return frozenset(k["id"] for k in known(pid))


def announce(prop, run_oracle):
    """Replay every listed witness against the specified behaviour only."""
    global STRICT
    lines = []
    for k in known(prop.ID):
        STRICT = True
        try:
            run_oracle(prop, k["witness"])
        except Violation:
            lines.append("KNOWN-FINDING: property=%s %s" % (prop.ID, k["what"]))
        finally:
            STRICT = False
    return lines
