"""Structured deb822 documents for the format-preserving parser (C05, C10).

A document is generated as *structure* so that the expected bytes of every element are known
without consulting any parser:

    doc   = {"lead": str, "paras": [[field, ...], ...], "seps": [str, ...], "tail": str,
             "final_nl": bool}
    field = {"n": name, "c": comment lines attached in front of the field ("" or "# ..\\n" lines),
             "b": everything after the colon, always "\\n"-terminated here}

    text  = lead + para0 + seps[0] + para1 + ... + tail,   para = concat(c + n + ":" + b)
    and if final_nl is false the very last "\\n" of the text is removed.
"""
from hypothesis import strategies as st

NAMES = ["Alpha", "Beta", "Gamma", "Delta", "X-y", "!b"]
DUP_NAMES = ["Alpha", "alpha", "ALPHA", "Beta", "beta", "Gamma", "X-y"]
NEW_NAMES = ["New", "Zed", "x-New", "Alpha", "BETA"]

FIRST = [" v\n", "v\n", "  v w  \n", "\tv\n", ": x\n", " #h\n", " \n", "\n", " é漢\n", " a: b\n",
         # white space other than blank and tab inside a value is text
         " a\u00a0b\u3000c\n", " p\x0cq r\n"]
CONT = [" c\n", "\tc d\n", "   e \n", " .\n", " #nc\n", " k: v\n", "\tß\n"]
FCOMMENT = ["", "", "# c\n", "#\n# two\n", "# blanks at the end  \n", "#\t\n#  x \t\n"]
ICOMMENT = ["", "", "# ic\n"]
SEPS = ["\n", "\n\n", " \n", "\n# free\n\n", "# attached\n\n", "\t\n\n"]
LEADS = ["", "", "\n", "# top\n\n", "\n\n"]
TAILS = ["", "", "", "\n", "\n# trailing\n", "# trailing\n"]

VALUES = ["n", "  n m ", "n\n c2", "n\n\tc2\n c3", "", "n\n# ic\n c", "x: y", "#hash", "m\n .\n x",
          "\n c", "n\n c\n", "é 漢",
          # blanks at the end of a continuation line belong to the value ("later lines verbatim")
          "n\n c2  ", "n\n c \t\n", "n\n c1 \n\tc2", "n  \n c", "a\u00a0b\u3000c", "n\n p\u3000q"]


@st.composite
def field(draw, name):
    f = draw(st.sampled_from(FIRST))
    conts = draw(st.lists(st.tuples(st.sampled_from(ICOMMENT), st.sampled_from(CONT)), max_size=2))
    return {"n": name, "c": draw(st.sampled_from(FCOMMENT)),
            "b": f + "".join(a + b for a, b in conts)}


@st.composite
def document(draw, dups=False, max_paras=3, max_fields=3):
    np = draw(st.integers(1, max_paras))
    paras = []
    for _ in range(np):
        if dups:
            names = draw(st.lists(st.sampled_from(DUP_NAMES), min_size=1, max_size=max_fields + 1))
        else:
            # unique (case-insensitively) inside a paragraph; another paragraph may spell the
            # same name in another case
            names = draw(st.lists(st.sampled_from(NAMES + DUP_NAMES), min_size=1, max_size=max_fields,
                                  unique_by=lambda s: s.lower()))
        paras.append([draw(field(n)) for n in names])
    return {"lead": draw(st.sampled_from(LEADS)), "paras": paras,
            "seps": [draw(st.sampled_from(SEPS)) for _ in range(np - 1)],
            "tail": draw(st.sampled_from(TAILS)), "final_nl": draw(st.booleans())}


def field_text(f):
    return f["c"] + f["n"] + ":" + f["b"]


def render(doc):
    out = [doc["lead"]]
    for i, p in enumerate(doc["paras"]):
        out.extend(field_text(f) for f in p)
        if i < len(doc["seps"]):
            out.append(doc["seps"][i])
    out.append(doc["tail"])
    text = "".join(out)
    if not doc["final_nl"] and text.endswith("\n"):
        text = text[:-1]
    return text


def canon_body(b):
    """The value a reader sees for the raw text after the colon (comments dropped, first line
    stripped, later lines verbatim, no final newline)."""
    if b.endswith("\n"):
        b = b[:-1]
    lines = [l for i, l in enumerate(b.split("\n")) if i == 0 or not l.startswith("#")]
    if len(lines) == 1:
        return lines[0].strip()
    return lines[0].strip() + "\n" + "\n".join(lines[1:])


def canon_new(v):
    """The value a reader must see after ``para[name] = v``."""
    if "\n" not in v:
        return v.strip()
    return canon_body(v)


def wellformed_doc(doc):
    """Shape guard for replay files / shrunk cases: True if ``doc`` is inside the stated domain."""
    try:
        if len(doc["seps"]) != len(doc["paras"]) - 1 or not doc["paras"]:
            return False
        for s in doc["seps"]:
            if not any(l.strip() == "" for l in s.split("\n")[:-1]):
                return False
        for p in doc["paras"]:
            if not p:
                return False
            for f in p:
                if not f["b"].endswith("\n") or not f["n"]:
                    return False
        return True
    except (KeyError, TypeError, IndexError):
        return False
