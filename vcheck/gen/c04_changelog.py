"""deb-changelog(5) grammar: structures, rendering, an independent recogniser, mutations (C04, C15).

A *structure* is plain JSON:

    {"lead":   [whitespace-only lines before the first block],
     "blocks": [{"package": "ab", "version": "1:2.0-1", "dists": ["unstable"],
                 "urgency": "low", "ucomment": "" | " (text)", "pairs": [["key", "value"], ...],
                 "changes": ["", "  * text", ""],
                 "name": "J Doe", "email": "j@d.org",
                 "date": "Mon, 01 Jan 2000 00:00:00 +0000", "dtrail": "" | blanks,
                 "after": [whitespace-only lines after the trailer]}, ...]}

``render_lines`` turns it into line bodies with plain string concatenation (no parser model), and
every attribute the library has to expose can be read directly off the structure.  ``wellformed``
is a recogniser for exactly this domain, written with its own regular expressions; the oracles
use it to refuse hand-edited or shrunk cases that left the domain instead of blaming the library.

Nothing in this file imports the library under test.
"""
import re

from hypothesis import strategies as st

# ------------------------------------------------------------------------------------------
# alphabets (DESIGN.md section 3: TEXT = printable characters over a deliberately small pool)

LETTERS = "abcXYZ019"
META = ":#,-.;=<>()[]|!~+*?\\@/_'\"$%&"
NONASCII = "éß漢\U0001d4b3"      # 2-, 2-, 3- and 4-byte UTF-8
TEXT_POOL = LETTERS + META + NONASCII

MONTHS = ["Jan", "Feb", "Mar", "Apr", "May", "Jun", "Jul", "Aug", "Sep", "Oct", "Nov", "Dec"]
DOWS = ["Mon", "Tue", "Wed", "Thu", "Fri", "Sat", "Sun"]

# characters on which str.splitlines() splits although they are not "\n"
LINE_BOUNDARIES = "\r\x0b\x0c\x1c\x1d\x1e\x85\u2028\u2029"


def text_ok(s, tab=False):
    """TEXT of DESIGN.md section 6: printable characters (plus TAB where the grammar allows it)."""
    return all(c.isprintable() or (tab and c == "\t") for c in s)


# ------------------------------------------------------------------------------------------
# independent recogniser of the well-formed domain

_re_package = re.compile(r"[a-z0-9][a-z0-9+.-]+", re.ASCII)
_re_version = re.compile(r"(?:([0-9]+):)?([0-9][A-Za-z0-9.+~:-]*?)(?:-([A-Za-z0-9.+~]+))?", re.ASCII)
_re_dist = re.compile(r"[-+.0-9A-Za-z]+", re.ASCII)
_re_key = re.compile(r"[-0-9A-Za-z]+", re.ASCII)
_re_date = re.compile(
    r"(?:(?:%s), {1,2})?[0-9]{1,2} (?:%s) [0-9]{4} [0-9]{1,2}:[0-9]{2}:[0-9]{2} [-+][0-9]{4}"
    % ("|".join(DOWS), "|".join(MONTHS)), re.ASCII)
_re_blank = re.compile(r"[ \t]*")


def valid_version(v):
    if not isinstance(v, str):
        return False
    m = _re_version.fullmatch(v)
    if m is None:
        return False
    if m.group(1) is None and ":" in m.group(2):
        return False
    return True


def valid_package(p):
    return isinstance(p, str) and _re_package.fullmatch(p) is not None


def valid_dists(ds):
    return (isinstance(ds, list) and len(ds) >= 1
            and all(isinstance(d, str) and _re_dist.fullmatch(d) for d in ds))


def valid_urgency(u):
    return isinstance(u, str) and _re_key.fullmatch(u) is not None


def valid_ucomment(c):
    if not isinstance(c, str):
        return False
    if c == "":
        return True
    return (c[0] == " " and "," not in c and text_ok(c) and c[-1] != " " and len(c) >= 2)


def valid_pairs(pairs):
    if not isinstance(pairs, list):
        return False
    seen = set(["urgency"])
    for kv in pairs:
        if not (isinstance(kv, list) and len(kv) == 2 and all(isinstance(x, str) for x in kv)):
            return False
        k, v = kv
        if _re_key.fullmatch(k) is None or k.lower() in seen:
            return False
        seen.add(k.lower())
        if v == "" or "," in v or not text_ok(v) or v[0] == " " or v[-1] == " ":
            return False
    return True


def is_blank(line):
    return isinstance(line, str) and _re_blank.fullmatch(line) is not None


def valid_change_line(line):
    """A blank line, or at least two blanks of indentation followed by text."""
    if not isinstance(line, str) or not text_ok(line, tab=True):
        return False
    if is_blank(line):
        return True
    return line[:2] in ("  ", " \t", "\t ", "\t\t") and "\n" not in line


def valid_author_parts(name, email):
    if not (isinstance(name, str) and isinstance(email, str)):
        return False
    if not (text_ok(name) and text_ok(email)):
        return False
    if name != name.strip(" "):
        return False
    return True


def valid_author(author):
    """'name <email>' as one string (what the ``author`` attribute holds)."""
    if not isinstance(author, str) or not text_ok(author) or not author.endswith(">"):
        return False
    i = author.rfind(" <")
    if i < 0:
        return False
    return author[:i] == author[:i].strip(" ")


def valid_date(d, trail=""):
    return (isinstance(d, str) and _re_date.fullmatch(d) is not None
            and isinstance(trail, str) and _re_blank.fullmatch(trail) is not None)


def has_change_text(b):
    """True when at least one line between header and trailer is a change line proper (not blank)."""
    return any(not is_blank(l) for l in b["changes"])


def wellformed_block(b, boundary_ok=False):
    """A block of the domain.  With ``boundary_ok`` also a block without any change text (nothing, or
    only blank lines, between header and trailer): whether that is "well-formed" is arguable, so the
    oracle of C04 demands nothing of the parser for it - only of what an accepted text turns into."""
    if not isinstance(b, dict):
        return False
    try:
        ok = (valid_package(b["package"]) and valid_version(b["version"]) and valid_dists(b["dists"])
              and valid_urgency(b["urgency"]) and valid_ucomment(b["ucomment"])
              and valid_pairs(b["pairs"])
              and isinstance(b["changes"], list) and all(valid_change_line(l) for l in b["changes"])
              and (boundary_ok or has_change_text(b))
              and valid_author_parts(b["name"], b["email"])
              and valid_date(b["date"], b["dtrail"])
              and isinstance(b["after"], list) and all(is_blank(l) for l in b["after"]))
    except KeyError:
        return False
    return bool(ok)


def boundary_blocks(struct):
    """Positions of the blocks without any change text (see wellformed_block)."""
    return [i for i, b in enumerate(struct["blocks"]) if not has_change_text(b)]


def wellformed(struct, boundary_ok=False):
    if not isinstance(struct, dict):
        return False
    lead, blocks = struct.get("lead"), struct.get("blocks")
    if not isinstance(lead, list) or not all(is_blank(l) for l in lead):
        return False
    if not isinstance(blocks, list) or len(blocks) < 1:
        return False
    return all(wellformed_block(b, boundary_ok) for b in blocks)


# ------------------------------------------------------------------------------------------
# rendering (plain concatenation) and the attributes a block has to expose


def header_line(b):
    return "%s (%s) %s; urgency=%s%s%s" % (
        b["package"], b["version"], " ".join(b["dists"]), b["urgency"], b["ucomment"],
        "".join(", %s=%s" % (k, v) for k, v in b["pairs"]))


def author_of(b):
    return "%s <%s>" % (b["name"], b["email"])


def trailer_line(b):
    return " -- %s  %s%s" % (author_of(b), b["date"], b["dtrail"])


def block_lines(b):
    return [header_line(b)] + list(b["changes"]) + [trailer_line(b)] + list(b["after"])


def render_lines(struct):
    out = list(struct["lead"])
    for b in struct["blocks"]:
        out.extend(block_lines(b))
    return out


def render_text(struct):
    return "".join(l + "\n" for l in render_lines(struct))


def struct_labels(struct):
    """Class labels read off the structure (generator-quality evidence)."""
    labels = set()
    blocks = struct["blocks"]
    labels.add("blocks:%s" % (len(blocks) if len(blocks) < 3 else "3+"))
    if struct["lead"]:
        labels.add("leading-blank-lines")
    if any(l != "" for l in struct["lead"]):
        labels.add("leading-ws-only-line")
    for i, b in enumerate(blocks):
        if b["pairs"]:
            labels.add("extra-keys")
            if len(b["pairs"]) >= 2:
                labels.add("extra-keys>=2")
            if any(not v.isascii() or " " in v or "=" in v or ";" in v for _, v in b["pairs"]):
                labels.add("extra-value-odd")
        if b["ucomment"]:
            labels.add("urgency-comment")
        if b["urgency"] != b["urgency"].lower():
            labels.add("urgency-mixed-case")
        if len(b["dists"]) >= 2:
            labels.add("dists>=2")
        if any("." in d for d in b["dists"]):
            labels.add("dist-with-dot")
        if any(d[0].isdigit() for d in b["dists"]):
            labels.add("dist-digit-led")
        if any(d != d.lower() for d in b["dists"]):
            labels.add("dist-uppercase")
        v = b["version"]
        if ":" in v:
            labels.add("version-epoch")
        if "-" in v:
            labels.add("version-revision")
        if "~" in v or "+" in v:
            labels.add("version-tilde-plus")
        if any(c in b["package"] for c in "+."):
            labels.add("package-plus-dot")
        ch = b["changes"]
        real = [l for l in ch if not is_blank(l)]
        if any("#" in l for l in real):
            labels.add("change-hash")
        if any(":" in l for l in real):
            labels.add("change-colon")
        if any(not l.isascii() for l in real):
            labels.add("change-nonascii")
        if any(l.lstrip(" \t").startswith("--") for l in real):
            labels.add("change-looks-like-trailer")
        if any(re.match(r"\s+\S+ \(\S+\) ", l) for l in real):
            labels.add("change-looks-like-header")
        if any(re.match(r"\s+(vim:|Local variables|\$Id|Old Changelog|/\*)", l) for l in real):
            labels.add("change-looks-like-editor-or-old-format")
        if any(l != l.rstrip(" \t") for l in real):
            labels.add("change-trailing-blanks")
        if any("\t" in l for l in real):
            labels.add("change-with-tab")
        if any(is_blank(l) and l != "" for l in ch):
            labels.add("ws-only-line-in-block")
        inner = ch[1:-1] if len(ch) > 2 else []
        if any(is_blank(l) for l in inner):
            labels.add("blank-inside-changes")
        if not ch:
            labels.add("trailer-directly-after-header")
        elif not real:
            labels.add("only-blank-lines-between-header-and-trailer")
        if not real:
            labels.add("no-change-text:%s-block" % ("only" if len(blocks) == 1 else "first" if i == 0 else
                                                    "last" if i == len(blocks) - 1 else "middle"))
        if any(re.fullmatch(r"[ \t]{2,}--(?: .*)?", l) for l in real):
            labels.add("change-text-is-or-starts-with-two-dashes")
        if ch and not is_blank(ch[0]):
            labels.add("no-blank-after-header")
        if ch and not is_blank(ch[-1]):
            labels.add("no-blank-before-trailer")
        if b["name"] == "":
            labels.add("name-empty")
        if "<" in b["name"] or ">" in b["name"]:
            labels.add("name-with-angle")
        if not b["name"].isascii():
            labels.add("name-nonascii")
        if b["email"] == "":
            labels.add("email-empty")
        d = b["date"]
        labels.add("date-dow" if d[0].isalpha() else "date-no-dow")
        m = re.search(r"(?:^|[ ,])([0-9]{1,2}) [A-Z]", d)
        if m:
            labels.add("day-%d-digit" % len(m.group(1)))
        if ",  " in d:
            labels.add("date-two-blanks-after-comma")
        m = re.search(r" ([0-9]{1,2}):[0-9]{2}:", d)
        if m:
            labels.add("hour-%d-digit" % len(m.group(1)))
        if b["dtrail"]:
            labels.add("date-trailing-blanks")
        if not b["after"] and i < len(blocks) - 1:
            labels.add("no-blank-between-blocks")
        if len(b["after"]) >= 2:
            labels.add("blank-lines-after>=2")
        if any(l != "" for l in b["after"]):
            labels.add("ws-only-line-after-block")
    return labels


def struct_nontrivial(struct):
    """>=2 blocks, or extra keys, or an urgency comment, or a change line with '#', ':' or non-ASCII."""
    blocks = struct["blocks"]
    if len(blocks) >= 2:
        return True
    for b in blocks:
        if b["pairs"] or b["ucomment"]:
            return True
        for l in b["changes"]:
            if "#" in l or ":" in l or not l.isascii():
                return True
    return False


# ------------------------------------------------------------------------------------------
# encodings of the text when it is handed over as bytes (C04)
#
# codec -> characters of that codec that stand in for pool characters it cannot spell (None: the
# codec spells all of Unicode).  Every codec but UTF-16 keeps ASCII bytes as they are and never
# uses the byte 0x0A inside a multi-byte character, so its output can be cut into lines at b"\n";
# UTF-16 only makes sense for a text handed over as one bytes object.
CODECS = {
    "utf-8": None,
    "latin-1": "ñÖ",
    "iso-8859-15": "€ž",       # 0xA4, 0xB8: differ from latin-1
    "cp1252": "€œ",            # 0x80, 0x9C: C1 controls in latin-1
    "koi8-r": "жЯ",
    "euc-jp": "字あ",
    "gb18030": None,           # multi-byte, trail bytes in the ASCII range (digits, letters)
    "utf-16": None,
}
WHOLE_ONLY_CODECS = ("utf-16",)
LINEWISE_CODECS = [c for c in CODECS if c not in WHOLE_ONLY_CODECS]


def encodable(text, codec):
    try:
        return text.encode(codec).decode(codec) == text
    except UnicodeError:
        return False


def _translit_str(s, codec, repl):
    if s.isascii():
        return s
    return "".join(c if c.isascii() or encodable(c, codec) else repl[ord(c) % len(repl)] for c in s)


def transliterate(struct, codec):
    """The same structure with every character the codec cannot spell replaced by one it can.

    A deterministic repair (not a filter): the shape of every line is unchanged, replacements are
    printable non-ASCII letters/symbols of the codec.
    """
    repl = CODECS[codec]
    if repl is None:
        return struct

    def walk(x):
        if isinstance(x, str):
            return _translit_str(x, codec, repl)
        if isinstance(x, list):
            return [walk(y) for y in x]
        if isinstance(x, dict):
            return {k: walk(v) for k, v in x.items()}
        return x
    return walk(struct)


# ------------------------------------------------------------------------------------------
# strategies for the well-formed domain (everything is constructed; no filtering)

# Most draws come from small fixed pools (one Hypothesis draw each: generation cost is dominated
# by the number of draws); a minority is built character by character from the same alphabet.
WORDS = ["a", "b", "x", "fix", "New", "upstream", "release.", "Closes:", "#123", "#1,", "LP:", "(x)", "[y]",
         "a:b", "a=b", "a;b", "<c>", "<", ">", "--", "-", "*", "+", "~", "!", "?", "|", "\\", "@", "/usr/x",
         "_", "'q'", '"q"', "$1", "50%", "&", "é", "ß", "漢", "\U0001d4b3", "Túlio", "0", "1.0-1", "9", "Z,"]
_word = st.one_of(st.sampled_from(WORDS), st.sampled_from(WORDS), st.sampled_from(WORDS),
                  st.text(alphabet=TEXT_POOL, min_size=1, max_size=6))
_words = st.builds(lambda ws, sep: sep.join(ws), st.lists(_word, min_size=1, max_size=4),
                   st.sampled_from([" ", " ", " ", "  "]))

packages = st.one_of(
    st.sampled_from(["gnutls13", "haskell-src-exts", "a0", "g++-4.9", "libc6.1", "0ad", "x-y.z+w"]),
    st.builds(lambda a, r: a + r, st.sampled_from("abz019"),
              st.text(alphabet="abz019+.-", min_size=1, max_size=6)))


VERSIONS = ["1.0", "1.0-1", "1:1.4.1-1", "0", "2.0~rc1-1", "1.2.3", "0.1.2+b1", "1.3.5-1.1", "007:1:2-3-4",
            "1.0-0ubuntu1", "2024.01.01", "9z", "0:0", "1.0+dfsg-1~bpo9+1", "12:3.4.5a-6", "1-1-1", "3.0A"]


# (strategies are built once at import: constructing them inside a composite costs more than the draw)
_epochs = st.sampled_from(["", "", "", "0:", "1:", "12:", "007:"])
_revs = st.one_of(st.sampled_from(["", "", "-1", "-0ubuntu1", "-1~bpo9+1", "-1.1"]),
                  st.text(alphabet="aZ019.+~", min_size=1, max_size=4).map(lambda r: "-" + r))
_digit = st.sampled_from("0123456789")
_up_rest = {(e, r): st.text(alphabet="abAZ0159.+~" + (":" if e else "") + ("-" if r else ""), min_size=0, max_size=6)
            for e in (False, True) for r in (False, True)}


@st.composite
def _gen_versions(draw):
    epoch = draw(_epochs)
    rev = draw(_revs)
    # ':' only with an epoch, '-' only when a revision follows
    return epoch + draw(_digit) + draw(_up_rest[(bool(epoch), bool(rev))]) + rev


_versions = st.one_of(st.sampled_from(VERSIONS), st.sampled_from(VERSIONS), _gen_versions())


def versions():
    return _versions


_dist = st.one_of(
    st.sampled_from(["unstable", "stable", "experimental", "UNRELEASED", "stretch-backports",
                     "xenial-security", "1.2", "a.b", "c+d", "-x", "0", "testing-proposed-updates"]),
    st.text(alphabet="-+.09azQ", min_size=1, max_size=5))
dist_lists = st.lists(_dist, min_size=1, max_size=3)

urgencies = st.one_of(
    st.sampled_from(["low", "medium", "high", "HIGH", "emergency", "critical", "Low", "unknown", "a-1", "0"]),
    st.text(alphabet="-09azQ", min_size=1, max_size=5))

_nocomma_words = [w for w in WORDS if "," not in w]
_nocomma_word = st.one_of(st.sampled_from(_nocomma_words), st.sampled_from(_nocomma_words),
                          st.text(alphabet=TEXT_POOL.replace(",", ""), min_size=1, max_size=6))
_nocomma_text = st.builds(lambda ws, sep: sep.join(ws), st.lists(_nocomma_word, min_size=1, max_size=3),
                          st.sampled_from([" ", " ", "  "]))

ucomments = st.one_of(
    st.just(""), st.just(""), st.just(""),
    st.sampled_from([" (HIGH for users)", " (x)", " see #1; y", " é = 漢", " x  y", " urgency=high"]),
    _nocomma_text.map(lambda t: " " + t))

_keys = st.one_of(
    st.sampled_from(["binary-only", "Binary-Only", "x-foo", "XS-Bar", "a", "0", "k-1", "URGENCY-2"]),
    st.text(alphabet="-09azQ", min_size=1, max_size=5))
_values = st.one_of(st.sampled_from(["yes", "a b", "x=y", "é", ";", "1.0~a", "(v)", "a;b=c"]), _nocomma_text)


_npairs = st.sampled_from([0, 0, 0, 1, 1, 2])


@st.composite
def _pair_lists(draw):
    n = draw(_npairs)
    out, seen = [], set(["urgency"])
    for _ in range(n):
        k = draw(_keys)
        while k.lower() in seen:      # deterministic repair instead of a filter
            k = k + "x"
        seen.add(k.lower())
        out.append([k, draw(_values)])
    return out


_pairs = _pair_lists()


def pair_lists():
    return _pairs


_indent = st.sampled_from(["  ", "  ", "  ", "   ", "    ", "      ", "  \t"])
_bullet = st.sampled_from(["* ", "* ", "- ", "+ ", "", "[ ", "o "])
_lookalike_bodies = st.sampled_from([
    "pkg (1.0) unstable; urgency=low",
    "-- A <a@b.c>  Mon, 01 Jan 2000 00:00:00 +0000",
    "--",
    "vim: set ts=2:",
    "# not a comment",
    "$Id: changelog 1 $",
    "Local variables:",
    "Old Changelog:",
    "/* c */",
    "* Closes: #123, #456",
    "LP: #12",
    "* control: Use versioned Replaces: and Conflicts:",
    "[ José 漢 ]",
    "* a\tb",
])
_trailing = st.sampled_from(["", "", "", "", " ", "  ", "\t"])
CHANGE_POOL = [
    "  * New upstream release. Closes: #123, #456,", "    #789. LP: #1234, #2345,", "  [ James Westby ]",
    "  * control: Use versioned Replaces: and Conflicts:", "    - 30_man_hyphen_*.patch", "  * x", "   y ",
    "  * Translations: é ß 漢 \U0001d4b3", "  -- A <a@b.c>  Mon, 01 Jan 2000 00:00:00 +0000", "  pkg (1.0) unstable; urgency=low",
    "  vim: set ts=2:", "  # c", "  * a:b #1", "      deep", "  \t* tab", "  * trailing  ", "  --", "  .",
    "  * Fix \"quoted\" <tag> & 50% | a\\b", "  Local variables:", "  $Id: x $", "  Old Changelog:",
]
change_lines = st.one_of(
    st.sampled_from(CHANGE_POOL), st.sampled_from(CHANGE_POOL), st.sampled_from(CHANGE_POOL),
    st.builds(lambda i, b, t, tr: i + b + t + tr, _indent, _bullet, _words, _trailing),
    st.builds(lambda i, b, t, tr: i + b + t + tr, _indent, _bullet, _words, _trailing),
    st.builds(lambda i, t, tr: i + t + tr, _indent, _lookalike_bodies, _trailing))
blank_lines = st.sampled_from(["", "", "", "", " ", "  ", "\t", "   "])


_shapes = st.sampled_from(["std", "std", "free", "free", "tight"])
_std_items = st.lists(st.one_of(change_lines, change_lines, change_lines, blank_lines), min_size=0, max_size=4)
_tight_items = st.lists(change_lines, max_size=2)
_pre_blanks = st.lists(blank_lines, max_size=2)
_free_items = st.lists(st.one_of(change_lines, change_lines, blank_lines), max_size=5)


@st.composite
def _change_lists(draw):
    shape = draw(_shapes)
    if shape == "std":
        return [""] + [draw(change_lines)] + draw(_std_items) + [""]
    if shape == "tight":
        return [draw(change_lines)] + draw(_tight_items)
    return draw(_pre_blanks) + [draw(change_lines)] + draw(_free_items)


_changes = _change_lists()


def change_lists():
    return _changes


names = st.one_of(
    st.sampled_from(["A", "Jane Doe", "J. R. Hacker", "Marco Túlio Gontijo e Silva", "漢 字", "",
                     "A <x> B", "a>b", "<", "Dr. X (work)", "O'Neil, P.", "A <a@b.c>  Mon, 01 Jan 2000 00:00:00 +0000"]),
    _words)
emails = st.one_of(
    st.sampled_from(["a@b.c", "jw+debian@jameswestby.net", "x", "é@ß.de", "", "a b"]),
    st.text(alphabet="abz019.+@-_", min_size=1, max_size=10))


_days = st.integers(1, 31)
_bool = st.booleans()
_dow_or_not = st.sampled_from(DOWS + DOWS + DOWS + [""] * 7)
_hours = st.integers(0, 23)
_two_digit_hour = st.sampled_from([True, True, False])
_months = st.sampled_from(MONTHS)
_years = st.sampled_from(["1996", "2000", "2006", "2024", "0999", "9999"])
_sixty = st.integers(0, 59)
_sign = st.sampled_from("+-")
_zone = st.sampled_from(["0000", "0100", "0530", "1245", "9999"])


@st.composite
def _dates(draw):
    day = draw(_days)
    daystr = "%02d" % day if draw(_bool) else "%d" % day
    prefix = draw(_dow_or_not)
    if prefix:
        # date -R pads a one-digit day with a blank
        prefix += ",  " if (len(daystr) == 1 and draw(_bool)) else ", "
    hour = draw(_hours)
    hourstr = "%02d" % hour if draw(_two_digit_hour) else "%d" % hour
    return "%s%s %s %s %s:%02d:%02d %s%s" % (
        prefix, daystr, draw(_months), draw(_years), hourstr, draw(_sixty), draw(_sixty),
        draw(_sign), draw(_zone))


_dates_st = _dates()


def dates():
    return _dates_st


date_trails = st.sampled_from(["", "", "", "", " ", "  ", "\t"])
after_lines = st.sampled_from([[""], [""], [""], [""], [], [], ["", ""], [" "], ["", "\t"], ["   ", ""]])
lead_lines = st.sampled_from([[], [], [], [], [], [""], ["", ""], [" "], ["", "\t "]])


@st.composite
def _blocks(draw):
    return {
        "package": draw(packages), "version": draw(_versions), "dists": draw(dist_lists),
        "urgency": draw(urgencies), "ucomment": draw(ucomments), "pairs": draw(_pairs),
        "changes": draw(_changes),
        "name": draw(names), "email": draw(emails), "date": draw(_dates_st), "dtrail": draw(date_trails),
        "after": list(draw(after_lines)),
    }


_blocks_st = _blocks()


def blocks():
    return _blocks_st


_nblocks = {m: st.sampled_from([1, 1, 2, 2, 3, m]) for m in (1, 2, 3, 4)}


@st.composite
def _structs(draw, max_blocks):
    n = min(draw(_nblocks[max_blocks]), max_blocks)
    return {"lead": list(draw(lead_lines)), "blocks": [draw(_blocks_st) for _ in range(n)]}


_structs_st = {m: _structs(m) for m in (1, 2, 3, 4)}


def structs(max_blocks=4):
    return _structs_st[max_blocks]


# ------------------------------------------------------------------------------------------
# the edges of the grammar (C04): what stands between a header and its trailer may be nothing at
# all, or blank lines only; a maintainer name or an address may be the empty string; the text of a
# change line may be, or start with, the two dashes that open a trailer.

# nothing / 1 / 2 blank lines / whitespace-only lines between header and trailer
NO_CHANGE_TEXT = [[], [""], ["", ""], [" "], ["", "\t"]]

_EDGE_DATE = "Mon, 01 Jan 2001 00:00:00 +0000"
EDGE_SHAPES = [
    ("no-lines", {"changes": []}),
    ("one-blank", {"changes": [""]}),
    ("two-blanks", {"changes": ["", ""]}),
    ("ws-only-lines", {"changes": ["  ", "\t"]}),
    ("no-lines+empty-name", {"changes": [], "name": ""}),
    ("one-blank+empty-email", {"changes": [""], "email": ""}),
    ("empty-name", {"name": ""}),
    ("empty-email", {"email": ""}),
    ("empty-name-and-email", {"name": "", "email": ""}),
    ("dashes-only", {"changes": ["", "  --", ""]}),
    ("dashes-only-tight", {"changes": ["  --"]}),
    ("dashes-blank", {"changes": ["", "  * item", "   -- ", ""]}),
    ("dashes-text", {"changes": ["", "  * Pass the options after a bare", "    -- to the helper unchanged", ""]}),
    ("dashes-first-line", {"changes": ["  -- x", "  * item"]}),
    ("dashes-last-line", {"changes": ["", "  * item", "  -- y"]}),
    ("dashes-tab", {"changes": ["", "\t\t-- z", " \t--", ""]}),
    ("trailer-in-text", {"changes": ["", "  * as in", "      -- Make <make@example.org>  " + _EDGE_DATE, "  * more", ""]}),
    ("trailer-in-text-at-2", {"changes": ["", "  -- A <a@b.c>  " + _EDGE_DATE, ""]}),
    ("bare-trailer-in-text", {"changes": ["", "  --  <>  " + _EDGE_DATE, "  --  ", ""]}),
]


def _edge_block(i, after):
    return {"package": "edge%d" % i, "version": "1.0-%d" % (9 - i), "dists": ["unstable"], "urgency": "low",
            "ucomment": "", "pairs": [], "changes": ["", "  * entry %d" % i, ""],
            "name": "Jane Doe", "email": "jane@example.org", "date": "Tue, %02d Jan 2001 10:00:00 +0000" % (9 - i),
            "dtrail": "", "after": list(after)}


def edge_structs():
    """Every edge shape in the only / first / middle / last block of 1..3 blocks (and in all blocks at
    once), the blocks separated by one blank line or by none."""
    for after in ([""], []):
        for name, over in EDGE_SHAPES:
            for n in (1, 2, 3):
                for where in list(range(n)) + (["all"] if n > 1 else []):
                    blocks = [_edge_block(i, after) for i in range(n)]
                    for i, b in enumerate(blocks):
                        if where == "all" or where == i:
                            b.update({k: (list(v) if isinstance(v, list) else v) for k, v in over.items()})
                    yield {"lead": [], "blocks": blocks}


# values "valid for the format" for the editing histories of C15
authors = st.builds(lambda n, e: "%s <%s>" % (n, e), names, emails)
full_dates = st.builds(lambda d, t: d + t, dates(), date_trails)
dist_strings = dist_lists.map(" ".join)


# ------------------------------------------------------------------------------------------
# malformed material for C15: one or more representatives of every line class of the parser

GOOD_DATE = "Mon, 01 Jan 2000 00:00:00 +0000"
JUNK_CLASSES = {
    # a single word is an old-format marker to the parser (pattern 8), two words are not
    "plain": ["foo bar", "* unindented item", " one blank only", "\tone tab only", "x (y", "a b c", "= ="],
    "trailer": [
        " --", " -- ", " --  ", " --   \t",
        " -- A <a@b.c>  " + GOOD_DATE,
        " -- A <a@b.c> " + GOOD_DATE,                       # single-space separator
        " -- B C <b@c.d> Tue,  2 Feb 2001 1:02:03 -0100 ",
        " -- A <a@b.c>   " + GOOD_DATE,                     # three blanks
        " -- A <a@b.c>  Mon, 1 Jan 20 00:00:00 +0000",     # bad year
        " -- A <a@b.c>  yesterday",
        " -- A <a@b.c>",
        " -- A  " + GOOD_DATE,                              # no email
        " -- <a@b.c>  " + GOOD_DATE,                        # no blank before '<'
        " --  <a@b.c>  " + GOOD_DATE,                       # empty name
        "-- A <a@b.c>  " + GOOD_DATE,                       # no leading blank
        " -- A <a@b.c>  " + GOOD_DATE + " \r",
        " -- A <a@b.c>  Mon,  1  Jan  2000  00:00:00  +0000",
    ],
    "header": [
        "pkg2 (2.0) unstable; urgency=low",
        "pkg2 (2.0-1) stable unstable; urgency=HIGH (why), binary-only=yes",
        "pkg (1.0) unstable;",
        "pkg (1.0) unstable;urgency=low",
        "pkg (1.0)  unstable  stable ;",
        "pkg (1.0)   unstable\tstable; urgency=low",
        "pkg (1.0) unstable; urgency=low, urgency=high",
        "pkg (1.0) unstable; urgency=low x, Urgency=high",
        "pkg (1.0) unstable; urgency=low, a=1, A=2",
        "pkg (1.0) unstable; a=1, a=2, urgency=low",
        "pkg (1.0) unstable; urgency=!!",
        "pkg (1.0) unstable; urgency=",
        "pkg (1.0) unstable; urgency=low; x",
        "pkg (1.0) unstable; foo",
        "pkg (1.0) unstable; x=y, urgency=low",
        "pkg (1.0) unstable; urgency=low,",
        "pkg (1.0) unstable; urgency=low ,  k = v ",
        "pkg (1.0) unstable; urgency=low\u00a0x",
        "pkg (1_0) unstable; urgency=low",                   # not a valid version
        "pkg (1;2) unstable; urgency=low",
        "pkg (a:b,c) unstable; urgency=low",
        "pkg (\u0661:1.0) unstable; urgency=low",
        "pkg () unstable; urgency=low",
        "PKG (1.0) UNSTABLE; URGENCY=LOW",
        "_pkg (1.0) unstable; urgency=low",
        "é (1.0) unstable; urgency=low",
        "pkg (1.0)\u00a0unstable; urgency=low",
        " pkg (1.0) unstable; urgency=low",
    ],
    "modeline": ["vim: set ts=2:", "VIM:x", " vim: x", "Local variables:", ";; Local Variables:",
                 "local variables: x", ";;Local variables:"],
    "comment": ["# comment", "#nocomment", "#", "# ", "/* c */", "/* unterminated", "/**/x",
                "$Id: changelog 1 $", "$Header$", "$Id:$"],
    # the eight old-format patterns
    "oldformat": [
        "Mon Jan  1 00:00:00 UTC 2000 John Doe <j@d.org>",
        "Mon Jan 1, 2000 John Doe (j@d.org)",
        "pkg (1.0)", "pkg (1.0);", "pkg (1.0) unstable",
        "pkg-1.0 Debian 1",
        "Changes from version 1 to 2:",
        "Changes for pkg-1.0:",
        "Old Changelog:",
        "1:foo:", "foo:", "junk",
    ],
    "odd": ["", " ", "  ", "\t", "\u00a0", "\x0c", "a\rb", "  * a\x0cb", "\x0b", "\x1c", "\x85", "x\u2028y",
            "  x\x85", "\r", "  * crlf\r", "\ufeff", "\x00"],
    "change": ["  * extra", "    continuation", "  [ Name ]", "\t\ttabs", " \t* mixed"],
}
JUNK = [l for k in sorted(JUNK_CLASSES) for l in JUNK_CLASSES[k]]
# one draw; every class equally likely, the three silent-state classes twice as likely
_WEIGHT = {"modeline": 56, "comment": 60, "oldformat": 60}
_BALANCED = [JUNK_CLASSES[k][i % len(JUNK_CLASSES[k])] for k in sorted(JUNK_CLASSES)
             for i in range(_WEIGHT.get(k, 28))]
junk_lines = st.sampled_from(_BALANCED)

WIDE = ("abAB019zZ:#-.,;=+~()<>*$/ \t\r\x0b\x0c\x1c\x1d\x1e\x1f\x85\u00a0\u1680\u2000\u2028\u2029\u3000"
        "\u0301éß漢\U0001d4b3\x00\x7f\ufeff\u0661")
wide_lines = st.text(alphabet=WIDE, max_size=12)
any_lines = st.text(alphabet=st.characters(blacklist_characters="\n", blacklist_categories=("Cs",)),
                    max_size=12)

N_HEADER_DAMAGE = 15
N_TRAILER_DAMAGE = 13


def damage_header(h, k):
    """The k-th way of spoiling a well-formed header line."""
    front = h.split(";")[0]
    k %= N_HEADER_DAMAGE
    if k == 0:
        return front + ";"
    if k == 1:
        return front
    if k == 2:
        return h + ", urgency=high"
    if k == 3:
        return h.replace("; urgency=", ";urgency=", 1)
    if k == 4:
        return front + "; urgency=!!"
    if k == 5:
        return h.replace("; urgency=", "; x=y, urgency=", 1)
    if k == 6:
        return h + ", a=1, A=2"
    if k == 7:
        return h.replace(" (", " (1_", 1)
    if k == 8:
        return h.replace(" (", "  (", 1)
    if k == 9:
        return h + ","
    if k == 10:
        return h.upper()
    if k == 11:
        return " " + h
    if k == 12:
        return h.replace("; urgency=", " ; urgency=", 1)
    if k == 13:
        return h + ", a=1, a=2"
    return front + "; urgency"


def damage_trailer(t, k):
    """The k-th way of spoiling a well-formed trailer line."""
    i = t.rfind(">  ")
    k %= N_TRAILER_DAMAGE
    if k == 0:
        return t[:i] + "> " + t[i + 3:]
    if k == 1:
        return t[:i] + ">   " + t[i + 3:]
    if k == 2:
        return " --"
    if k == 3:
        return " --  "
    if k == 4:
        return t[:i + 1]
    if k == 5:
        return t[1:]
    if k == 6:
        return t[:i] + ">  yesterday"
    if k == 7:
        return t + " x"
    if k == 8:
        return t.replace(" <", " ", 1)
    if k == 9:
        return t.rstrip(" \t")[:-2]
    if k == 10:
        return "  " + t
    if k == 11:
        return t[:i + 3] + t[i + 3:].rstrip(" \t").replace(" ", "  ")
    return t + "\r"


def _roled_lines(struct):
    out = [("lead", l) for l in struct["lead"]]
    for b in struct["blocks"]:
        out.append(("header", header_line(b)))
        out.extend(("change", l) for l in b["changes"])
        out.append(("trailer", trailer_line(b)))
        out.extend(("after", l) for l in b["after"])
    return out


_OPS = (["ins"] * 3 + ["ins-after-trailer"] * 3 + ["ins-top"] + ["damage-header"] * 3 + ["damage-trailer"] * 3
        + ["del"] * 2 + ["dup", "swap"])
# repeated-key, bad-urgency and single-blank-separator damage get extra weight: each is the only
# way into one message class of the parser
_HEADER_DAMAGES = list(range(N_HEADER_DAMAGE)) + [2, 4, 13, 14, 9]
_TRAILER_DAMAGES = list(range(N_TRAILER_DAMAGE)) + [0, 0, 0, 2, 3]


_index_cache = {}


def _index(n):
    """Uniform position in range(n) (one cached strategy per n)."""
    if n not in _index_cache:
        _index_cache[n] = st.sampled_from(range(n))
    return _index_cache[n]


_nops = {m: st.sampled_from([0, 1, 1, 2, 2, 3, 3, m][:4 + m]) for m in (1, 2, 3, 4)}
_op = st.sampled_from(_OPS)
_truncate = st.sampled_from([False] * 7 + [True])
_inserted = st.one_of(junk_lines, junk_lines, junk_lines, junk_lines, wide_lines)
_header_damage = st.sampled_from(_HEADER_DAMAGES)
_trailer_damage = st.sampled_from(_TRAILER_DAMAGES)


@st.composite
def _mutated_lines(draw, max_ops):
    rl = _roled_lines(draw(structs(max_blocks=3)))
    if draw(_truncate):
        # plain truncation: the classical way to end up inside a block at end of input
        del rl[1 + draw(_index(len(rl))):]
    nops = draw(_nops[max_ops])
    for _ in range(nops):
        op = draw(_op)
        if op in ("ins", "ins-after-trailer", "ins-top"):
            new = draw(_inserted)
            if op == "ins":
                pos = draw(_index(len(rl) + 1))
            elif op == "ins-top":
                pos = 0
            else:
                spots = [i + 1 for i, (r, _) in enumerate(rl) if r in ("trailer", "after")]
                pos = spots[draw(_index(len(spots)))] if spots else len(rl)
            rl.insert(pos, ("junk", new))
            continue
        if not rl:
            continue
        if op in ("damage-header", "damage-trailer"):
            role = op.split("-")[1]
            spots = [i for i, (r, _) in enumerate(rl) if r == role]
            if not spots:
                continue
            i = spots[draw(_index(len(spots)))]
            if role == "header":
                line = damage_header(rl[i][1], draw(_header_damage))
            else:
                line = damage_trailer(rl[i][1], draw(_trailer_damage))
            rl[i] = ("junk", line)
            continue
        p = draw(_index(len(rl)))
        if op == "del":
            del rl[p]
        elif op == "dup":
            rl.insert(draw(_index(len(rl) + 1)), rl[p])
        else:
            q = (p + 1) % len(rl)
            rl[p], rl[q] = rl[q], rl[p]
    return [l for _, l in rl]


_mutated_st = {m: _mutated_lines(m) for m in (1, 2, 3, 4)}


def mutated_lines(max_ops=4):
    """Lines of a well-formed changelog after 0..max_ops line operations.

    Operations: insert a pool/wide line anywhere, right after a trailer (or the blank lines that
    follow it) or at the top; spoil a header or a trailer in place; delete, duplicate (to anywhere)
    or swap lines; one case in eight is first truncated.  Positions are drawn uniformly
    (``sampled_from``), not with the small-value bias of ``integers``.
    """
    return _mutated_st[max_ops]


_free_st = st.lists(st.one_of(junk_lines, junk_lines, junk_lines, wide_lines, any_lines, change_lines,
                              blank_lines), min_size=0, max_size=8)


def free_lines():
    """Arbitrary documents: junk-pool lines, wide-alphabet lines, arbitrary Unicode lines."""
    return _free_st
