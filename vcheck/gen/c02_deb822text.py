"""Generators and plain-data helpers for Deb822 paragraphs (shared by C02 and C08).

Everything here is *data about the control-file format*, not a model of the parser:

* ``FIELDNAME`` - Policy 5.1 field names (US-ASCII 33..126 except ':', not starting with '#'/'-');
* ``TEXT``      - a deliberately small pool of ``str.isprintable()`` characters: ASCII letters and
                  digits, the format's meta characters, and letters from the 2-, 3- and 4-byte UTF-8
                  ranges.  Blanks are SPACE and TAB only;
* a *value* is ``[first, [cont, ...]]``: the text after "Name:" on the first line (any blanks
  allowed around it, may be empty) and continuation lines, each of which starts with a blank and
  contains at least one non-blank character.  The value string is ``first + "".join("\\n" + c)``.

The strategies construct valid data (no filtering).  ``valid_name``/``valid_value`` re-check the
same rules on plain JSON so that an oracle can refuse a hand-written replay file that is outside
the domain instead of reporting nonsense.
"""
from hypothesis import strategies as st

BLANKS = " \t"
LETTERS = "abzAZ"
DIGITS = "019"
META = ":#,-.;=<>()[]|!~+*?\\/@\"'$%&_`^{}"
# incl. text that is NOT in a Unicode normal form: a combining accent (after any letter),
# ANGSTROM SIGN, OHM SIGN, a Hangul jamo pair - values are kept as written, never normalised
NONASCII = "éß漢\U0001d4b3\u0301\u212b\u2126\u1100\u1161"
POOL = LETTERS + DIGITS + META + NONASCII          # non-blank TEXT characters

NAME_CHARS = "".join(chr(c) for c in range(33, 127) if chr(c) != ":")
NAME_FIRST = "".join(c for c in NAME_CHARS if c not in "#-")
# field names given a meaning by the multivalued classes used as readers in C02 (Dsc, Changes):
# their values are *records*, which is property C12's business
RESERVED_NAMES = frozenset(["files", "checksums-sha1", "checksums-sha256", "checksums-sha512"])

COMMON_NAMES = ["Package", "Version", "Description", "Depends", "Source", "Maintainer",
                "Architecture", "X-Comment", "Format", "A", "B", "a", "K", "Z"]


# ------------------------------------------------------------------------------------------
# plain-data predicates


def is_text(s, extra=""):
    """Every character is printable (SPACE included) or listed in ``extra``."""
    return all(ch.isprintable() or ch in extra for ch in s)


def valid_name(n):
    return (isinstance(n, str) and n != "" and n[0] in NAME_FIRST
            and all(c in NAME_CHARS for c in n) and n.lower() not in RESERVED_NAMES)


def valid_value(v):
    """``v == [first, [cont...]]`` inside the domain of C02."""
    if not (isinstance(v, list) and len(v) == 2 and isinstance(v[0], str) and isinstance(v[1], list)):
        return False
    first, cont = v
    if not is_text(first, "\t"):
        return False
    for c in cont:
        if not (isinstance(c, str) and c != "" and c[0] in BLANKS and is_text(c, "\t")
                and c.strip(BLANKS) != ""):
            return False
    return True


def valid_fields(fields):
    """A paragraph: non-empty list of ``[name, value]`` with names distinct ignoring case."""
    if not isinstance(fields, list) or not fields:
        return False
    seen = set()
    for f in fields:
        if not (isinstance(f, list) and len(f) == 2 and valid_name(f[0]) and valid_value(f[1])):
            return False
        if f[0].lower() in seen:
            return False
        seen.add(f[0].lower())
    return True


def value_string(v):
    return v[0] + "".join("\n" + c for c in v[1])


def normalised(v):
    """What a re-parse must give: first line trimmed of blanks, continuation lines verbatim."""
    return v[0].strip(BLANKS) + "".join("\n" + c for c in v[1])


# ------------------------------------------------------------------------------------------
# strategies

_pool_char = st.sampled_from(POOL)
_any_char = st.sampled_from(POOL + "  \t")            # blanks inside text, SPACE twice as likely
_blanks = st.text(alphabet=st.sampled_from(BLANKS), max_size=2)

core_text = st.text(alphabet=_any_char, max_size=8)    # may be empty, may be blank-only


@st.composite
def nonblank_text(draw):
    """Text with at least one non-blank character (blanks possible anywhere)."""
    return draw(core_text) + draw(_pool_char) + draw(core_text)


SPECIAL_FIRST = ["", " ", "\t", ":", ": x", "#", "#c", "# c: d", "B: c", "a:b", "-----BEGIN PGP SIGNED MESSAGE-----",
                 "-", ".", "x\t", "x \t", "\tx", "  x  ", "1.0-1", "foo (>= 1.0), bar [amd64] | baz <!nocheck>",
                 "é", "漢\U0001d4b3 ß", "e\u0301 A\u030a \u212b \u2126 \u1100\u1161"]
SPECIAL_CONT = [" .", " #x", "\t#x", " B: x", "\tX: y", " -----BEGIN PGP SIGNED MESSAGE-----",
                " -----END PGP SIGNATURE-----", " :", " a:", "  x", " x\t", " x \t ", "\t\tx", " \tx",
                " é:漢", " - item", " n\u0303o \u212b"]

first_line = st.one_of(
    st.sampled_from(SPECIAL_FIRST),
    st.builds(lambda a, b, c: a + b + c, _blanks, core_text, _blanks),
    st.builds(lambda a, b, c: a + b + c, st.sampled_from([":", "#", " :", "\t#", "-"]), core_text, _blanks),
    nonblank_text(),
)

cont_line = st.one_of(
    st.sampled_from(SPECIAL_CONT),
    st.builds(lambda lead, ind, body, trail: lead + ind + body + trail,
              st.sampled_from(BLANKS), _blanks, nonblank_text(), _blanks),
    st.builds(lambda lead, ind, body, trail: lead + ind + body + trail,
              st.sampled_from(BLANKS), _blanks, nonblank_text(), _blanks),
)

value = st.tuples(first_line, st.one_of(st.just([]), st.just([]), st.lists(cont_line, min_size=1, max_size=3)))

_name_first = st.sampled_from("aZ9!\"$;~X_0+./@(" + "bB")
_name_rest = st.text(alphabet=st.sampled_from("abAB-#.09_+~;!"), max_size=5)
field_name = st.one_of(
    st.sampled_from(COMMON_NAMES),
    st.builds(lambda a, b: a + b, _name_first, _name_rest),
    st.builds(lambda a, b: a + b, st.sampled_from(NAME_FIRST), st.text(alphabet=st.sampled_from(NAME_CHARS), max_size=4)),
)


@st.composite
def fields(draw, min_size=1, max_size=5):
    """A paragraph as a list of [name, [first, [cont...]]]; names distinct ignoring case."""
    names = draw(st.lists(field_name, min_size=min_size, max_size=max_size))
    out, seen = [], set()
    for n in names:
        if n.lower() in seen or n.lower() in RESERVED_NAMES:
            n = n + "-%d" % len(out)            # still a valid name, and now distinct
            if n.lower() in seen:
                continue
        seen.add(n.lower())
        out.append([n, list(draw(value))])
    if not out:
        out.append(["A", list(draw(value))])
    return out


comment_text = st.one_of(
    st.sampled_from(["", " c", " A: b", "A: b", " ", "\t", "#", " -----BEGIN PGP SIGNED MESSAGE-----",
                     "-----BEGIN PGP SIGNATURE-----", " é: 漢"]),
    core_text,
)   # a comment line is "#" + this
