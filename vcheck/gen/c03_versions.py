"""Version generators shared by C03 (comparison) and C14 (syntax / decomposition).

Everything here *constructs* valid versions ([epoch:]upstream[-revision]; a hyphen in the upstream
part only when a revision follows, a colon only when an epoch is present, no empty part) -- no
filtering.  Pools are plain deterministic lists; strategies are Hypothesis strategies.

The last sections are used by C03 only: versions with *long digit runs* (wider than any
machine word, with and without zero padding), *assignment attempts* on a live version object
(values over the version alphabet, most of them refused only by the colon / hyphen rules), the
*class* of each operand, version objects *obtained another way* (copies, pickles, constructor
calls with an object) that are then changed, and operands that are *plain strings* (either side).
"""
import itertools

from hypothesis import strategies as st

DIGITS = "0123456789"


def render(e, u, r):
    return ("" if e is None else e + ":") + u + ("" if r is None else "-" + r)


# ------------------------------------------------------------------------------------------
# bounded pools (C03 exhaustive pair enumeration)

POOL_ALPHA = "019aZ+.~"          # '-' is added only where a revision follows
LEAD_DIGITS = "019"
REVS = ["0", "00", "1", "~", "a", "1~"]
EPOCHS = ["0", "1"]

U_SMALL = ["0", "1", "00", "01", "10", "1~", "1a", "1+", "1.", "1.0", "1.a", "1~~", "a", "~", "1a~", "0.1"]
U_TINY = ["0", "1", "1.0", "1~"]


def _dedupe(seq):
    seen, out = set(), []
    for v in seq:
        if v not in seen:
            seen.add(v)
            out.append(v)
    return out


def _strings(alpha, n):
    for t in itertools.product(alpha, repeat=n):
        yield "".join(t)


def pool(tier):
    """The version pool whose pairs are enumerated; ~600 strings (quick), ~7 000 (thorough)."""
    big = tier != "quick"
    maxlen = 4 if big else 3
    out = []
    # bare upstream versions: every digit-led string up to maxlen, every other string one shorter
    for n in range(1, maxlen + 1):
        for s in _strings(POOL_ALPHA, n - 1):
            for d in LEAD_DIGITS:
                out.append(d + s)
    for n in range(1, maxlen):
        for s in _strings(POOL_ALPHA, n):
            if s[0] not in LEAD_DIGITS:
                out.append(s)
    small = list(U_SMALL)
    tiny = list(U_TINY)
    if big:
        small = _dedupe(small + [d + s for n in (1, 2) for s in _strings(POOL_ALPHA, n) for d in "01"]
                        + ["a1", "a01", "~1", "+", ".", "Z", "a~", "a+"])
        tiny = _dedupe(tiny + ["00", "01", "1a", "1.", "a", "1.00", "1~~", "1+"])
    for u in small:
        for e in EPOCHS:
            out.append(render(e, u, None))
        for r in REVS:
            out.append(render(None, u, r))
    for u in tiny:
        for e in EPOCHS + ["01", "00"]:
            for r in REVS:
                out.append(render(e, u, r))
    # hyphens inside the upstream part, colons inside the upstream part
    for u in ["1-1", "1-0", "1-", "1-~", "0-0-0", "1-a"]:
        for r in ["0", "1", "~"]:
            out.append(render(None, u, r))
            out.append(render("0", u, r))
    for u in ["1:1", "1:", "0:0", "1:~"]:
        out.append(render("0", u, None))
        out.append(render("1", u, "0"))
    out.extend(["01:1", "00:1", "10:1", "2:0", "9:~"])
    return _dedupe(out)


# ------------------------------------------------------------------------------------------
# grammar (Hypothesis)

# NB: st.one_of() de-duplicates its arguments, so weights are expressed by repetition inside
# sampled_from() lists (which keeps duplicates), never by repeating a strategy.
_EPOCHS_SMALL = [None] * 8 + ["0", "0", "0", "1", "1", "12", "007", "01", "00", "2"]
epoch_st = st.sampled_from(_EPOCHS_SMALL * 3 + ["4294967296", "99999999999"])
# no huge epochs: for everything that is also handed to the dpkg binary
small_epoch_st = st.sampled_from(_EPOCHS_SMALL)

DIGIT_RUNS = ["0", "1", "2", "9", "10", "00", "01", "007", "12", "123", "20060611", "09"]
LETTER_RUNS = ["a", "b", "z", "A", "Z", "rc", "alpha", "beta", "pre", "dfsg", "ubuntu", "sarge", "E"]
PUNCT_REV = [".", ".", ".", "+", "~", "~", "~~", "+~", ".~", "++"]
PUNCT_UP = PUNCT_REV + ["-", "-", "-", "--", "-~"]
PUNCT_COLON = [":", ":", ".:", ":~"]
digit_run = st.sampled_from(DIGIT_RUNS)
letter_run = st.sampled_from(LETTER_RUNS)


def _tokens(first, token, max_tokens):
    return st.builds(lambda f, ts: f + "".join(ts), first, st.lists(token, min_size=0, max_size=max_tokens))


def _component(punct, max_tokens, lead_digit_weight):
    tok = st.sampled_from(DIGIT_RUNS * 2 + LETTER_RUNS + punct * 2)
    first = st.sampled_from(DIGIT_RUNS * lead_digit_weight + LETTER_RUNS + PUNCT_REV)
    return _tokens(first, tok, max_tokens)


def revision_st(max_tokens=4):
    return st.one_of(
        st.sampled_from(["0", "00", "1", "~", "a", "1~", "0.1", "1+b1", "1ubuntu1", "0~", "035+1"]),
        _component(PUNCT_REV, max_tokens, 3))


def _upstream_st(hyphen_ok, colon_ok, max_tokens=6):
    """Upstream part: digit-led about 6 times out of 7; '-' / ':' only when the caller allows them."""
    punct = (PUNCT_UP if hyphen_ok else PUNCT_REV) + (PUNCT_COLON if colon_ok else [])
    return _component(punct, max_tokens, 12)


# strategies are built once: building them inside a composite costs milliseconds per example
_UPSTREAM = {(h, c): _upstream_st(h, c) for h in (False, True) for c in (False, True)}
_REVISION = revision_st()
_OPT_REVISION = st.one_of(st.none(), _REVISION)
_ONE_IN_FOUR = st.integers(0, 3)


def upstream_st(hyphen_ok=False, colon_ok=False):
    return _UPSTREAM[(bool(hyphen_ok), bool(colon_ok))]


@st.composite
def _version_parts(draw, small_epochs):
    e = draw(small_epoch_st if small_epochs else epoch_st)
    r = draw(_OPT_REVISION)
    hyphen_ok = r is not None and draw(_ONE_IN_FOUR) == 0
    colon_ok = e is not None and draw(_ONE_IN_FOUR) == 0
    u = draw(_UPSTREAM[(hyphen_ok, colon_ok)])
    return [e, u, r]


@st.composite
def _separator_rich_parts(draw):
    """Like _version_parts (large epochs included), but a revision is present 3 times out of 4 and an epoch 5
    times out of 9, and when present the upstream part may contain hyphens / colons every second time (not every
    fourth): versions with two or more hyphens / colons are common."""
    e = draw(epoch_st)
    r = draw(_REVISION) if draw(_ONE_IN_FOUR) else None
    hyphen_ok = r is not None and draw(_BOOL)
    colon_ok = e is not None and draw(_BOOL)
    u = draw(_UPSTREAM[(hyphen_ok, colon_ok)])
    return [e, u, r]


_BOOL = st.booleans()
_PARTS = {False: _version_parts(False), True: _version_parts(True), "separator-rich": _separator_rich_parts()}


def version_parts(small_epochs=False):
    return _PARTS[bool(small_epochs)]


def version_st(small_epochs=False):
    return version_parts(small_epochs=small_epochs).map(lambda p: render(*p))


# ------------------------------------------------------------------------------------------
# near-miss mutations: (parts, op) -> parts of another valid version

EQ_OPS = ["pad-zero", "strip-zero", "rev-zero", "epoch-zero", "epoch-pad", "append-zero"]
NEAR_OPS = ["insert-tilde", "append", "swap-punct", "letter-to-plus", "delete", "bump-digit", "bump-epoch",
            "insert-letter", "rev-change", "insert-digit"]
ALL_OPS = EQ_OPS + NEAR_OPS


def _digit_runs(s):
    runs, i = [], 0
    while i < len(s):
        if s[i] in DIGITS:
            k = i
            while i < len(s) and s[i] in DIGITS:
                i += 1
            runs.append((k, i))
        else:
            i += 1
    return runs


def _ok_component(s, which, e, r):
    """Would ``s`` still be a legal upstream (which=1) / revision (which=2) in this version?"""
    if s == "":
        return False
    if which == 1:
        if "-" in s and r is None:
            return False
        if ":" in s and e is None:
            return False
    return True


def mutate(parts, op, which, pos, extra):
    """Apply one mutation; every argument is plain data so the result is a function of the draw.

    ``which`` selects upstream (1) or revision (2) when the op works on a component; ``pos`` is an
    index taken modulo whatever it indexes; ``extra`` selects among alternatives.
    """
    e, u, r = parts
    comp = 2 if (which == 2 and r is not None) else 1
    s = r if comp == 2 else u

    def put(new):
        if not _ok_component(new, comp, e, r):
            return [e, u, r]
        return [e, u, new] if comp == 2 else [e, new, r]

    if op == "pad-zero":
        runs = _digit_runs(s)
        if not runs:
            return put(s + "0")
        k = runs[pos % len(runs)][0]
        return put(s[:k] + "0" * (1 + extra % 2) + s[k:])
    if op == "strip-zero":
        runs = [(a, b) for a, b in _digit_runs(s) if b - a > 1 and s[a] == "0"]
        if not runs:
            return [e, u, r]
        a, b = runs[pos % len(runs)]
        return put(s[:a] + s[a + 1:])
    if op == "rev-zero":
        if r is None:
            return [e, u, ["0", "00", "0"][extra % 3]]
        if r.strip("0") == "" and "-" not in u:
            return [e, u, None]
        return [e, u, r]
    if op == "epoch-zero":
        if e is None:
            return ["0" if extra % 2 == 0 else "00", u, r]
        if e.strip("0") == "" and ":" not in u:
            return [None, u, r]
        return [e, u, r]
    if op == "epoch-pad":
        if e is None:
            return [e, u, r]
        return ["0" + e, u, r]
    if op == "append-zero":
        if s[-1] in DIGITS:
            return [e, u, r]
        return put(s + "0")
    if op == "insert-tilde":
        k = pos % (len(s) + 1)
        return put(s[:k] + "~" + s[k:])
    if op == "append":
        tail = [".0", "~", "+", "a", ".", "0", "~1", ".0.0", "a0", "+b1"][extra % 10]
        return put(s + tail)
    if op == "swap-punct":
        idx = [i for i, c in enumerate(s) if c in ".+~"]
        if not idx:
            return [e, u, r]
        i = idx[pos % len(idx)]
        return put(s[:i] + ".+~"[extra % 3] + s[i + 1:])
    if op == "letter-to-plus":
        idx = [i for i, c in enumerate(s) if c.isalpha()]
        if not idx:
            return [e, u, r]
        i = idx[pos % len(idx)]
        return put(s[:i] + "+.~Za"[extra % 5] + s[i + 1:])
    if op == "delete":
        if len(s) < 2:
            return [e, u, r]
        i = pos % len(s)
        return put(s[:i] + s[i + 1:])
    if op == "bump-digit":
        idx = [i for i, c in enumerate(s) if c in DIGITS]
        if not idx:
            return [e, u, r]
        i = idx[pos % len(idx)]
        return put(s[:i] + DIGITS[(DIGITS.index(s[i]) + 1 + extra % 9) % 10] + s[i + 1:])
    if op == "bump-epoch":
        if e is None:
            return ["1", u, r]
        return [str(int(e) + 1), u, r] if extra % 2 == 0 else [e + "0", u, r]
    if op == "insert-letter":
        k = pos % (len(s) + 1)
        return put(s[:k] + "aZb"[extra % 3] + s[k:])
    if op == "insert-digit":
        k = pos % (len(s) + 1)
        return put(s[:k] + "019"[extra % 3] + s[k:])
    if op == "rev-change":
        if r is None:
            return [e, u, ["1", "~", "a", "0.1", "1~"][extra % 5]]
        if "-" in u:
            return [e, u, r]
        return [e, u, None]
    return [e, u, r]


mutation_st = st.tuples(
    st.sampled_from(NEAR_OPS * 2 + EQ_OPS),
    st.integers(1, 2), st.integers(0, 40), st.integers(0, 29))
eq_mutation_st = st.tuples(st.sampled_from(EQ_OPS), st.integers(1, 2), st.integers(0, 40), st.integers(0, 29))


def mutate_effective(parts, op, which, pos, extra):
    """Like mutate(), but an op that does not apply falls through to the next op of its own family
    (equality-preserving / near-miss), so that a requested mutation is rarely a no-op."""
    family = EQ_OPS if op in EQ_OPS else NEAR_OPS
    k = family.index(op) if op in family else 0
    for d in range(len(family)):
        out = mutate(parts, family[(k + d) % len(family)], which, pos, extra)
        if out != parts:
            return out
    return parts


def apply_mutations(parts, muts):
    for op, which, pos, extra in muts:
        parts = mutate_effective(list(parts), op, which, pos, extra)
    return parts


_MUTS_13 = st.lists(mutation_st, min_size=1, max_size=3)
_MUTS_12 = st.lists(mutation_st, min_size=1, max_size=2)
_EQ_MUTS_13 = st.lists(eq_mutation_st, min_size=1, max_size=3)
_MODE = st.integers(0, 9)
_PERM = st.integers(0, 5)


@st.composite
def _near_pair(draw, small_epochs):
    p = draw(_PARTS[small_epochs])
    mode = draw(_MODE)
    if mode == 0:
        q = draw(_PARTS[small_epochs])
    elif mode <= 2:
        q = apply_mutations(p, draw(_EQ_MUTS_13))
    else:
        q = apply_mutations(p, draw(_MUTS_13))
    a, b = render(*p), render(*q)
    if draw(_BOOL):
        a, b = b, a
    return {"kind": "pair", "a": a, "b": b}


_NEAR_PAIR = {False: _near_pair(False), True: _near_pair(True), "separator-rich": _near_pair("separator-rich")}


def near_pair(small_epochs=False):
    """(a, b): b is a mutation of a (1-3 steps), an equality-preserving respelling, or independent."""
    return _NEAR_PAIR[small_epochs if small_epochs == "separator-rich" else bool(small_epochs)]


@st.composite
def _near_triple(draw):
    p = draw(_PARTS[False])
    q = apply_mutations(p, draw(_MUTS_12))
    base = q if draw(_BOOL) else p
    t = apply_mutations(base, draw(_MUTS_12))
    vs = [render(*p), render(*q), render(*t)]
    vs = list(list(itertools.permutations(vs))[draw(_PERM)])
    return {"kind": "triple", "vs": vs}


_NEAR_TRIPLE = _near_triple()


def near_triple():
    return _NEAR_TRIPLE


# ------------------------------------------------------------------------------------------
# long digit runs (C03): numbers wider than 9 / 18 / 19 / 20 characters, zero padded or not

P32, P53, P63, P64 = 2 ** 32, 2 ** 53, 2 ** 63, 2 ** 64
W19 = "1234567890123456789"
W40 = "1234567890" * 4
W120 = "9876543210" * 12

# values are written without leading zeros; the padding is a separate dimension
LONG_SMALL = ["5", "7", "12", "13", "34", "345"]
LONG_SMALL_PADS = [0, 1, 9, 17, 18, 19, 20, 40]
LONG_EDGE = [str(n) for n in (P32 // 2 - 1, P32 // 2, P32 - 1, P32, P32 + 1, P32 + 12, P53, P53 + 1,
                              P63 - 1, P63, P64 - 1, P64, P64 + 1, P64 + 12)]
LONG_WIDE = ["9" * 20, "1" + "0" * 20,                              # text order opposite to numeric order
             W19, W19[:-1] + "0", "2" + W19[1:],                    # last / first digit differs
             W40, W40[:-1] + "1", W40[:24] + "7" + W40[25:], W40[:-1],   # differs beyond 18/19/20 digits
             W120, W120[:-1] + "3", W120[:60] + "0" + W120[61:]]
LONG_PADS = [0, 1, 20]
ZERO_RUNS = ["0" * n for n in (1, 2, 18, 19, 20, 41)]

# the numbers that are also placed in other positions of a version
LONG_CORE = ["5", "0" * 20 + "7", "12", "0" * 20 + "12", "0" * 20 + "13", "34", "0" * 17 + "34",
             W19, "0" + W19, W19[:-1] + "0", str(P64 + 12), "0" * 20]
LONG_TAILS = ["", "-1", "-2", "+b1", ".5", "~"]             # what follows the run decides on a tie
LONG_PLACES = ["%s", "a%s", "1.0-%s", "1.0-1.%s", "1:%s"]   # bare, after a letter, in the revision, after an epoch
LONG_EPOCH_PLACES = ["%s:1", "%s:1-1"]                      # the epoch itself (never handed to the dpkg binary)


def long_numbers():
    out = [("0" * z) + v for v in LONG_SMALL for z in LONG_SMALL_PADS]
    out += [("0" * z) + v for v in LONG_EDGE + LONG_WIDE for z in LONG_PADS]
    return _dedupe(out + ZERO_RUNS)


def long_run_groups():
    """Lists of versions; ALL ordered pairs *within* each list are enumerated by C03."""
    return [
        ["1." + n for n in long_numbers()] + ["1"],
        ["1." + n + t for n in LONG_CORE for t in LONG_TAILS],
        [p % n for n in LONG_CORE for p in LONG_PLACES],
        [p % n for n in LONG_CORE for p in LONG_EPOCH_PLACES],
    ]


def long_run_pool():
    return _dedupe([v for g in long_run_groups() for v in g])


_NONZERO = st.sampled_from("123456789")
_WIDTHS = st.sampled_from([1, 2, 3, 9, 10, 11, 15, 16, 17, 18, 19, 20, 21, 22, 25, 39, 40, 41, 100])
_PADS = st.sampled_from([0, 0, 0, 1, 2, 3, 8, 9, 10, 16, 17, 18, 19, 20, 21, 30, 45])
_VARIANT = st.tuples(st.sampled_from(["same", "same", "digit", "digit", "digit", "last", "first", "drop", "grow",
                                      "plus1", "minus1", "wrap32", "wrap64"]),
                     st.integers(0, 120), st.integers(1, 9))
_LONG_FRAME = st.sampled_from(
    [("u", p, t) for p in ["", "1.", "1.", "1.", "a", "1.0+", "2~", "0.0."] for t in ["", "", ".5", "+b1", "~", "a", ".0"]]
    + [("r", p, t) for p in ["", "", "1.", "b"] for t in ["", "", "~", "+b1", ".1"]]
    + [("e", "", "")] * 4)
_LONG_REV = st.sampled_from([None, None, "1", "1", "2", "0", "~"])


def _variant(value, op, pos, d):
    """Another number close to ``value`` (a digit string without leading zeros)."""
    if op == "digit" or op == "last" or op == "first":
        i = {"digit": pos % len(value), "last": len(value) - 1, "first": 0}[op]
        c = DIGITS[(DIGITS.index(value[i]) + d) % 10]
        if i == 0 and c == "0":
            c = "1" if value[0] != "1" else "2"
        return value[:i] + c + value[i + 1:]
    if op == "drop":
        return value[:-1] or "0"
    if op == "grow":
        return value + DIGITS[d]
    if op == "plus1":
        return str(int(value) + 1)
    if op == "minus1":
        return str(max(0, int(value) - 1))
    if op == "wrap32":
        return str(int(value) + d * P32)
    if op == "wrap64":
        return str(int(value) + d * P64)
    return value


def _frame(frame, number, rev):
    where, prefix, tail = frame
    if where == "e":
        return render(number, "1", rev)
    if where == "r":
        return render(None, "1.0", prefix + number + tail)
    return render(None, prefix + number + tail, rev)


@st.composite
def _long_run_case(draw):
    """A pair / triple whose versions carry the same frame around nearby numbers of independent
    zero padding; the tail after the number and the revision may differ so that a tie in the
    number is decided by what follows."""
    w = draw(_WIDTHS)
    value = draw(_NONZERO) + "".join(draw(st.lists(st.sampled_from(DIGITS), min_size=w - 1, max_size=w - 1)))
    frame = draw(_LONG_FRAME)
    n = 3 if draw(_ONE_IN_FOUR) == 0 else 2
    vs = []
    for k in range(n):
        v = value if k == 0 else _variant(value, *draw(_VARIANT))
        f = frame
        if k and draw(_ONE_IN_FOUR) == 0:
            f = draw(_LONG_FRAME)
            f = f if f[0] == frame[0] else frame
        vs.append(_frame(f, "0" * draw(_PADS) + v, draw(_LONG_REV)))
    if draw(_BOOL):
        vs.reverse()
    if n == 3:
        return {"kind": "triple", "vs": vs}
    return {"kind": "pair", "a": vs[0], "b": vs[1]}


_LONG_RUN_CASE = _long_run_case()


def long_run_case():
    return _LONG_RUN_CASE


# ------------------------------------------------------------------------------------------
# assignment attempts on a live version object (C03)
#
# An attempt is [attribute, value].  The templates build values from the parts of a donor
# version using only characters of the version alphabet; whether the library accepts or refuses
# one depends on the object it is tried on (the oracle does not need to know in advance).

EDIT_ATTRS = ["full_version", "epoch", "upstream_version", "debian_revision"]


def edit_templates(donor_parts):
    e, u, r = donor_parts
    full = render(e, u, r)
    return [
        ["full_version", "a" + full],                 # a letter in front of the epoch: colon without numeric epoch
        ["full_version", full + "-"],                 # nothing after the last hyphen
        ["full_version", ":" + full],                 # empty epoch
        ["full_version", full + ":" + (r or "2")],    # colon after the revision
        ["full_version", u + ":" + full],             # the upstream part where the epoch belongs
        ["full_version", (e or "1") + ":" + u + "-" + (r or "1") + "-"],
        ["full_version", full],                       # accepted: the object becomes the donor
        ["epoch", u],                                 # non-numeric unless the upstream part is a number
        ["epoch", (e or "") + "x"],
        ["epoch", (e or "0") + ":"],
        ["epoch", "-" + (e or "1")],
        ["debian_revision", (r or "a") + ":" + u],    # colon in the revision
        ["debian_revision", (r or "1") + "-"],        # hyphen at the end of the revision
        ["debian_revision", ":"],
        ["upstream_version", u + "-"],                # refused when the object has no revision
        ["upstream_version", u + ":"],                # refused when the object has no epoch
        ["upstream_version", ":" + u],
        ["upstream_version", "-"],
        ["debian_revision", r],                       # accepted (None removes the revision if the upstream allows it)
        ["epoch", e],
    ]


N_EDIT_TEMPLATES = 20

EDIT_STARTS = ["1.0-1", "1:1.0-1", "1.0", "1:1.0", "0:1.0-0", "2.0-1", "1:1.0-2", "1-1-1", "1:1:1-1", "1:1:1",
               "a1", "1.0~rc1-1~", "01:1.00-01", "0", "1.0-a+b", "12:3.4.5+dfsg-6.7"]
EDIT_DONORS = ["2.0-1", "1:2.0-1", "2.0", "3:2.0", "1.0-1", "1:1.0-1", "a", "7", "1:3.0-1-1", "1:2:0", "0-0", "0:0",
               "~", "1:~-~", "1.0+b1", "10"]


def edit_cases():
    """Every start version x every donor, carrying ALL templates as successive attempts on one object
    (each template also first on a fresh object: the list is rotated with the donor index)."""
    for a in EDIT_STARTS:
        for k, b in enumerate(EDIT_DONORS):
            t = edit_templates(_split_parts(b))
            for rot in (k % N_EDIT_TEMPLATES, (k + 7) % N_EDIT_TEMPLATES):
                yield {"kind": "pair", "a": a, "b": b, "edits": t[rot:] + t[:rot]}
            for one in t:
                yield {"kind": "pair", "a": a, "b": b, "edits": [one]}


def _split_parts(v):
    e = None
    i = v.find(":")
    if i >= 0:
        e, v = v[:i], v[i + 1:]
    j = v.rfind("-")
    if j >= 0:
        return [e, v[:j], v[j + 1:]]
    return [e, v, None]


_EDIT_ALPHA = st.sampled_from(list("0011aZ.+~") + [":", ":", "-", "-"])
_FREE_VALUE = st.lists(_EDIT_ALPHA, min_size=0, max_size=6).map("".join)
_TEMPLATE_IDX = st.integers(0, N_EDIT_TEMPLATES - 1)
_EDIT_ATTR = st.sampled_from(EDIT_ATTRS)


@st.composite
def _edited_pair(draw):
    p = draw(_PARTS[False])
    q = apply_mutations(p, draw(_MUTS_12)) if draw(_ONE_IN_FOUR) else draw(_PARTS[False])
    donor = draw(_PARTS[False]) if draw(_ONE_IN_FOUR) == 0 else q
    templates = edit_templates(donor)
    edits = []
    for _ in range(1 + draw(_ONE_IN_FOUR)):
        if draw(_ONE_IN_FOUR) == 0:
            edits.append([draw(_EDIT_ATTR), draw(_FREE_VALUE)])
        else:
            edits.append(templates[draw(_TEMPLATE_IDX)])
    return {"kind": "pair", "a": render(*p), "b": render(*q), "edits": edits}


_EDITED_PAIR = _edited_pair()


def edited_pair():
    """A near-miss pair plus 1-4 assignment attempts (template values built from a donor version, or
    free strings over the version alphabet) to be tried on a live Version(a)."""
    return _EDITED_PAIR


# ------------------------------------------------------------------------------------------
# the class of each operand (C03)
#
# Class names are plain strings; the property module maps them to classes of the version family:
# "Version", "NativeVersion", two user subclasses of Version ("UserVersion": nothing added,
# "TaggedVersion": one extra plain attribute) and "BaseVersion" (the common base class: it cannot
# compare on its own, so it only ever faces an operand of one of the other classes).

FAMILY = ["Version", "NativeVersion", "UserVersion", "TaggedVersion"]
CLASS_PAIRS = ([[x, y] for x in FAMILY for y in FAMILY]
               + [["BaseVersion", y] for y in FAMILY] + [[x, "BaseVersion"] for x in FAMILY])

# versions with many equal-but-differently-spelled partners, plus near neighbours
CLASS_POOL = ["1.0", "1.0-0", "0:1.0", "1.00", "01.0-00", "00:1.0-0", "1.0-1", "1.0-01", "0:1.0-1", "1.00-1",
              "1:1.0", "1:1.0-0", "01:1.00", "1.0~rc", "1.0~rc0", "1.0~", "1.0.0", "1", "1-0", "0:1", "0", "0-0",
              "0:0", "a", "a0", "~", "1:1:1", "1:1:01-0", "1-1-1", "2.0-1", "1.2-1", "1.02-01",
              "1." + "0" * 20 + "12", "1.12-0", "1." + W19, "1.0" + W19 + "-0"]


def class_pair_cases():
    """ALL ordered pairs of CLASS_POOL x all 24 ordered pairs of classes."""
    for a in CLASS_POOL:
        for b in CLASS_POOL:
            for c in CLASS_PAIRS:
                yield {"kind": "pair", "a": a, "b": b, "cls": c}


_CLASS_PAIR = st.sampled_from(CLASS_PAIRS)


@st.composite
def _classed_pair(draw):
    case = dict(draw(_NEAR_PAIR[False]))
    case["cls"] = draw(_CLASS_PAIR)
    return case


_CLASSED_PAIR = _classed_pair()


def classed_pair():
    """A near-miss pair (see near_pair) whose operands are built with independently drawn classes."""
    return _CLASSED_PAIR


# ------------------------------------------------------------------------------------------
# an operand that is a plain string (C03)
#
# The class name "str" in "cls" means: that operand is handed to the operator as the version string
# itself, not as an object (the other operand is an object of one of the FAMILY classes).

STR = "str"
STR_CLASS_PAIRS = [[c, STR] for c in FAMILY] + [[STR, c] for c in FAMILY]
# what the enumeration uses: with ALL ordered pairs (a, b) enumerated and both operand orders evaluated for every
# case, [C, str] already puts every version on either side as the string.  The two library classes face every
# pair; the user subclasses and the string-first spelling take turns (one of the four per pair)
STR_CLASS_PAIRS_FULL = [["Version", STR], ["NativeVersion", STR]]
STR_CLASS_PAIRS_TURNS = [["UserVersion", STR], [STR, "Version"], ["TaggedVersion", STR], [STR, "NativeVersion"]]

# upstream parts with one or more hyphens / colons in every position (first, last, doubled, next to '~')
U_HYPHENS = ["1-1", "1-0", "1-2", "1-", "-1", "1--1", "1-~", "1~-1", "0-0-0", "1-1-1", "1.0-1", "1-a"]
U_COLONS = ["1:1", "1:", ":1", "0:0", "1:-1", "1-1:1"]


def string_operand_pool():
    """CLASS_POOL (equal-but-differently-spelled versions and neighbours) plus versions whose upstream part holds
    hyphens and / or colons, with and without epoch, and their separator-free neighbours."""
    out = list(CLASS_POOL)
    for u in U_HYPHENS:
        for e in (None, "1"):
            for r in ("0", "1", "~"):
                out.append(render(e, u, r))
    for u in U_COLONS:
        for e in ("0", "1"):
            for r in (None, "1") if "-" not in u else ("1", "0"):
                out.append(render(e, u, r))
    out.extend(["1-2", "1-10", "1.0-2", "1:1-1", "1:1-2", "1:1", "0:1-1", "1-~"])
    return _dedupe(out)


def string_operand_cases():
    """ALL ordered pairs of string_operand_pool() x (Version, NativeVersion against the string + one of
    STR_CLASS_PAIRS_TURNS, taking turns along each row and shifted from row to row)."""
    p = string_operand_pool()
    n = len(STR_CLASS_PAIRS_TURNS)
    for i, a in enumerate(p):
        for j, b in enumerate(p):
            for c in STR_CLASS_PAIRS_FULL:
                yield {"kind": "pair", "a": a, "b": b, "cls": c}
            yield {"kind": "pair", "a": a, "b": b, "cls": STR_CLASS_PAIRS_TURNS[(i + j) % n]}


_STR_CLASS_PAIR = st.sampled_from(STR_CLASS_PAIRS)


@st.composite
def _string_operand_pair(draw):
    case = dict(draw(_NEAR_PAIR["separator-rich" if draw(_ONE_IN_FOUR) else False]))
    case["cls"] = draw(_STR_CLASS_PAIR)
    return case


_STRING_OPERAND_PAIR = _string_operand_pair()


def string_operand_pair():
    """A near-miss pair from the full version grammar (three times out of four its separator-rich variant: two or
    more hyphens / colons are common) one of whose operands - either side - is the plain string."""
    return _STRING_OPERAND_PAIR


# ------------------------------------------------------------------------------------------
# version objects obtained another way (C03)
#
# case: {"kind": "objects", "a": version, "b": version, "cls": class name, "warm": bool,
#        "dups": [[source index, how], ...], "edits": [[object index, attribute, value], ...], "order": 0..3}
# Object 0 is cls(a); each entry of "dups" adds one object made from an earlier one (index modulo the
# number of objects so far).  The edits are assignment attempts on any of the live objects.  All live
# objects are observed after every attempt, in index order or (order & 1) in reverse; they are also observed
# before the first attempt unless (order & 2).

HOW_COPY = ["copy", "deepcopy"]
HOW_PICKLE = ["pickle0", "pickle1", "pickle2", "pickle3", "pickle4", "pickle5"]
HOW_CTOR = ["ctor", "str"] + ["ctor:" + c for c in FAMILY]     # cls(object), cls(str(object)), OtherClass(object)
HOW_ALL = HOW_COPY + HOW_PICKLE + HOW_CTOR
HOW_ENUM = ["copy", "deepcopy", "pickle2", "pickle5", "ctor", "str", "ctor:NativeVersion", "ctor:UserVersion"]

OBJECT_STARTS = ["1.0-1", "1:1.0-1", "2.0", "0:1.0-0", "1-1-1", "1.0~rc1-1~"]
OBJECT_DONORS = ["3.0-1", "1:2.0-2", "1.00-01", "7"]


def object_edits(donor_parts):
    """Attempts whose value comes from the donor: the four attributes one by one (mostly accepted), the
    whole string, and two that are refused on most objects."""
    e, u, r = donor_parts
    return [["upstream_version", u], ["debian_revision", r], ["epoch", e], ["full_version", render(e, u, r)],
            ["epoch", "1" if e is None else None], ["upstream_version", u + ":"], ["full_version", render(e, u, r) + "-"]]


def object_cases():
    """start x donor x way of duplicating x which of the two objects is changed x one attempt x whether the
    original had been compared and hashed before it was duplicated (observation order rotates); then, for one
    donor per start, chains: every two ways of duplicating (a duplicate of the duplicate or a second duplicate of
    the original - three live objects) with four attempts spread over the objects; finally duplicates of
    every kind alive together, unchanged."""
    k = 0
    for a in OBJECT_STARTS:
        for b in OBJECT_DONORS:
            edits = object_edits(_split_parts(b))
            for how in HOW_ENUM:
                for edit in edits:
                    for who in (0, 1):
                        for warm in (False, True):
                            k += 1
                            yield {"kind": "objects", "a": a, "b": b, "cls": FAMILY[(k // 7) % len(FAMILY)],
                                   "warm": warm, "dups": [[0, how]], "edits": [[who] + edit], "order": (k // 3) % 4}
    for m, a in enumerate(OBJECT_STARTS):
        for b in OBJECT_DONORS:
            edits = object_edits(_split_parts(b))
            for i, h1 in enumerate(HOW_ENUM if b == OBJECT_DONORS[m % len(OBJECT_DONORS)] else []):
                for j, h2 in enumerate(HOW_ENUM):
                    k += 1
                    n = len(edits)
                    # duplicate of the duplicate / second duplicate of the original; then one attempt on each
                    # object in turn (a different attribute each), observed after every attempt
                    seq = [[(i + t) % 3] + edits[(i + j + t) % n] for t in range(4)]
                    yield {"kind": "objects", "a": a, "b": b, "cls": FAMILY[k % len(FAMILY)], "warm": bool(k % 2),
                           "dups": [[0, h1], [(i + j) % 2, h2]], "edits": seq, "order": (k // 2) % 4}
            # unchanged duplicates of every kind, all alive together
            yield {"kind": "objects", "a": a, "b": b, "cls": "Version", "warm": True,
                   "dups": [[0, h] for h in HOW_ALL], "edits": [], "order": 0}


_HOW = st.sampled_from(HOW_COPY * 6 + HOW_PICKLE * 2 + ["ctor"] * 6 + ["str"] * 2 + HOW_CTOR[2:])
_OBJ_INDEX = st.integers(0, 3)
_FAMILY = st.sampled_from(FAMILY)
_OBJ_DUPS = st.lists(st.tuples(_OBJ_INDEX, _HOW), min_size=1, max_size=3)


@st.composite
def _object_case(draw):
    p = draw(_PARTS[False])
    q = apply_mutations(p, draw(_MUTS_12)) if draw(_ONE_IN_FOUR) else draw(_PARTS[False])
    templates = edit_templates(q) + object_edits(q)
    edits = []
    for _ in range(draw(st.integers(0, 4))):
        mode = draw(_ONE_IN_FOUR)
        if mode == 0:
            edit = [draw(_EDIT_ATTR), draw(_FREE_VALUE)]
        elif mode == 1:
            edit = templates[draw(_TEMPLATE_IDX)]
        else:
            edit = templates[N_EDIT_TEMPLATES + draw(st.integers(0, 6))]
        edits.append([draw(_OBJ_INDEX)] + edit)
    return {"kind": "objects", "a": render(*p), "b": render(*q), "cls": draw(_FAMILY), "warm": draw(_BOOL),
            "dups": [list(d) for d in draw(_OBJ_DUPS)], "edits": edits, "order": draw(_ONE_IN_FOUR)}


_OBJECT_CASE = _object_case()


def object_case():
    """A near-miss pair, 1-3 further objects obtained from earlier ones (copy / deepcopy / pickle / constructor
    call with the object, also of another class) and 0-4 assignment attempts on any of them."""
    return _OBJECT_CASE
