"""Independent writers for the archive formats read by debian.arfile / debian.debfile (C06, C07).

Nothing in here imports the code under test.  The ar writer follows ar(5) literally (fixed-width,
blank-padded decimal header fields, ``\\n`` padding after odd-sized data); tarballs come from the
standard library's ``tarfile`` and the compressors from ``gzip``/``bz2``/``lzma``.  Two external
second writers are wrapped for the differential tiers: binutils ``ar`` and ``dpkg-deb --build``.
All bytes are ``bytes`` here; the property modules convert from/to latin-1 strings at the case
boundary.  Helpers that need files on disk take the directory to work in from the caller (a
per-case ``tempfile.mkdtemp()`` the caller removes).
"""
import bz2
import gzip
import hashlib
import io
import lzma
import os
import shutil
import subprocess
import tarfile

AR_MAGIC = b"!<arch>\n"
AR_FMAG = b"`\n"

AR_BIN = shutil.which("ar")
DPKG_DEB_BIN = shutil.which("dpkg-deb")


# ------------------------------------------------------------------------------------------
# ar


def _col(text, width):
    raw = text if isinstance(text, bytes) else text.encode("ascii")
    if len(raw) > width:
        raise ValueError("%r does not fit in %d columns" % (text, width))
    return raw + b" " * (width - len(raw))


def ar_name_fits(name, style):
    """Can ``name`` (bytes) be stored in the 16-column name field in this style?"""
    if not name or b"/" in name or name != name.strip() or b"\n" in name:
        return False
    return len(name) <= (15 if style == "gnu" else 16)


def ar_header(name, size, mtime=0, uid=0, gid=0, mode=0o100644, style="gnu"):
    """One 60-byte member header.  style 'gnu': ``name/``; 'pad': bare blank-padded name (BSD/dpkg)."""
    field = name + b"/" if style == "gnu" else name
    hdr = (_col(field, 16) + _col("%d" % mtime, 12) + _col("%d" % uid, 6) + _col("%d" % gid, 6)
           + _col("%o" % mode, 8) + _col("%d" % size, 10) + AR_FMAG)
    assert len(hdr) == 60
    return hdr


def ar_archive(members):
    """members: iterable of dicts name(bytes), data(bytes) [, mtime, uid, gid, mode, style].

    Returns (archive bytes, [absolute offset of each member's data]).
    """
    out = [AR_MAGIC]
    pos = len(AR_MAGIC)
    offsets = []
    for m in members:
        data = m["data"]
        hdr = ar_header(m["name"], len(data), m.get("mtime", 0), m.get("uid", 0), m.get("gid", 0),
                        m.get("mode", 0o100644), m.get("style", "gnu"))
        out.append(hdr)
        pos += len(hdr)
        offsets.append(pos)
        out.append(data)
        pos += len(data)
        if len(data) % 2:
            out.append(b"\n")
            pos += 1
    return b"".join(out), offsets


PIECE_KINDS = ("lit", "repeat", "noise", "line")


def _latin1(s):
    return isinstance(s, str) and all(ord(c) < 256 for c in s)


def piece_size(piece):
    """Size in bytes of one piece of a compact content description, or None when it is malformed."""
    if not isinstance(piece, list) or not piece or piece[0] not in PIECE_KINDS:
        return None
    kind = piece[0]
    if kind == "lit":
        return len(piece[1]) if len(piece) == 2 and _latin1(piece[1]) else None
    if len(piece) != 3 or isinstance(piece[2], bool) or not isinstance(piece[2], int) or piece[2] < 0:
        return None
    if kind == "repeat":
        return len(piece[1]) * piece[2] if _latin1(piece[1]) else None
    if isinstance(piece[1], bool) or not isinstance(piece[1], int) or piece[1] < 0:
        return None
    return piece[2]


def expand_pieces(pieces):
    """Member contents from a compact description, so that megabyte-sized cases stay small JSON.

    pieces: list of  ["lit", latin-1 str]            the bytes themselves
                     ["repeat", latin-1 str, count]  the pattern ``count`` times
                     ["noise", seed, size]           ``size`` arbitrary bytes: SHAKE-256 of the seed
                                                     (all 256 values, a newline every ~256 bytes)
                     ["line", seed, size]            the same noise with every ``\\n`` turned into
                                                     ``\\r``: ``size`` bytes without a line end
    Deterministic (no random module, no clock).
    """
    out = []
    for p in pieces:
        if piece_size(p) is None:
            raise ValueError("malformed piece %r" % (p,))
        kind = p[0]
        if kind == "lit":
            out.append(p[1].encode("latin-1"))
        elif kind == "repeat":
            out.append(p[1].encode("latin-1") * p[2])
        else:
            raw = hashlib.shake_256(b"vcheck-c06-noise:%d" % p[1]).digest(p[2])
            out.append(raw.replace(b"\n", b"\r") if kind == "line" else raw)
    return b"".join(out)


def ar_binary_archive(members, workdir):
    """Build the archive with binutils ``ar qcD`` (deterministic: mtime = uid = gid = 0, mode 644).

    Every member is written to its own sub-directory of ``workdir`` so that duplicate names are
    possible (``q`` appends without replacing).  Returns the archive bytes, or None when the
    binary is missing, a name cannot be a file name, or ar fails.
    """
    if AR_BIN is None:
        return None
    paths = []
    for i, m in enumerate(members):
        name = m["name"]
        if name in (b".", b"..") or not ar_name_fits(name, "gnu") or b"\x00" in name:
            return None
        sub = os.path.join(workdir, "m%d" % i)
        os.mkdir(sub)
        path = os.path.join(os.fsencode(sub), name)
        with open(path, "wb") as f:
            f.write(m["data"])
        os.chmod(path, 0o644)
        paths.append(path)
    target = os.path.join(workdir, "binutils.a")
    if not paths:
        return None
    r = subprocess.run([AR_BIN, "qcD", target] + paths, stdout=subprocess.PIPE,
                       stderr=subprocess.PIPE, check=False)
    if r.returncode != 0 or not os.path.exists(target):
        return None
    with open(target, "rb") as f:
        return f.read()


# ------------------------------------------------------------------------------------------
# tar + compression

TAR_FORMATS = {"gnu": tarfile.GNU_FORMAT, "pax": tarfile.PAX_FORMAT, "ustar": tarfile.USTAR_FORMAT}

COMPRESSIONS = ["", "gz", "bz2", "xz", "lzma"]      # "" = stored uncompressed


def tar_bytes(entries, fmt="gnu"):
    """entries: list of (name(str), data(bytes) | None); None makes a directory entry."""
    buf = io.BytesIO()
    with tarfile.open(fileobj=buf, mode="w", format=TAR_FORMATS[fmt], encoding="utf-8") as t:
        for name, data in entries:
            ti = tarfile.TarInfo(name)
            ti.mtime = 0
            ti.uname = ti.gname = "root"
            if data is None:
                ti.type = tarfile.DIRTYPE
                ti.mode = 0o755
                t.addfile(ti)
            else:
                ti.size = len(data)
                ti.mode = 0o644
                t.addfile(ti, io.BytesIO(data))
    return buf.getvalue()


def compress(data, how):
    if how == "":
        return data
    if how == "gz":
        return gzip.compress(data, 6, mtime=0)
    if how == "bz2":
        return bz2.compress(data)
    if how == "xz":
        return lzma.compress(data, format=lzma.FORMAT_XZ, preset=1)
    if how == "lzma":
        return lzma.compress(data, format=lzma.FORMAT_ALONE, preset=1)
    raise ValueError("unknown compression %r" % (how,))


def part_name(base, how):
    """'control.tar' + 'xz' -> b'control.tar.xz'; '' -> b'control.tar'."""
    return (base + ("." + how if how else "")).encode("ascii")


def parent_dirs(names):
    """All proper ancestor directories of the given relative paths, parents first, no repeats."""
    seen, out = set(), []
    for n in names:
        comps = n.split("/")[:-1]
        for k in range(1, len(comps) + 1):
            d = "/".join(comps[:k])
            if d not in seen:
                seen.add(d)
                out.append(d)
    return out


def data_tar(files, fmt="gnu"):
    """files: list of (relative name, bytes).  Stored dpkg-style: './', './dir/', './dir/name'."""
    entries = [("./", None)]
    for d in parent_dirs([n for n, _ in files]):
        entries.append(("./" + d, None))
    for n, d in files:
        entries.append(("./" + n, d))
    return tar_bytes(entries, fmt)


def control_tar(files, fmt="gnu"):
    """files: list of (name, bytes): control, md5sums, maintainer scripts."""
    return tar_bytes([("./", None)] + [("./" + n, d) for n, d in files], fmt)


# ------------------------------------------------------------------------------------------
# dpkg-deb as second writer


def dpkg_deb_build(workdir, control_text, scripts, md5sums, files, compression):
    """Build a package with ``dpkg-deb --build`` from a tree under ``workdir``.

    control_text: bytes; scripts: dict name -> bytes; md5sums: bytes or None; files: list of
    (relative name, bytes); compression: 'gzip' | 'xz' | 'none'.
    Returns (deb bytes | None, diagnostic str).  None: binary missing or dpkg-deb refused the tree.
    """
    if DPKG_DEB_BIN is None:
        return None, "dpkg-deb missing"
    root = os.path.join(workdir, "root")
    debian = os.path.join(root, "DEBIAN")
    os.makedirs(debian)
    os.chmod(root, 0o755)
    os.chmod(debian, 0o755)
    with open(os.path.join(debian, "control"), "wb") as f:
        f.write(control_text)
    if md5sums is not None:
        with open(os.path.join(debian, "md5sums"), "wb") as f:
            f.write(md5sums)
    for name, body in scripts.items():
        p = os.path.join(debian, name)
        with open(p, "wb") as f:
            f.write(body)
        os.chmod(p, 0o755)
    for name, body in files:
        p = os.path.join(os.fsencode(root), name.encode("utf-8"))
        os.makedirs(os.path.dirname(p), mode=0o755, exist_ok=True)
        with open(p, "wb") as f:
            f.write(body)
        os.chmod(p, 0o644)
    out = os.path.join(workdir, "built.deb")
    env = dict(os.environ, LC_ALL="C", SOURCE_DATE_EPOCH="0")
    r = subprocess.run([DPKG_DEB_BIN, "--build", "--root-owner-group", "-Z" + compression, root, out],
                       stdout=subprocess.PIPE, stderr=subprocess.PIPE, env=env, check=False)
    if r.returncode != 0 or not os.path.exists(out):
        return None, r.stderr.decode("utf-8", "replace")[-300:]
    with open(out, "rb") as f:
        return f.read(), ""


# ------------------------------------------------------------------------------------------
# ar: the byte after the last member


def ar_archive_bytes(members, final_pad=True):
    """The archive of ``ar_archive(members)``, with or without the pad byte after the LAST member.

    ar(5) puts a newline after odd-sized data so that the *next* header starts on an even offset
    ("a newline is inserted between files if necessary").  GNU ar and dpkg-deb also write it after
    the last member, where nothing follows it; a writer that leaves it out produces a file that
    ends right after the last member's data.  ``final_pad=False`` gives that file; it differs from
    the padded one only when there is a last member and its size is odd.
    """
    members = list(members)
    raw, _ = ar_archive(members)
    if not final_pad and members and len(members[-1]["data"]) % 2:
        assert raw[-1:] == b"\n"
        raw = raw[:-1]
    return raw
