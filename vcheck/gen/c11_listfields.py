"""C11 helpers: list-field layouts, the splitting oracle, case validation and generators.

Nothing in here imports the code under test.

case = {
  "kind":    "ws" | "comma",
  "name":    field name of the list field (the "F" of DESIGN.md),
  "head":    [line bodies before the field: other fields, the field's own comment],
  "first":   text after "<name>:" on the field's first line,
  "rest":    [further lines of the field: comment lines "#..." or continuation lines " ..."/"\\t..."],
  "tail":    [line bodies after the field: other fields, possibly a second paragraph],
  "eof_nl":  does the last line of the document end with a newline,
  "eol":     optional, "" (default) or "\r": what stands before the "\n" of EVERY line of the document
             ("\r": a CR LF document, as a file opened with newline="" hands it out),
  "expect":  optional: the values the generator put into the field, in order (the enumerated sources
             that build a field from words and blanks carry it; it must equal split_values()),
  "observe": read list(view) inside the ``with`` after every step (False: only apply the edits),
  "history": [[op, args...], ...]
}
Big fields are written compactly: instead of "first"/"rest" a case may carry
  "layout":  [[piece, repeat], ...]   the text after "<name>:" is the concatenation of every piece
                                      repeated ``repeat`` times; a piece may contain line breaks, and
                                      every "@" in it becomes a running number (0, 1, 2, ... over the
                                      whole field), so repeated pieces give distinct values
``expand(case)`` spells such a case out ("first"/"rest"); everything else works on the expanded case.

ops (every index is taken modulo the current number of values; not applicable -> skipped):
  ["append", v]              ["remove", i]            ["replace", i, v]
                             v that is no value of the list kind (refusable_value: '', blanks around
                             it, an embedded separator, a bare line break) must be REFUSED with
                             ValueError by append / replace / ref_set and leave no trace
  ["ref_set", i, v, fresh]   ["ref_remove", i, fresh]   fresh: take the reference now (true) or
                                                        use one captured when the view was opened
  ["remove_absent", v]       ["replace_absent", v, w]   -> ValueError expected
  ["drain", from_end]        remove every value one by one
  ["reformat"] ["noreformat"]  mode switches
  ["reopen"]                 close the view (all post-conditions are checked) and open a new one
  ["reenter"]                close the view (all post-conditions are checked) and enter the SAME view
                             object again: the list and the references captured earlier live on
  ["formatter", which, force]  view.value_formatter(FORMATTERS[which][, force_reformat=force]);
                             which in FORMATTER_NAMES, force in (None = argument omitted, False, True)
  ["append_comment", text]   a comment line after the last value (no effect on the list)
  ["append_newline"]         a line break after the last value (no effect on the list)
  ["append_separator", space_after]   comma lists only (no effect on the list: empty items)
  ["read", how]              read the open view: how in ("iter", "refs")
  ["probe_open", how]        a SECOND view of the same field is entered and only read
                             (how in PROBE_READS); it stays alive across reopen/reenter
  ["probe_close"]            ... and is closed: the document must not change at that moment
                             (a probe still alive at the end of the history is closed last)
"""
import itertools
import re

from hypothesis import strategies as st

KINDS = ("ws", "comma")
FORMATTER_NAMES = ("lib", "line", "lead")     # see props/c11.py FORMATTERS
READS = ("iter", "refs")
PROBE_READS = ("iter", "refs", "none")
NAME_RE = re.compile(r"^[A-Za-z][A-Za-z0-9-]*$")
FIELD_LINE_RE = re.compile(r"^([A-Za-z][A-Za-z0-9-]*):.*$")


# ------------------------------------------------------------------------------------------
# the splitting oracle (statement: split the field's text on the separator, ignoring comment
# lines, surrounding whitespace and empty items)


def content_lines(value_text):
    """(line number, line) of the non-comment lines of a field's text (text after the colon).

    The first line shares its line with the field name, so it can never be a comment line.
    """
    out = []
    for no, line in enumerate(value_text.split("\n")):
        if no > 0 and line.startswith("#"):
            continue
        out.append((no, line))
    return out


def split_values(kind, value_text):
    text = "\n".join(line for _, line in content_lines(value_text))
    if kind == "ws":
        return text.split()
    return [x.strip() for x in text.split(",") if x.strip() != ""]


def value_spans(kind, value_text):
    """[(first line number, last line number)] for every value, same order as split_values."""
    chars = []
    for no, line in content_lines(value_text):
        chars.extend((c, no) for c in line)
        chars.append(("\n", no))
    spans, cur = [], []

    def flush():
        nos = [no for c, no in cur if not c.isspace()]
        if nos:
            spans.append((nos[0], nos[-1]))
        del cur[:]

    for c, no in chars:
        if (kind == "ws" and c.isspace()) or (kind == "comma" and c == ","):
            flush()
        else:
            cur.append((c, no))
    flush()
    return spans


def comment_line_numbers(value_text):
    return [no for no, line in enumerate(value_text.split("\n")) if no > 0 and line.startswith("#")]


# ------------------------------------------------------------------------------------------
# case -> text


# White space: the statement splits on / ignores "whitespace" without naming the characters; the
# reference is Unicode white space, i.e. str.isspace() - the set `\\s` matches in a str pattern and
# str.split() / str.strip() work on (all_white_space() checks the three lists below against it).
#   LINE_BREAKERS  white space that str.splitlines() also takes for a line boundary.  A deb822 line
#                  ends on "\n" alone, so these are blanks like any other; they are only used as the
#                  LAST character of a line (the CR of a CR LF document, a form feed ending a line;
#                  a comment line of the field ends on none of them but CR).  Anywhere else the
#                  unchanged library already mis-reads them (it cuts value text with splitlines):
#                  'F: a\x0cb c' -> ['a', 'c'] - reported, see props/c11.py ASSUMPTIONS
#   ODD_BLANKS     every other white-space character besides space, tab and newline
LINE_BREAKERS = "\x0b\x0c\r\x1c\x1d\x1e\x85\u2028\u2029"
ODD_BLANKS = ("\x1f\xa0\u1680\u2000\u2001\u2002\u2003\u2004\u2005\u2006\u2007\u2008\u2009\u200a"
              "\u202f\u205f\u3000")


def all_white_space():
    """Is " \\t\\n" + LINE_BREAKERS + ODD_BLANKS exactly the white space of this Python (str.isspace)?"""
    import sys
    return sorted(" \t\n" + LINE_BREAKERS + ODD_BLANKS) == \
        [chr(c) for c in range(sys.maxunicode + 1) if chr(c).isspace()]


def _ok_char(c):
    return c in " \t" or (c.isprintable() and not c.isspace())


def _ok_field_line(l, comment=False):
    """A line of the list field: _ok_char + ODD_BLANKS anywhere, one LINE_BREAKER as the last character
    (a comment line: CR only)."""
    if l[-1:] and l[-1] in (LINE_BREAKERS if not comment else "\r"):
        l = l[:-1]
    return all(_ok_char(c) or c in ODD_BLANKS for c in l)


def line_breakers(case):
    """The LINE_BREAKERS of an (expanded) case: what its field lines end on, plus its "eol"."""
    found = set(case.get("eol", ""))
    for l in [case["first"]] + list(case["rest"]):
        if l[-1:] and l[-1] in LINE_BREAKERS:
            found.add(l[-1])
    return "".join(sorted(found))


def field_lines(case):
    return [case["name"] + ":" + case["first"]] + list(case["rest"])


def doc_parts(case):
    """(prefix, field text, suffix): the document is their concatenation."""
    nl = case.get("eol", "") + "\n"
    head = "".join(l + nl for l in case["head"])
    fl = field_lines(case)
    tail = case["tail"]
    if tail:
        ftext = "".join(l + nl for l in fl)
        suffix = nl.join(tail) + (nl if case["eof_nl"] else "")
    else:
        ftext = nl.join(fl) + (nl if case["eof_nl"] else "")
        suffix = ""
    return head, ftext, suffix


def text_to_lines(text):
    """Split on "\\n" only, keeping the terminators (what iterating a file would give)."""
    parts = text.split("\n")
    lines = [p + "\n" for p in parts[:-1]]
    if parts[-1] != "":
        lines.append(parts[-1])
    return lines


MAX_FIELD_CHARS = 2000000


def _layout_problem(layout):
    if not isinstance(layout, list) or not layout:
        return "layout"
    total = 0
    for item in layout:
        if not (isinstance(item, list) and len(item) == 2 and isinstance(item[0], str)
                and isinstance(item[1], int) and not isinstance(item[1], bool) and item[1] >= 0):
            return "layout item"
        total += (len(item[0]) + 7 * item[0].count("@")) * item[1]
        if total > MAX_FIELD_CHARS:
            return "layout too big"
    return None


def expand(case):
    """A case with a compact "layout" -> the same case with "first" / "rest" spelled out."""
    if not isinstance(case, dict) or "layout" not in case:
        return case
    out, n = [], 0
    for piece, repeat in case["layout"]:
        if "@" not in piece:
            out.append(piece * repeat)
            continue
        parts = piece.split("@")
        for _ in range(repeat):
            for part in parts[:-1]:
                out.append(part)
                out.append(str(n))
                n += 1
            out.append(parts[-1])
    lines = "".join(out).split("\n")
    case = dict(case, first=lines[0], rest=lines[1:])
    del case["layout"]
    return case


def invalid(case):
    """Reason why ``case`` is not a well-formed C11 case (None if it is)."""
    try:
        if not isinstance(case, dict) or case.get("kind") not in KINDS:
            return "kind"
        if "layout" in case:
            if "first" in case or "rest" in case:
                return "layout next to first/rest"
            problem = _layout_problem(case["layout"])
            if problem:
                return problem
            case = expand(case)
        name, first, rest = case["name"], case["first"], case["rest"]
        head, tail, hist = case["head"], case["tail"], case["history"]
        if not (isinstance(name, str) and NAME_RE.match(name)):
            return "name"
        if not isinstance(case["eof_nl"], bool) or not isinstance(case["observe"], bool):
            return "flags"
        for l in list(head) + list(tail):
            if not isinstance(l, str) or not all(_ok_char(c) for c in l):
                return "characters"
        for no, l in enumerate([first] + list(rest)):
            if not isinstance(l, str) or not _ok_field_line(l, no > 0 and l.startswith("#")):
                return "characters"
        eol = case.get("eol", "")
        if eol not in ("", "\r") or (eol and line_breakers(case) != eol):
            return "eol"
        if "expect" in case and not (isinstance(case["expect"], list)
                                     and all(isinstance(v, str) for v in case["expect"])):
            return "expect"
        names = [name.lower()]
        state = "start"
        for where, lines in (("head", head), ("field", field_lines(case)), ("tail", tail)):
            for i, l in enumerate(lines):
                if where == "field":
                    if i == 0:
                        state = "infield"
                    elif l.startswith("#"):
                        pass
                    elif l[:1] in (" ", "\t") and l.strip() != "":
                        pass            # not blank: a line of white space only ends the paragraph
                    else:
                        return "field continuation line"
                    continue
                if l == "":
                    if where != "tail" or state != "infield":
                        return "blank line"
                    state = "start"
                elif l.startswith("#"):
                    pass
                elif l[0] in " \t":
                    if state != "infield" or l.strip(" \t") == "":
                        return "continuation line"
                else:
                    m = FIELD_LINE_RE.match(l)
                    if not m:
                        return "field line"
                    names.append(m.group(1).lower())
                    state = "infield"
        if len(set(names)) != len(names):
            return "duplicate names"
        if rest and rest[-1].startswith("#"):
            return "field ends on comment"
        if tail and (tail[-1] == "" or tail[-1].startswith("#")):
            return "document ends on comment/blank"
        _, ftext, _ = doc_parts(case)
        if not split_values(case["kind"], ftext[len(name) + 1:]):
            return "no value (outside the domain: the tokenizer asserts non-blank input)"
        for op in hist:
            if not (isinstance(op, list) and op and isinstance(op[0], str)):
                return "op"
            k = op[0]
            shape = {"append": (str,), "remove": (int,), "replace": (int, str),
                     "ref_set": (int, str, bool), "ref_remove": (int, bool),
                     "remove_absent": (str,), "replace_absent": (str, str), "drain": (bool,),
                     "reformat": (), "noreformat": (), "reopen": (), "reenter": (),
                     "formatter": (str, (bool, type(None))), "append_comment": (str,),
                     "append_newline": (), "append_separator": (bool,),
                     "read": (str,), "probe_open": (str,), "probe_close": ()}.get(k)
            if shape is None or len(op) != 1 + len(shape):
                return "op shape"
            for a, t in zip(op[1:], shape):
                if not isinstance(a, t) or (t is int and (isinstance(a, bool) or a < 0)):
                    return "op argument"
            choice = {"formatter": FORMATTER_NAMES, "read": READS,
                      "probe_open": PROBE_READS}.get(k)
            if choice is not None and op[1] not in choice:
                return "op choice"
            if k == "append_comment" and not ("\n" not in op[1] and all(_ok_char(c) for c in op[1])):
                return "comment text"
        return None
    except (KeyError, TypeError, IndexError):
        return "structure"


def valid_new_value(kind, v):
    """Is ``v`` a value of the list kind (one item, no surrounding blanks, no separator)?"""
    if v == "" or v != v.strip() or not all(_ok_char(c) or c in ODD_BLANKS or c == "\n" for c in v):
        return False
    if kind == "ws":
        return len(v.split()) == 1 and "\n" not in v
    if "," in v:
        return False
    lines = v.split("\n")
    # a value spanning lines: "p\n q" (continuation marker included, as the view renders it)
    return all(l[:1] in (" ", "\t") and l.strip() != "" and not l.lstrip().startswith("#")
               for l in lines[1:])


def refusable_value(kind, v):
    """``v`` is no value of the list kind, for a reason the statement's splitting rule itself gives.

    '' (an empty item), blanks around it, an embedded separator (ws: any blank, ODD_BLANKS included;
    comma: ','), or a line break that is not followed by a continuation marker and text.  Handing
    such a text to append / replace / ValueReference.value must be refused (ValueError); the splitting rule could
    never give it back as one item.  Not in this class (nothing is demanded): blank-only texts (the
    tokenizer asserts non-blank input) and texts with a line whose first non-blank character is '#'.
    """
    if v == "":
        return True
    if not all(_ok_char(c) or c in ODD_BLANKS or c == "\n" for c in v) or v.strip() == "":
        return False
    if any(l.lstrip().startswith("#") for l in v.split("\n")):
        return False
    return not valid_new_value(kind, v)


# ------------------------------------------------------------------------------------------
# Hypothesis strategies

ALPHA = "abxyz019#-.:+~=()[]|!<>éß漢\U0001d4b3"
WS_WORDS = ["a", "b", "c", "a", "b", "amd64", "i386", "any", "x#y", "#x", "a,b", ",", "linux-any",
            "!armel", "é", "漢", "a:b", "[x]", "b,"]
CM_WORDS = ["a", "b", "c", "a", "b", "libc6", "(>=", "2.3)", "x#y", "#x", "|", "foo", "é",
            "漢", "a:b", "${misc:Depends}"]
COMMENTS = ["#", "# c", "#,", "# a, b", "#x y", "#\tc ,", "# a"]
NAMES = ["F", "F", "Depends", "Architecture", "X-l"]
HEADS = [[], ["A: 1"], ["A: 1"], ["A: 1", "# about the list"], ["A: 1", "#", "# two"],
         ["A: 1", "B: x", " y"], ["# top", "A: 1"], ["# only a comment"]]
TAILS = [["Z: 2"], ["Z: 2"], ["# about Z", "Z: 2"], ["Z:", " 2", "Y: 3"], ["Z: 2", "", "Q: 4"],
         ["Z:2", "", "# c", "Q: 4", "\t5"], [], []]

ws_word = st.one_of(st.sampled_from(WS_WORDS), st.sampled_from(WS_WORDS),
                    st.text(alphabet=ALPHA + ",", min_size=1, max_size=3))
cm_word = st.one_of(st.sampled_from(CM_WORDS), st.sampled_from(CM_WORDS),
                    st.text(alphabet=ALPHA, min_size=1, max_size=3))
cm_item = st.one_of(cm_word, cm_word,
                    st.builds(lambda a, s, b: a + s + b, cm_word,
                              st.sampled_from([" ", " ", "  ", "\t"]), cm_word))
blank = st.sampled_from(["", "", "", " ", " ", "  ", "\t", " \t"])
ws_sep = st.sampled_from([" ", " ", " ", "  ", "\t", " \t"])


# NB: every strategy object is built once, at import time -- building (and validating) them
# inside a composite costs more than drawing from them.
_nwords = st.integers(1, 3)
_cells = st.lists(st.one_of(cm_item, cm_item, cm_item, st.just("")), min_size=1, max_size=4)
_bools = st.booleans()


@st.composite
def _ws_body(draw):
    n = draw(_nwords)
    out = draw(blank)
    for i in range(n):
        if i:
            out += draw(ws_sep)
        out += draw(ws_word)
    return out + draw(blank)


@st.composite
def _cm_body(draw):
    cells = draw(_cells)
    body = ",".join(draw(blank) + c + draw(blank) for c in cells)
    if body.strip(" \t") == "":
        body += ","
    return body


BODY = {"ws": _ws_body(), "comma": _cm_body()}
FIRST = {k: st.one_of(b, b, b, st.sampled_from(["", " ", "\t", "  "])) for k, b in BODY.items()}
ONE_VALUE = {"ws": ws_word, "comma": cm_item}
_nlines = {4: st.sampled_from([1, 2, 2, 3, 3, 4]), 6: st.sampled_from([1, 2, 2, 3, 3, 4, 5, 6])}
_uniform = st.sampled_from([" ", " ", " ", "\t", None])
_marker = st.sampled_from([" ", "\t"])
_ncomments = st.sampled_from([0, 0, 1, 1, 1, 2])
_comment = st.sampled_from(COMMENTS)


def _list_field(draw, kind, maxlines):
    """(first, rest) with at least one value."""
    nlines = draw(_nlines[maxlines])
    first = draw(FIRST[kind])
    uniform = draw(_uniform)
    rest = []
    for _ in range(nlines - 1):
        for _ in range(draw(_ncomments)):
            rest.append(draw(_comment))
        marker = uniform if uniform is not None else draw(_marker)
        rest.append(marker + draw(BODY[kind]))
    if not split_values(kind, first + "".join("\n" + r for r in rest)):
        if draw(_bools):
            rest.append(draw(_comment))
        rest.append((uniform or " ") + draw(ONE_VALUE[kind]))
    return first, rest


NEW_VALUE = {
    "ws": ws_word,
    "comma": st.one_of(cm_item, cm_item, cm_item, cm_item,
                       st.builds(lambda a, m, b: a + "\n" + m + b, cm_word,
                                 st.sampled_from([" ", "\t", "  "]), cm_word),
                       # an odd blank inside an item is part of the value
                       st.builds(lambda a, s, b: a + s + b, cm_word,
                                 st.sampled_from(["\xa0", "\u3000", " \u2009"]), cm_word)),
}


# texts that are no value of the kind (see refusable_value); "", "y, z", " z" are refused by both kinds
BAD_VALUES = {"ws": ["", "y z", "y, z", " z", "z ", "y\tz", "y\n z", "z\n", "amd64 i386",
                     "y\xa0z", "z\u3000", "\u2003z"],
              "comma": ["", "y, z", "y,z", " z", "z ", ",", "z,", ",z", "y\nz", "z\n", "a (>= 1), b",
                        "\xa0z", "z\u3000"]}
BAD_VALUE = {
    "ws": st.one_of(st.sampled_from(BAD_VALUES["ws"]),
                    st.builds(lambda a, s, b: a + s + b, ws_word, ws_sep, ws_word),
                    st.builds(lambda a, s, b: a + s + b, st.sampled_from(["", " "]), ws_word,
                              st.sampled_from([" ", "\t", "\n"]))),
    "comma": st.one_of(st.sampled_from(BAD_VALUES["comma"]),
                       st.builds(lambda a, s, b: a + s + b, cm_item, st.sampled_from([",", ", ", " ,"]),
                                 st.one_of(cm_item, st.just(""))),
                       st.builds(lambda a, b: a + b, st.sampled_from([" ", "\t"]), cm_item)),
}


COMMENT_TEXTS = ["c", "about the next one", "", "#", "# a, b", "#x", " padded ", "a, b", "é 漢", "#\tc ,"]
_comment_text = st.one_of(st.sampled_from(COMMENT_TEXTS), st.sampled_from(COMMENT_TEXTS),
                          st.text(alphabet=ALPHA + " ,", min_size=1, max_size=4))
_formatter = st.tuples(st.just("formatter"), st.sampled_from(FORMATTER_NAMES),
                       st.sampled_from([None, None, False, True]))


def _op_strategy(kind):
    """Strategy for a *chunk*: a list of one op, or of a few ops that belong together."""
    v = NEW_VALUE[kind]
    idx = st.integers(0, 7)
    append = st.tuples(st.just("append"), v)
    comment = st.tuples(st.just("append_comment"), _comment_text)
    ref_set = st.tuples(st.just("ref_set"), idx, v, st.booleans())
    bad = BAD_VALUE[kind]
    bad_append = st.tuples(st.just("append"), bad)
    one = st.one_of(
        bad_append,                                         # refused: ValueError, no trace
        st.tuples(st.just("replace"), idx, bad),
        st.tuples(st.just("ref_set"), idx, bad, st.booleans()),
        append,
        append,
        st.tuples(st.just("remove"), idx),
        st.tuples(st.just("remove"), idx),
        st.tuples(st.just("remove"), idx),
        st.tuples(st.just("replace"), idx, v),
        ref_set,
        st.tuples(st.just("ref_remove"), idx, st.booleans()),
        st.tuples(st.just("ref_remove"), idx, st.booleans()),
        st.tuples(st.just("remove_absent"), v),
        st.tuples(st.just("replace_absent"), v, v),
        st.tuples(st.just("drain"), st.booleans()),
        st.just(("reformat",)),
        st.just(("reformat",)),
        st.just(("noreformat",)),
        st.just(("reopen",)),
        st.just(("reenter",)),
        _formatter,
        _formatter,
        comment,
        st.just(("append_newline",)),
        st.tuples(st.just("append_separator"), st.booleans()),
        st.tuples(st.just("read"), st.sampled_from(READS)),
        st.tuples(st.just("probe_open"), st.sampled_from(PROBE_READS)),
        st.just(("probe_close",)),
    )
    return st.one_of(
        one.map(lambda op: [op]), one.map(lambda op: [op]), one.map(lambda op: [op]),
        one.map(lambda op: [op]), one.map(lambda op: [op]), one.map(lambda op: [op]),
        one.map(lambda op: [op]), one.map(lambda op: [op]), one.map(lambda op: [op]),
        st.tuples(comment, append).map(list),                       # a remark above a new entry
        st.tuples(st.just(("append_newline",)), append).map(list),  # a new entry on its own line
        st.tuples(st.just(("reenter",)), st.tuples(st.just("ref_set"), idx, v, st.just(False))).map(list),
        st.tuples(bad_append, append).map(list),                    # a refused value, then a good one
    )


HISTORY = {(k, n): st.lists(_op_strategy(k), min_size=0, max_size=n) for k in KINDS for n in (5, 8)}
_kind = st.sampled_from(KINDS)
_tail = st.sampled_from(TAILS)
_head = st.sampled_from(HEADS)
_name = st.sampled_from(NAMES)
_eof = st.sampled_from([True, True, True, False])
_observe = st.sampled_from([True, True, False])
_noop = st.integers(0, 9)
# white space other than space and tab: in 3 cases of 8 up to three blanks of the field are swapped
# for ODD_BLANKS (never a continuation marker); in 1 of 8 the document is a CR LF document or some
# lines of the field end on one of the LINE_BREAKERS
_nodd = st.sampled_from([0, 0, 0, 0, 0, 1, 2, 3])
_oddchar = st.sampled_from(list("\xa0\u3000\x1f\u2003\u202f\xa0\u3000" + ODD_BLANKS))
_pos = st.integers(0, 63)
_ending = st.sampled_from(["", "", "", "", "", "", "", "\r", "", "", "", "", "", "", "", "line"])
_breaker = st.sampled_from(list("\r\x0c\x0b\x85\u2028" + LINE_BREAKERS))
_mask = st.integers(1, 63)


def _odd_blanks(draw, first, rest):
    """(first, rest, eol) with some blanks swapped for odd ones / line breakers at line ends."""
    lines = [first] + list(rest)
    for _ in range(draw(_nodd)):
        spots = [(i, j) for i, l in enumerate(lines) for j, c in enumerate(l)
                 if c in " \t" and (i == 0 or j > 0)]
        if not spots:
            break
        i, j = spots[draw(_pos) % len(spots)]
        lines[i] = lines[i][:j] + draw(_oddchar) + lines[i][j + 1:]
    ending = draw(_ending)
    if ending == "line":
        c, mask = draw(_breaker), draw(_mask)
        if not any(mask >> i & 1 for i in range(len(lines))):
            mask = 1
        lines = [l + c if mask >> i & 1 and (c == "\r" or i == 0 or not l.startswith("#")) else l
                 for i, l in enumerate(lines)]
        ending = ""
    return lines[0], lines[1:], ending
_reopens = st.integers(0, 2)
_noop_op = st.sampled_from([("reopen",), ("reopen",), ("reenter",), ("read", "refs"), ("read", "iter"),
                            ("formatter", "lib", None), ("probe_open", "refs"), ("probe_close",),
                            # refused by both kinds: the only thing that "happened" is an error
                            ("append", "y, z"), ("append", ""), ("replace", 0, "y, z"),
                            ("ref_set", 1, " z", True), ("remove_absent", "no such value")])


@st.composite
def gen_case(draw, maxops=5, maxlines=4):
    """maxops in (5, 8), maxlines in (4, 6)."""
    kind = draw(_kind)
    first, rest = _list_field(draw, kind, maxlines)
    first, rest, eol = _odd_blanks(draw, first, rest)
    hist = [op for chunk in draw(HISTORY[(kind, maxops)]) for op in chunk]
    if draw(_noop) == 0:
        hist = [draw(_noop_op) for _ in range(draw(_reopens))]      # the no-op family
    case = {"kind": kind, "name": draw(_name), "head": draw(_head),
            "first": first, "rest": rest, "tail": draw(_tail), "eof_nl": draw(_eof),
            "observe": draw(_observe), "history": [list(op) for op in hist]}
    if eol:
        case["eol"] = eol
    return case


# ------------------------------------------------------------------------------------------
# bounded-exhaustive enumeration: every layout built from a small alphabet of line shapes
# x every single edit (and, in the larger variant, every ordered pair of removals) x mode

WS_FIRST = ["", " ", " @", "@", " @ @", " @ ", "\t@"]
WS_REST = [" @", "\t@", " @ @ ", "  @", "# c"]
CM_FIRST = ["", " ", " @", "@,", " @, @", " @ ,", " ,@", " @,,@", " @ @,"]
CM_REST = [" @", " @,", " ,@", " ,", "\t@, @", " @ @", "# c,"]


def _fill(templates):
    letters = iter("abcdefghijklmnopqrstuvw")
    return [re.sub("@", lambda m: next(letters), t) for t in templates]


def enum_layouts(kind, maxrest):
    firsts, rests = (WS_FIRST, WS_REST) if kind == "ws" else (CM_FIRST, CM_REST)
    for f in firsts:
        for n in range(0, maxrest + 1):
            for combo in itertools.product(rests, repeat=n):
                if combo and combo[-1].startswith("#"):
                    continue
                lines = _fill([f] + list(combo))
                if not split_values(kind, "\n".join(lines)):
                    continue
                yield lines[0], lines[1:]


def enum_cases(maxrest, pairs):
    def gen():
        for kind in KINDS:
            for first, rest in enum_layouts(kind, maxrest):
                n = len(split_values(kind, first + "".join("\n" + r for r in rest)))
                hists = [[]]
                singles = [["append", "z"]]
                for i in range(n):
                    singles += [["remove", i], ["ref_remove", i, True], ["replace", i, "z"],
                                ["ref_set", i, "z", True]]
                for s in singles:
                    hists.append([s])
                    hists.append([["reformat"], s])
                hists = [(h, k % 3 != 2) for k, h in enumerate(hists)]
                # two-step histories that are never observed in between
                for i in range(n):
                    hists.append(([["append", "z"], ["remove", i]], False))
                    hists.append(([["append", "z"], ["replace", i, "y"]], False))
                if pairs:
                    for i in range(n):
                        for j in range(n - 1):
                            hists.append(([["remove", i], ["ref_remove", j, False]], (i + j) % 2 == 0))
                # what trails the list when a value is appended: comment / line break / separator
                more = [[["append_comment", "c"], ["append", "z"]],
                        [["reformat"], ["append_comment", "c"], ["append", "z"]],
                        [["append", "y"], ["append_comment", "# c, d"], ["append", "z"]],
                        [["append_newline"], ["append", "z"]],
                        [["append_separator", n % 2 == 0], ["append", "z"]],
                        [["append_comment", ""], ["append", "z"], ["remove", n]]]
                # a formatter chosen before / after / without an edit, forced or not
                for which in FORMATTER_NAMES:
                    more += [[["append", "z"], ["formatter", which, None]],
                             [["formatter", which, True]],
                             [["formatter", which, None], ["append", "z"]]]
                more += [[["formatter", "lib", False]],
                         [["append", "z"], ["formatter", "lead", True], ["reopen"], ["append", "y"]]]
                for i in range(n):
                    which = FORMATTER_NAMES[i % len(FORMATTER_NAMES)]
                    more += [[["remove", i], ["formatter", which, None if i % 2 else False]],
                             [["ref_set", i, "z", True], ["formatter", "lib", None]]]
                    # references captured in the first session, used in the second one
                    more += [[["reenter"], ["ref_set", i, "z", False]],
                             [["ref_set", (i + 1) % n, "y", False], ["reenter"], ["ref_remove", i, False]]]
                # a second view that only reads, alive while the field is edited
                for how in PROBE_READS:
                    more += [[["probe_open", how], ["append", "z"]]]
                more += [[["append", "z"], ["probe_open", "refs"], ["probe_close"], ["remove", 0]],
                         [["probe_open", "refs"], ["replace", n - 1, "z"], ["reopen"], ["probe_close"]],
                         [["read", "refs"]], [["read", "refs"], ["reenter"], ["read", "iter"]]]
                # a mutator refuses its argument (ValueError), the caller goes on normally
                bad = BAD_VALUES[kind]
                more += [[["append", bad[1]]], [["append", ""]], [["append", bad[3]], ["reenter"]],
                         [["append", bad[2]], ["append", "z"]], [["remove_absent", "nope"]],
                         [["replace", 0, bad[1]], ["reopen"], ["append", "z"]]]
                for i in range(n):
                    more += [[["replace", i, bad[1 + i % 4]]] if i % 2 == 0 else
                             [["ref_set", i, bad[1 + i % 4], True]]]
                more += [[["ref_set", n - 1, bad[2], False], ["reenter"], ["ref_set", 0, "", False]]]
                hists += [(h, k % 3 != 1) for k, h in enumerate(more)]
                for h, observe in hists:
                    yield {"kind": kind, "name": "F", "head": ["A: 1"], "first": first, "rest": rest,
                           "tail": ["Z: 2"], "eof_nl": True, "observe": observe, "history": h}
    return gen


# ------------------------------------------------------------------------------------------
# sizes: fields whose items, lines, words and blank runs are longer / more numerous than any
# fixed buffer, window or look-ahead would hold.  Compact cases ("layout"), a read and one edit of
# each kind per layout.

SPAN_SIZES = {"quick": list(range(1, 41)), "thorough": list(range(1, 41)) + [64, 100, 257]}
COUNT_SIZES = {"quick": [130, 1100], "thorough": [130, 1100, 5000]}
CHAR_SIZES = {"quick": [100, 1000, 100000], "thorough": [100, 1000, 100000, 300000]}


def size_histories(targets):
    """No edit, a read through references, and one edit of each kind (at every target index)."""
    hs = [[], [["read", "refs"]], [["append", "z"]], [["reformat"], ["append", "z"]]]
    for no, i in enumerate(targets):
        hs += [[["remove", i]], [["replace", i, "z"]], [["ref_set", i, "z", True]],
               [["ref_remove", i, True]]]
        if no == 0:
            hs.append([["reformat"], ["remove", i]])
    return hs


def size_layouts(kind, tier):
    """(layout, [value indices to edit]) - see EXHAUSTIVE["sizes"] in props/c11.py."""
    comma = kind == "comma"
    sep = "," if comma else ""
    spans, counts, chars = SPAN_SIZES[tier], COUNT_SIZES[tier], CHAR_SIZES[tier]
    for k in spans:
        for marker in (" ", "\t"):
            for com in ("", "\n# c" + sep):
                line = com + "\n" + marker + "r@"
                if comma:
                    # ONE item on k continuation lines (k + 1 lines when it starts on the first one),
                    # as the first / a middle / the last item (with and without a trailing comma)
                    yield [[" p@,", 1], [line, k], [",\n" + marker + "s@, t@", 1]], [1, 2]
                    yield [[" q@", 1], [line, k], [",\n" + marker + "s@, t@", 1]], [0, 1]
                    yield [[" p@, s@,", 1], [line, k]], [2, 0]
                    yield [[" p@, s@,", 1], [line, k], [" ,", 1]], [2, 1]
                else:
                    # k continuation lines of one value each
                    yield [[" p@", 1], [line, k], ["\n" + marker + "s@ t@", 1]], [0, 1 + k // 2, k + 2]
        if comma:
            # ONE item of k words on one line
            for blank in (" ", "\t "):
                yield [[" p@,", 1], [blank + "r@", k], [",\n s@", 1]], [1, 2]
        # a run of k comment lines between two values / inside an item
        yield [[" p@" + sep + "\n", 1], ["# c" + sep + "\n", k], [" q@" + sep + " s@", 1]], [0, 1]
        if comma:
            yield [[" p@, q@\n", 1], ["#\n", k], ["\tr@, s@", 1]], [1, 2]
    for n in counts:
        mid = [0, n // 2, n - 1]
        # n values on one line (with and without blanks), one per line, three per line, one per
        # line with a comment line after each
        yield [[" w@" + sep, n - 1], [" w@", 1]], mid
        if comma:
            yield [["w@,", n - 1], ["w@", 1], ["\n ,", 1]], mid
        yield [[" w@" + sep + "\n", n - 1], [" w@", 1]], mid
        yield [["\n", 1], ["\tw@ " + sep + " w@" + sep + " w@" + sep + "\n", n // 3], [" w@", 1]], \
            [0, n // 2, 3 * (n // 3)]
        yield [[" w@" + sep + "\n# c" + sep + "\n", n - 1], [" w@", 1]], mid
    for n in chars:
        # one very long word as the first / a middle / the last value; inside an item spanning lines
        yield [[" ", 1], ["x", n], [sep + " s@\n t@", 1]], [0, 1]
        yield [[" p@" + sep + " ", 1], ["x", n], [sep + "\n s@", 1]], [1, 0]
        yield [[" p@" + sep + "\n ", 1], ["x", n]], [1, 0]
        if comma:
            yield [[" p@, q@\n ", 1], ["x", n], ["\n r@, s@", 1]], [1, 2]
        # very long runs of blanks around a value, a very long comment line
        yield [[" p@" + sep, 1], [" ", n], ["q@", 1], ["\t", n], [sep + "\n s@", 1]], [1, 2]
        yield [[" ", n], ["p@" + sep + "\n", 1], [" ", n], ["q@", 1]], [0, 1]
        yield [[" p@" + sep + "\n#", 1], ["c" + sep, n], ["\n q@", 1]], [0, 1]


def enum_sizes(tier):
    def gen():
        no = 0
        for kind in KINDS:
            for layout, targets in size_layouts(kind, tier):
                for h in size_histories(targets):
                    no += 1
                    yield {"kind": kind, "name": "F", "head": ["A: 1"], "layout": layout,
                           "tail": ["Z: 2"], "eof_nl": True, "observe": no % 3 != 0, "history": h}
    return gen


# ------------------------------------------------------------------------------------------
# white space other than space, tab and newline.  Every layout is written down together with the
# values it holds ("expect": what the words and items are, not the result of splitting anything);
# "~" stands for the white-space character under test, which is substituted in both.
#   ODD_LAYOUTS      "~" = each of ODD_BLANKS, anywhere a blank may stand: the only separator between
#                    two words, next to ordinary blanks, directly after the colon / the continuation
#                    marker, at the end of a line, doubled, alone on the first line, in a comment line;
#                    inside a comma item (there it belongs to the value), around commas, as an item of
#                    its own (= an empty item).  Read and edited in every way.
#   BREAKER_LAYOUTS  "~" = each of LINE_BREAKERS, as the last character of lines only (no comment lines)
#   CRLF_LAYOUTS     plain layouts in a document whose every line ends on CR LF
# Fields holding LINE_BREAKERS are read (all read forms), opened and closed, handed refused values;
# see props/c11.py (ASSUMPTIONS) for which edits are made on them.

ODD_LAYOUTS = {
    "ws": [(" a~b c", [" d"], ["a", "b", "c", "d"]),
           (" a b~", [" d~"], ["a", "b", "d"]),
           (" a ~ b", [" ~d", "\te"], ["a", "b", "d", "e"]),
           ("~a", [" d~~e", "# c~x", " f"], ["a", "d", "e", "f"]),
           (" a", ["# ~", " ~ b ~ "], ["a", "b"]),
           ("~", ["\ta~b~c"], ["a", "b", "c"])],
    "comma": [(" a~b, c", [" ,d"], ["a~b", "c", "d"]),
              (" a, b~,", [" d~, e"], ["a", "b", "d", "e"]),
              (" a ~, ~b", [" ,~d"], ["a", "b", "d"]),
              ("~a,", [" d~~e", "# c~,", " ,f"], ["a", "d~~e", "f"]),
              (" a,~,b", [" ~,~ c ~ "], ["a", "b", "c"]),
              ("~", ["\ta~,~b ~ c"], ["a", "b ~ c"]),
              (" a, b~", [" ~c,d"], ["a", "b~\n ~c", "d"])],
}
BREAKER_LAYOUTS = {
    "ws": [(" a b~", [" d~"], ["a", "b", "d"]),
           ("~", [" a~", "# c", "\tb c~"], ["a", "b", "c"]),
           (" a b~", [" d"], ["a", "b", "d"]),
           (" a", [" b ~", " c"], ["a", "b", "c"])],
    "comma": [(" a, b~", [" d~"], ["a", "b~\n d"]),
              ("~", [" a,~", "# c", "\tb c~"], ["a", "b c"]),
              (" a, b ,~", [" d"], ["a", "b", "d"]),
              (" a", [" ,b ~", " ,c"], ["a", "b", "c"])],
}
CRLF_LAYOUTS = {
    "ws": [(" a b", [" c"], ["a", "b", "c"]),
           ("", [" a ", "# c", "\tb  c"], ["a", "b", "c"]),
           (" a", [], ["a"])],
    "comma": [(" a, b", [" , c"], ["a", "b", "c"]),
              ("", [" a,", "# c,", "\tb c ,"], ["a", "b c"]),
              (" a, b", [" c"], ["a", "b\r\n c"]),
              (" a", ["# c", " b, c"], ["a\r\n b", "c"])],
}
# (head, tail, eof_nl): the field in the middle / last and unterminated / before a second paragraph
SURROUNDINGS = [(["A: 1"], ["Z: 2"], True), (["A: 1", "# about F"], [], False),
                (["A: 1"], ["Z:", " 2", "", "Q: 4"], True)]


def odd_histories(kind, n, c, level):
    """level 0: nothing is written back; 1: + edits of existing values; 2: + appends."""
    if c in LINE_BREAKERS:
        c = " "                 # new values and comment texts never hold a line breaker
    bad = "y" + c + "z" if kind == "ws" else c + "z"
    hs = [[], [["read", "refs"]], [["read", "iter"], ["reenter"], ["read", "refs"]], [["reopen"]],
          [["probe_open", "refs"], ["reopen"], ["probe_close"]], [["probe_open", "iter"]],
          [["append", bad]], [["replace", n - 1, bad], ["reenter"]], [["ref_set", 0, "z" + c, True]],
          [["remove_absent", "a" + c]]]
    if level >= 1:
        for i in range(n):
            hs += [[["remove", i]], [["replace", i, "z"]], [["ref_set", i, "z", True]],
                   [["ref_remove", i, i % 2 == 0]]]
        hs += [[["reformat"], ["remove", 0]], [["formatter", "lib", True]], [["drain", True]],
               [["replace", 0, bad], ["remove", n - 1]]]
    if level >= 2:
        hs += [[["append", "z"]], [["reformat"], ["append", "z"]], [["append_newline"], ["append", "z"]],
               [["append_comment", "c"], ["append", "z"]], [["append", bad], ["append", "z"]],
               [["append", "z"], ["remove", 0], ["reopen"], ["append", "y"]]]
        if kind == "comma":
            hs += [[["append", "y" + c + "z"]], [["replace", 0, "y " + c + "z"]],
                   [["append_separator", True], ["append", "z"]]]
    return hs


def enum_odd_blanks():
    def gen():
        if not all_white_space():
            raise AssertionError("harness: LINE_BREAKERS + ODD_BLANKS are not this Python's white space")
        no = 0
        for kind in KINDS:
            for layouts, chars, eol in ((ODD_LAYOUTS, ODD_BLANKS, ""), (BREAKER_LAYOUTS, LINE_BREAKERS, ""),
                                        (CRLF_LAYOUTS, "\r", "\r")):
                for lno, (first, rest, expect) in enumerate(layouts[kind]):
                    for c in chars:
                        level = 2 if chars is ODD_BLANKS else 1 if c == "\r" else 0
                        n = len(expect)
                        for h in odd_histories(kind, n, c, level):
                            no += 1
                            head, tail, eof_nl = SURROUNDINGS[0 if no % 4 else 1 + no // 4 % 2]
                            case = {"kind": kind, "name": "F", "head": head,
                                    "first": first.replace("~", c), "rest": [r.replace("~", c) for r in rest],
                                    "tail": tail, "eof_nl": eof_nl, "observe": no % 3 != 0, "history": h}
                            case["expect"] = [v.replace("~", c) for v in expect]
                            if eol:
                                case["eol"] = eol
                            yield case
    return gen
