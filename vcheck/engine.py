"""Run loop: known-finding witnesses -> replay dir -> enumerations -> Hypothesis shards -> custom.

Exit codes: 0 property held on everything explored; 1 at least one VIOLATION line; 2 harness error.
"""
import collections
import importlib
import itertools
import json
import multiprocessing
import os
import sys
import time
import traceback

from . import boot, findings
from .core import Violation, Enum, Hyp, Custom, canon, case_hash, jsonable, short

ROOT = boot.ROOT
MAX_SIGS_PER_SHARD = 4
N_SAMPLES = 12
WORKERS = int(os.environ.get("VERIF_WORKERS", "16"))


def load_prop(pid):
    return importlib.import_module("vcheck.props.%s" % pid.lower())


# ------------------------------------------------------------------------------------------
# exception classification


def lib_frame(tb):
    """Innermost frame of ``tb`` that lies inside the tree under test, or None."""
    lib = os.path.realpath(boot.repo_lib())
    found = None
    for fs in traceback.extract_tb(tb):
        fn = os.path.realpath(fs.filename)
        if fn.startswith(lib + os.sep):
            found = "%s:%s" % (os.path.relpath(fn, lib), fs.name)
    return found


class HarnessFailure(Exception):
    pass


def run_oracle(prop, case):
    """check(case) with unexpected exceptions classified.

    An exception whose traceback passes through the tree under test is the library's doing (the
    oracle calls it only with inputs it is documented to accept and catches the exceptions its
    contract allows) -> Violation.  One that never enters the library is a bug in the harness.
    """
    try:
        return prop.check(case)
    except Violation:
        raise
    except (KeyboardInterrupt, SystemExit):
        raise
    except RecursionError as e:
        raise HarnessFailure("RecursionError in oracle: %s" % short(case))
    except Exception as e:  # pylint: disable=broad-except
        fr = lib_frame(e.__traceback__)
        if fr is None:
            raise HarnessFailure("%s in harness: %s\n%s" % (
                type(e).__name__, e, traceback.format_exc()[-1500:]))
        raise Violation("EXC:%s@%s" % (type(e).__name__, fr),
                        "%s: %s" % (type(e).__name__, short(str(e), 200)))


# ------------------------------------------------------------------------------------------
# per-worker recorder


class Rec(object):
    def __init__(self, prop, deadline):
        self.prop = prop
        self.deadline = deadline
        self.evals = 0
        self.hashes = set()
        self.labels = collections.Counter()
        self.first = []
        self.low = []      # (hash, case) with the smallest hashes: a seed-independent spread sample
        self.failures = {}  # sig -> [count, msg, case]
        self.excluded = set()
        self.excluded_hits = 0
        self.notes = collections.Counter()
        self.budget_exhausted = False

    def expired(self):
        if time.time() > self.deadline:
            self.budget_exhausted = True
            return True
        return False

    def note(self, key, n=1):
        self.notes[key] += n

    def ok(self, case, res):
        self.evals += 1
        nontrivial, labels = res if res is not None else (False, ())
        for l in labels:
            self.labels[l] += 1
        if nontrivial:
            h = case_hash(case)
            if h not in self.hashes:
                self.hashes.add(h)
                if len(self.first) < 3:
                    self.first.append(case)
                if len(self.low) < N_SAMPLES or h < self.low[-1][0]:
                    self.low.append((h, case))
                    self.low.sort(key=lambda t: t[0])
                    del self.low[N_SAMPLES:]

    def fail(self, case, v):
        self.evals += 1
        ent = self.failures.get(v.sig)
        size = len(canon(case))
        if ent is None:
            self.failures[v.sig] = [1, v.msg, case, size]
        else:
            ent[0] += 1
            if size < ent[3]:
                ent[1], ent[2], ent[3] = v.msg, case, size

    def case(self, case):
        """Evaluate one case, recording the outcome; never raises Violation (collect mode)."""
        try:
            res = run_oracle(self.prop, case)
        except Violation as v:
            self.fail(case, v)
            return False
        self.ok(case, res)
        return True

    def export(self):
        return dict(evals=self.evals, hashes=list(self.hashes), labels=dict(self.labels),
                    first=self.first, low=self.low,
                    failures={k: v[:3] for k, v in self.failures.items()},
                    excluded_hits=self.excluded_hits, notes=dict(self.notes),
                    budget_exhausted=self.budget_exhausted)


# ------------------------------------------------------------------------------------------
# workers (module-level: executed in forked children)


def derive_seed(seed, name, shard):
    import hashlib
    d = hashlib.sha1(("%d/%s/%d" % (seed, name, shard)).encode()).digest()
    return int.from_bytes(d[:6], "big")


def _find_source(prop, tier, name):
    for s in prop.sources(tier):
        if s.name == name:
            return s
    raise HarnessFailure("source %s vanished" % name)


def work(args):
    pid, tier, name, shard, nshards, seed, deadline = args
    try:
        prop = load_prop(pid)
        rec = Rec(prop, deadline)
        src = _find_source(prop, tier, name)
        if isinstance(src, Enum):
            work_enum(prop, src, shard, nshards, rec)
        elif isinstance(src, Hyp):
            work_hyp(prop, src, shard, seed, rec)
        else:
            src.fn(shard, nshards, derive_seed(seed, name, shard), deadline, rec)
        out = rec.export()
        out["source"] = name
        return out
    except HarnessFailure as e:
        return dict(source=name, harness_error=str(e))
    except Exception as e:  # pylint: disable=broad-except
        return dict(source=name, harness_error="%s: %s\n%s" % (
            type(e).__name__, e, traceback.format_exc()[-2000:]))


def work_enum(prop, src, shard, nshards, rec):
    n = 0
    for case in itertools.islice(src.factory(), shard, None, nshards):
        n += 1
        if (n & 1023) == 0 and rec.expired():
            break
        rec.case(case)
    rec.note("enumerated:" + src.name, n)


def work_hyp(prop, src, shard, seed, rec):
    import hypothesis
    from hypothesis import given, settings, HealthCheck, Phase
    last = {}

    def inner(case):
        if not last and (rec.budget_exhausted or rec.expired()):
            return      # budget: stop exploring (never while a failure is being shrunk)
        case = jsonable(case)
        try:
            res = run_oracle(prop, case)
        except Violation as v:
            if v.sig in rec.excluded:
                rec.excluded_hits += 1
                return
            last["v"], last["case"] = v, case
            raise
        rec.ok(case, res)

    phases = [Phase.generate, Phase.shrink]
    if os.environ.get("VERIF_NO_SHRINK"):
        phases = [Phase.generate]
    st = settings(max_examples=src.n, database=None, deadline=None, derandomize=False,
                  report_multiple_bugs=False, phases=phases, print_blob=False,
                  suppress_health_check=[HealthCheck.too_slow, HealthCheck.data_too_large,
                                         HealthCheck.large_base_example])
    for _ in range(MAX_SIGS_PER_SHARD):
        last.clear()
        test = hypothesis.seed(derive_seed(seed, src.name, shard))(st(given(src.strategy)(inner)))
        try:
            test()
        except Violation:
            v, case = last["v"], last["case"]
            rec.fail(case, v)
            rec.evals -= 1
            rec.excluded.add(v.sig)
            continue
        except HarnessFailure:
            raise
        except hypothesis.errors.Flaky as e:
            if "v" not in last:
                raise HarnessFailure("flaky oracle in %s: %s" % (src.name, e))
            v, case = last["v"], last["case"]
            rec.fail(case, v)
            rec.evals -= 1
            rec.excluded.add(v.sig)
            continue
        except (hypothesis.errors.FailedHealthCheck, hypothesis.errors.Unsatisfiable) as e:
            raise HarnessFailure("generator problem in %s: %s" % (src.name, e))
        break
    rec.note("hypothesis:" + src.name, rec.evals)


# ------------------------------------------------------------------------------------------
# main driver


def _plan(prop, tier):
    jobs = []
    for s in prop.sources(tier):
        if tier not in s.tiers:
            continue
        if isinstance(s, Enum):
            n = getattr(s, "shards", None) or WORKERS
        else:
            n = s.shards
        for i in range(n):
            jobs.append((s.name, i, n, 0 if isinstance(s, Custom) else 1))
    jobs.sort(key=lambda j: j[3])   # long-running custom phases first
    return [j[:3] for j in jobs]


def replay_one(prop, path):
    with open(path) as f:
        case = json.load(f)
    if isinstance(case, dict) and "case" in case and "property" in case:
        case = case["case"]
    try:
        run_oracle(prop, case)
    except Violation as v:
        return v
    return None


def run(pid, tier, seed, replay=None):
    t0 = time.time()
    prop = load_prop(pid)
    pid = prop.ID
    if replay:
        v = replay_one(prop, replay)
        if v is not None:
            print("VIOLATION property=%s replay=%s" % (pid, replay))
            print("  %s" % v)
            return 1
        print("OK property=%s replay=%s holds" % (pid, replay))
        return 0

    budget = getattr(prop, "BUDGET", {}).get(tier, 240 if tier == "quick" else 2400)
    deadline = t0 + budget
    violations = []   # (sig, msg, path)
    harness_errors = []

    # 0. known findings: replay each witness strictly
    known_lines = findings.announce(prop, run_oracle)
    for l in known_lines:
        print(l)

    # 1. replay tier
    rdir = os.path.join(ROOT, "replays", pid)
    replayed = 0
    if os.path.isdir(rdir):
        for fn in sorted(os.listdir(rdir)):
            if not fn.endswith(".json"):
                continue
            path = os.path.join(rdir, fn)
            replayed += 1
            try:
                v = replay_one(prop, path)
            except HarnessFailure as e:
                harness_errors.append("replay %s: %s" % (fn, e))
                continue
            if v is not None:
                violations.append((v.sig, v.msg, path))

    # 2. generated tiers
    jobs = _plan(prop, tier)
    args = [(pid, tier, name, i, n, seed, deadline) for (name, i, n) in jobs]
    results = []
    if args:
        if WORKERS <= 1 or len(args) == 1:
            results = [work(a) for a in args]
        else:
            ctx = multiprocessing.get_context("fork")
            with ctx.Pool(min(WORKERS, len(args))) as pool:
                results = pool.map(work, args, chunksize=1)

    evals = replayed
    hashes = set()
    labels = collections.Counter()
    notes = collections.Counter()
    per_source = collections.Counter()
    first, low = [], []
    failures = {}
    excluded_hits = 0
    budget_exhausted = False
    for r in results:
        if "harness_error" in r:
            harness_errors.append("%s: %s" % (r["source"], r["harness_error"]))
            continue
        evals += r["evals"]
        per_source[r["source"]] += r["evals"]
        hashes.update(r["hashes"])
        labels.update(r["labels"])
        notes.update(r["notes"])
        excluded_hits += r["excluded_hits"]
        budget_exhausted = budget_exhausted or r["budget_exhausted"]
        if len(first) < 3:
            first.extend(r["first"][:3 - len(first)])
        low.extend(r["low"])
        for sig, (cnt, msg, case) in r["failures"].items():
            ent = failures.get(sig)
            if ent is None:
                failures[sig] = [cnt, msg, case]
            else:
                ent[0] += cnt
                if len(canon(case)) < len(canon(ent[2])):
                    ent[1], ent[2] = msg, case
    low.sort(key=lambda t: t[0])
    seen, samples = set(), []
    for c in first + [c for _, c in low]:
        k = canon(c)
        if k not in seen:
            seen.add(k)
            samples.append(c)
    samples = samples[:N_SAMPLES + 3]

    outroot = os.environ.get("VERIF_OUT_DIR") or ROOT   # self-test runs keep /verif/evidence clean
    fdir = os.path.join(outroot, "failures", pid)
    if os.path.isdir(fdir):
        for fn in os.listdir(fdir):
            os.unlink(os.path.join(fdir, fn))
    for sig in sorted(failures):
        cnt, msg, case = failures[sig]
        os.makedirs(fdir, exist_ok=True)
        import hashlib
        path = os.path.join(fdir, "%s.json" % hashlib.sha1(sig.encode()).hexdigest()[:12])
        with open(path, "w") as f:
            json.dump(dict(property=pid, signature=sig, message=msg, count=cnt, tier=tier,
                           seed=seed, case=case), f, indent=1, ensure_ascii=True)
        violations.append((sig, msg, path))

    wall = time.time() - t0
    ev = dict(
        property_id=pid, tier=tier, seed=seed, level=prop.LEVEL, wall_s=round(wall, 2),
        violations=len(violations),
        coverage=dict(
            evaluations=evals, distinct_nontrivial=len(hashes), rule=prop.RULE,
            samples=samples if samples else [], labels=dict(sorted(labels.items())),
            per_source=dict(per_source), replayed=replayed, notes=dict(sorted(notes.items())),
            exhaustive=bool(getattr(prop, "EXHAUSTIVE", {}).get(tier)) and not budget_exhausted,
            exhaustive_scope=getattr(prop, "EXHAUSTIVE", {}).get(tier, ""),
            excluded_hits=excluded_hits, known_findings=known_lines,
            known_finding_hits=notes.get("known_finding_hits", 0) + labels.get("known-finding-hit", 0),
            budget_exhausted=budget_exhausted, budget_s=budget, workers=WORKERS,
            violation_signatures=sorted(failures),
            harness_errors=harness_errors[:5]),
        assumptions=list(prop.ASSUMPTIONS))
    os.makedirs(os.path.join(outroot, "evidence"), exist_ok=True)
    with open(os.path.join(outroot, "evidence", "%s.json" % pid), "w") as f:
        json.dump(ev, f, indent=1, ensure_ascii=True, sort_keys=True)
        f.write("\n")

    print("%s %s seed=%d: %d evaluations, %d distinct non-trivial, %.1fs%s" % (
        pid, tier, seed, evals, len(hashes), wall,
        " (budget exhausted: inconclusive beyond this point)" if budget_exhausted else ""))
    for sig, msg, path in violations:
        print("VIOLATION property=%s replay=%s" % (pid, path))
        print("  [%s] %s" % (sig, short(msg, 400)))
    if harness_errors:
        for h in sorted(set(harness_errors))[:3]:
            print("HARNESS-ERROR %s" % h, file=sys.stderr)
        return 1 if violations else 2
    return 1 if violations else 0
