"""C18 - ed-style patch scripts are applied exactly; malformed scripts raise ValueError.

Three kinds of cases (all lines are str ending in one "\\n"; bytes runs encode them as UTF-8):

  {"kind": "pair", "old": [...], "new": [...], "differ": "lcs" | "difflib" | "diff-e",
   "style": 0..7, "bytes": bool, "form": "list" | "iter" | "gen" | "tuple",
   "nofinal": bool,       # the script's last line is given without its newline
   "via": [lines, ...]}   # optional: intermediate texts; the script is the diffs old->via[0]->...->new in a row
      the script is derived from (old, new) by the harness's own differ (model/c18_eddiff.py;
      ``style`` varies the spelling: N vs N,N, change as delete+append, one line per command) or
      by /usr/bin/diff -e; patch_lines(old, patches_from_ed_script(script)) must give new.

  {"kind": "corrupt", ...same fields..., "cmd": k, "how": [class, variant]}
      the same script with exactly one defect put into its k-th command (k modulo the number of
      commands; classes in CORRUPTIONS); consuming patches_from_ed_script must raise ValueError.
      The class "empty-string" puts "" / b"" (an element without any terminator, as
      text.split("\\n") or a blanked list element leaves it) where a command is expected.

  {"kind": "big", "n", "uniq", "phase", "step", "count", "ops", "end", "differ", "style", "bytes", "form"}
      a compact description of a long file (up to a few thousand lines) with ``count`` scattered
      edits, expanded by model/c18_eddiff.big_pair into (old, new) and the hunks it was built from;
      then checked exactly like a pair case.  differ "plan" emits the script from those hunks
      (also used instead of "lcs" when the quadratic LCS table would exceed LCS_CELLS).  These
      are the only cases whose scripts have more than ~20 commands (24 .. 4100 edits).
"""
import itertools
import re

from hypothesis import strategies as st

from ..core import Violation, Enum, Hyp, short
from ..model import c18_eddiff as ed

from debian.debian_support import patches_from_ed_script, patch_lines

ID = "C18"
LEVEL = "exploration"
RULE = ("pair cases: (old, new) line lists, new derived from old by 0..4 hunks (or independent, or "
        "equal), lines from an 11-line pool with repeats (look-alikes of commands and of the '.' "
        "terminator included, never a lone '.'), script from the harness's LCS differ / difflib / "
        "diff -e in 8 spellings, run as str and as UTF-8 bytes, script passed as list / iterator / "
        "generator / tuple; enumerated: every pair of lists of <=3 (quick) / <=4 (thorough) lines "
        "over 3 symbols x 2 differs x 8 spellings x str/bytes.  big cases: files of 60..1000 (Hypothesis) / up to "
        "16400 (enumerated) lines 'l<i>' with 24..230 (Hypothesis) / 31..1030 (quick) / 31..4100 (thorough) "
        "edits every 1..5 lines (delete 1-2, insert 1 or 3, change 1->1, 2->1, 1->2; inserted text includes "
        "look-alikes of commands and terminators; optional edit at line 0 and append after the last line; "
        "uniq 13 / 97 makes old lines repeat), script from lcs / difflib / the build plan / diff -e in 8 "
        "spellings, str and bytes, 4 script forms.  corrupt cases: one command of such "
        "a script damaged (class x variant x position; classes: letter, missing letter / number, "
        "leading / trailing garbage, bad address syntax, non-ASCII decimal digit, N,Ma, text block "
        "cut off at the end of the script, empty string '' / b'' instead of / before / after the "
        "command).  Non-trivial pair = script with >=2 "
        "commands, or a command touching the first line / position 0 or the last line of the "
        "buffer it is applied to; non-trivial corruption = the damaged command is not the only "
        "command, or the defect is an unterminated text block; distinct = distinct canonical JSON")
ASSUMPTIONS = [
    "the expected result is `new` itself; the harness's differ and its sequential ed model "
    "(model/c18_eddiff.py, no regexes, no library code) must agree with it, else exit 2",
    "GNU diff -e as second script source when /usr/bin/diff exists (label diff-e-unavailable otherwise)",
    "lines are '\\n'-terminated and none is a lone '.', which plain a/c/d scripts cannot carry",
    "only syntactic defects count as malformed (0c, reversed ranges, addresses past EOF are not generated)",
    "an empty string element where a command is expected is a malformed command (it matches no a/c/d "
    "syntax); the library's treatment of '' inside a text block is not asserted",
    "big cases: the pair and its hunks come from a deterministic expansion of the description "
    "(model/c18_eddiff.big_pair); hunks and script are self-checked against the ed model before use",
    "Hypothesis 6.168 generators; sha1 for distinctness",
]
EXHAUSTIVE = {
    "quick": "all (old, new) with <=3 lines each over {a, b, ..} x {lcs, difflib} x 8 spellings x {str, bytes}; "
             "all corruption class/variant/position combinations over 10 fixed scripts; big pairs with "
             "31, 32, 33, 34, 64, 65, 100, 129, 200, 257, 520, 1030 edits x 3 mixes x differs x {str, bytes}",
    "thorough": "all (old, new) with <=4 lines each over {a, b, ..} x {lcs, difflib} x 8 spellings x {str, bytes}; "
                "all corruption class/variant/position combinations over 10 fixed scripts; big pairs with "
                "31 .. 4100 edits (around every power of two from 32 to 4096) x 3 mixes x differs x {str, bytes}",
}
EXHAUSTIVE_BIG = ("long files (2..4 lines per edit) with N scattered edits, N around 32, 64, 128 .. (BIG_COUNTS) x "
                  "3 edit mixes x {lcs (N <= 200), difflib (N <= 1100), build plan, diff -e} x {str, bytes}; spelling and "
                  "script form cycle")
BUDGET = {"quick": 150, "thorough": 1500}

POOL = ["a\n", "b\n", "c\n", "..\n", " .\n", ". \n", "1a\n", "2,3d\n", "\n", "é\n", ".x\n",
        # a line ends at "\n" and nowhere else: characters that str/bytes.splitlines() would also
        # break at are ordinary text inside a line
        "p\x0cq\n", "\x0c.\n", "x\ry\n", "z\r\n", "\x0b\n", "u\x85v\n", "\u2028w\n", "s\x1ct\x1du\x1e\n",
        ".\r\n", "3d\r\n",
        # a dot next to non-ASCII text is text, also for a reader that drops what it cannot decode
        "\u2026.\n", ".\u00e9\n", "\u00e9.\u6f22\n"]
FORMS = ("list", "iter", "gen", "tuple")
DIFFERS = ("lcs", "difflib", "diff-e")

# Spellings that are garbage for ed itself as well as for the a/c/d subset: no other ed command
# letters (i, s, p, w ...), no relative / symbolic addresses (+3, $, ., ;), no ",3d".  The two
# exceptions are the ones DESIGN.md names: a command without any number (ed would use the current
# line, which a stateless patch list does not have) and "N,Ma" (rejected explicitly by the library).
BAD_LETTERS = ["b", "o", "h", "A", "C", "D", "B", "_", "ac", "aa", "é"]
TRAIL = [" ", "x", "=", ".", "\r", " 1", "\t", "!", "1", "\u00e9", "\u2026"]
LEAD = ["x", "#", "a", "d", "=", "_", "\u00e9"]
CORRUPTIONS = {
    # class: number of variants
    "bad-letter": len(BAD_LETTERS),
    "no-letter": 1,
    "no-number": 2,
    "trailing-garbage": len(TRAIL) + 1,
    "leading-garbage": len(LEAD),
    "bad-address": 6,
    "range-append": 2,
    "non-ascii-digit": 6,      # a decimal digit of another script in the address
    "unterminated-end": 3,
    "unterminated-dropdot": 1,
    # an empty string (no terminator at all: what text.split("\n") leaves behind, or a blanked
    # list element) standing where a command is expected: instead of the command line, before
    # it, or after the command (after its text block; for the last command: at the end)
    "empty-string": 3,
}
LCS_CELLS = 500000      # the longhand LCS table is quadratic: bigger pairs use their build plan


# ------------------------------------------------------------------------------------------
# case plumbing


def valid_lines(lines):
    return (isinstance(lines, list) and
            all(isinstance(l, str) and l.endswith("\n") and l.count("\n") == 1 and l != ".\n"
                and "\r" not in l for l in lines))


def build_script(case, plan=None):
    """-> (script, labels) from the case by the requested differ ("plan": the hunks the pair was
    built from, big cases only)."""
    old, new = case["old"], case["new"]
    differ = case.get("differ", "lcs")
    via = case.get("via")
    if via:
        # several diffs in a row (old -> via[0] -> ... -> new) written one after the other: still
        # an ed script - every command addresses the buffer as the commands before it left it
        texts = [old] + list(via) + [new]
        script = []
        for a, b in zip(texts, texts[1:]):
            script += ed.make_script(a, b, differ if differ in ("lcs", "difflib") else "lcs",
                                     int(case.get("style", 0)) & 15)
        return script, ["differ:chain-of-%d" % (len(texts) - 1)]
    if plan is not None and (differ == "plan" or (differ == "lcs" and len(old) * len(new) > LCS_CELLS)):
        return ed.emit_plan(old, new, plan, int(case.get("style", 0)) & 15), ["differ:plan"]
    if differ == "diff-e":
        script = ed.diff_e(old, new)
        if script is None:
            return ed.make_script(old, new, "lcs", 0), ["diff-e-unavailable"]
        return script, ["differ:diff-e"]
    if differ not in ("lcs", "difflib"):
        differ = "lcs"
    return ed.make_script(old, new, differ, int(case.get("style", 0)) & 15), ["differ:" + differ]


def as_form(lines, form):
    if form == "iter":
        return iter(lines)
    if form == "gen":
        return (l for l in lines)
    if form == "tuple":
        return tuple(lines)
    return list(lines)


def encoder(case):
    if case.get("bytes"):
        return lambda l: l.encode("utf-8")
    return lambda l: l


def cmd_class(c):
    return c["letter"] + ("1" if c["n2"] is None else "N")


# ------------------------------------------------------------------------------------------
# oracle: application


def check_big(case):
    """Expand the compact description and treat the result like any other pair."""
    old, new, plan = ed.big_pair(case)
    if not valid_lines(old) or not valid_lines(new):
        raise ed.ModelError("big_pair produced invalid lines")
    nontrivial, labels = check_pair(dict(case, kind="pair", old=old, new=new), plan)
    return nontrivial, sorted(set(labels) - {"kind:pair"} | {"kind:big"})


def check_pair(case, plan=None):
    old, new = case["old"], case["new"]
    script, labels = build_script(case, plan)
    cmds = ed.parse_script(script)
    model, steps = ed.apply_commands(old, cmds)
    if model != new:
        raise ed.ModelError("script from %s does not give the target under the ed model" % case.get("differ"))
    enc = encoder(case)
    form = case.get("form", "list")
    eold, enew, escript = [enc(l) for l in old], [enc(l) for l in new], [enc(l) for l in script]
    if case.get("nofinal") and escript:
        # a script whose last line lacks its newline (a file without a final newline read with
        # readlines(); the library documents both '.' and '.\n' as terminators)
        escript[-1] = escript[-1][:-1]
        labels.append("script-without-final-newline")

    # the triples, one by one
    triples = list(patches_from_ed_script(as_form(escript, form)))
    cur = list(eold)
    oob = None
    for t in triples:
        if not (isinstance(t, tuple) and len(t) == 3 and type(t[0]) is int and type(t[1]) is int
                and isinstance(t[2], list)):
            raise Violation("bad-triple", "not a (first, last, lines) triple: %s" % short(t))
        if oob is None and not 0 <= t[0] <= t[1] <= len(cur):
            oob = (t, len(cur))
        patch_lines(cur, [t])
    # the documented composition, generator consumed lazily
    direct = list(eold)
    patch_lines(direct, patches_from_ed_script(as_form(escript, form)))

    if cur != enew or direct != enew:
        sig = "patch_lines" if cur == enew else diagnose(triples, cmds, steps, enc)
        raise Violation("wrong-result:" + sig, "old=%s script=%s gives %s, expected %s" % (
            short(eold, 120), short(escript, 200), short(direct if direct != enew else cur, 120), short(enew, 120)))
    if oob is not None:
        raise Violation("patch-out-of-bounds", "triple %s for a buffer of %d lines (script %s)" % (
            short(oob[0], 80), oob[1], short(escript, 200)))

    # The same script, old and new text as lines WITHOUT their terminators (read().splitlines();
    # the bare '.' is documented as a terminator for exactly this use): the same result, stripped.
    nl = enc("\n")
    # (not with an empty line in the script: stripped it is '', which the reader takes for the end
    # of the stream - "end of stream in command" - as file.readline() reports it)
    if all(l.endswith(nl) for l in eold + enew + escript) and nl not in escript:
        bare = list(l[:-1] for l in eold)
        patch_lines(bare, patches_from_ed_script(as_form([l[:-1] for l in escript], form)))
        if bare != [l[:-1] for l in enew]:
            raise Violation("wrong-result:lines-without-terminators", "old=%s script=%s, every line given without "
                            "its newline, gives %s, expected %s" % (short(eold, 120), short(escript, 200),
                                                                    short(bare, 120), short(enew, 120)))
        labels.append("lines-without-terminators")

    # coverage labels
    labels += ["kind:pair", "bytes" if case.get("bytes") else "str", "form:" + form,
               "commands:%s" % (len(cmds) if len(cmds) < 4 else "4+")]
    labels += ["commands>%d" % b for b in (8, 16, 32, 64, 128, 256, 512, 1024) if len(cmds) > b]
    edge = False
    for c, (first, last, text, before) in zip(cmds, steps):
        labels.append("cmd:" + cmd_class(c))
        if c["letter"] == "a":
            if first == 0:
                labels.append("insert-at-0")
                edge = True
            if first == before:
                labels.append("append-at-end")
                edge = True
        else:
            if first == 0:
                labels.append("touches-first-line")
                edge = True
            if last == before:
                labels.append("touches-last-line")
                edge = True
            if first == 0 and last == before and not text:
                labels.append("delete-all")
        if any(l[:1] == "." for l in text):
            labels.append("text-line-starting-with-dot")
        if any(l[:1] in "0123456789" for l in text):
            labels.append("text-line-like-a-command")
        if "\n" in text:
            labels.append("blank-text-line")
    for (f1, l1, _, _), (f2, l2, _, _) in zip(steps, steps[1:]):
        if l2 >= f1 - 1:
            labels.append("adjacent-commands")
            break
    if not old:
        labels.append("old-empty")
    if not new:
        labels.append("new-empty")
    for digits, name in ((2, "two"), (3, "three"), (4, "four")):
        if max(len(old), len(new)) >= 10 ** (digits - 1):
            labels.append(name + "-digit-addresses")
    labels = sorted(set(labels))
    return (len(cmds) >= 2 or edge, labels)


def diagnose(triples, cmds, steps, enc):
    """Name the first command whose triple is not what the ed model does (signature only)."""
    for k, c in enumerate(cmds):
        if k >= len(triples):
            return "command-count"
        first, last, text, _ = steps[k]
        t = triples[k]
        if (t[0], t[1]) != (first, last):
            return cmd_class(c)
        if t[2] != [enc(l) for l in text]:
            return "text-block"
    if len(triples) != len(cmds):
        return "command-count"
    return "patch_lines"


# ------------------------------------------------------------------------------------------
# oracle: corruption


def corrupt(script, cmds, k, cls, var):
    """-> (damaged script, labels) or (None, reason it does not apply)."""
    k %= len(cmds)
    order = cmds[k:] + cmds[:k]
    if cls == "range-append":
        order = [c for c in order if c["letter"] == "a"]
    elif cls.startswith("unterminated"):
        order = [c for c in order if c["letter"] != "d"]
    if not order:
        return None, "no-suitable-command"
    c = order[0]
    at = c["at"]
    body = script[at][:-1]
    addr, letter = body[:-1], body[-1]
    s = list(script)
    if cls == "bad-letter":
        s[at] = addr + BAD_LETTERS[var % len(BAD_LETTERS)] + "\n"
    elif cls == "no-letter":
        s[at] = addr + "\n"
    elif cls == "no-number":
        s[at] = [letter, ""][var % 2] + "\n"
    elif cls == "trailing-garbage":
        s[at] = body + (TRAIL + [letter])[var % (len(TRAIL) + 1)] + "\n"
    elif cls == "leading-garbage":
        s[at] = LEAD[var % len(LEAD)] + body + "\n"
    elif cls == "bad-address":
        a1 = addr.split(",")[0]
        bad = [a1[:1] + "x" + a1[1:] + addr[len(a1):],      # 3x / 3x,4
               "0x" + addr,
               addr + "e1",
               "n" + addr,
               a1 + ",x",
               addr.replace(",", "_") if "," in addr else addr + "_" + addr][var % 6]
        s[at] = bad + letter + "\n"
    elif cls == "non-ascii-digit":
        # Arabic-Indic, Devanagari, fullwidth; in the first or (if there is one) the last address
        zero = [0x0660, 0x0966, 0xFF10][var % 3]
        parts = addr.split(",")
        which = -1 if var >= 3 else 0
        num = parts[which]
        pos = (var // 3) % len(num) if which == 0 else len(num) - 1
        parts[which] = num[:pos] + chr(zero + int(num[pos])) + num[pos + 1:]
        s[at] = ",".join(parts) + letter + "\n"
    elif cls == "range-append":
        n = c["n1"]
        s[at] = ["%d,%da\n" % (n, n), "%d,%da\n" % (max(n - 1, 0), n)][var % 2]
    elif cls == "empty-string":
        if var % 3 == 0:
            s[at] = ""
        else:
            s.insert(at if var % 3 == 1 else (at + 1 if c["dot"] is None else c["dot"] + 1), "")
    elif cls == "unterminated-end":
        # the script stops inside the text block: all text, part of it, or right after the command
        keep = [len(c["text"]), len(c["text"]) // 2, 0][var % 3]
        s = s[:at + 1 + keep]
    elif cls == "unterminated-dropdot":
        s = s[:c["dot"]] + s[c["dot"] + 1:]
        if ".\n" in s[c["dot"]:]:
            return None, "still-terminated-by-a-later-dot"
    else:
        return None, "unknown-class"
    if s == script:
        return None, "no-change"
    info = ["corrupt-cmd:first" if at == 0 else "corrupt-cmd:last" if c is cmds[-1] else "corrupt-cmd:middle"]
    if cls == "empty-string":
        info.append("empty-string:" + ["replaces-command", "before-command", "after-command"][var % 3])
        if s[-1] == "":
            info.append("empty-string-ends-script")
    if cls == "unterminated-end" and len(s) == at + 1:
        info.append("unterminated-empty-block")
    return s, info


def check_corrupt(case):
    script, labels = build_script(case)
    cmds = ed.parse_script(script)
    how = case.get("how") or ["bad-letter", 0]
    cls, var = str(how[0]), int(how[1]) if len(how) > 1 else 0
    if cls not in CORRUPTIONS or not cmds:
        return (False, ("corruption-not-applicable",))
    bad, why = corrupt(script, cmds, int(case.get("cmd", 0)), cls, var)
    if bad is None:
        return (False, ("corruption-not-applicable", "skip:" + why))
    enc = encoder(case)
    form = case.get("form", "list")
    ebad = [enc(l) for l in bad]
    unterminated = cls.startswith("unterminated")
    sig = "unterminated-block-accepted" if unterminated else "malformed-accepted:" + cls
    # The documented `re_cmd` parameter lets a caller bring a pattern of their own.  What such a
    # call accepted earlier in this process (here: a deliberately tolerant pattern that takes
    # almost any line as "1d") must not change what the default pattern accepts afterwards.
    if ebad and isinstance(ebad[0], bytes):
        lax = re.compile(rb"^\D*(\d*)(?:,\s*(\d*))?\s*([acd]?).*$", re.S)
    else:
        lax = re.compile(r"^\D*(\d*)(?:,\s*(\d*))?\s*([acd]?).*$", re.S)
    try:
        for _ in patches_from_ed_script(list(ebad), re_cmd=lax):
            pass
    except (ValueError, TypeError, IndexError):
        pass          # whatever the caller's pattern leads to is the caller's business
    try:
        got = list(patches_from_ed_script(as_form(ebad, form)))
    except ValueError:
        got = None
    if got is not None:
        raise Violation(sig, "%s -> %s (no ValueError)" % (short(ebad, 200), short(got, 150)))
    # and the way it is used: patch_lines over the lazy generator
    buf = [enc(l) for l in case["old"]]
    try:
        patch_lines(buf, patches_from_ed_script(as_form(ebad, form)))
    except ValueError:
        pass
    else:
        raise Violation(sig, "patch_lines accepted %s" % short(ebad, 200))
    labels += ["kind:corrupt", "corr:" + cls, "bytes" if case.get("bytes") else "str", "form:" + form] + why
    return (len(cmds) >= 2 or unterminated, sorted(set(labels)))


def check(case):
    if isinstance(case, dict) and case.get("kind") == "big":
        return check_big(case)
    if not isinstance(case, dict) or not valid_lines(case.get("old")) or not valid_lines(case.get("new")):
        return (False, ("invalid-case-skipped",))
    if case.get("via") is not None and not (isinstance(case["via"], list) and len(case["via"]) <= 4
                                             and all(valid_lines(v) for v in case["via"])):
        return (False, ("invalid-case-skipped",))
    if case.get("kind") == "corrupt":
        return check_corrupt(case)
    return check_pair(case)


# ------------------------------------------------------------------------------------------
# generators

# one draw per line (weights by repetition): generation cost, not the oracle, dominates the run time
line = st.sampled_from(["a\n", "b\n", "c\n"] * 4 + POOL)
lines = st.lists(line, max_size=12)
few = st.lists(line, max_size=3)
hunk = st.tuples(st.sampled_from(["any", "any", "start", "end"]), st.integers(0, 12),
                 st.sampled_from([0, 0, 1, 1, 2, 3, 12]), few, st.sampled_from([0, 1, 1, 2, 4]))


@st.composite
def gen_old_new(draw):
    old = draw(lines)
    mode = draw(st.sampled_from(["edit", "edit", "edit", "edit", "indep", "same"]))
    if mode == "same":
        return old, list(old)
    if mode == "indep":
        return old, draw(lines)
    new = list(old)
    # hunks applied from the back so that positions refer to `old`; they never overlap
    limit = len(old)
    for where, p, ndel, ins, gap in draw(st.lists(hunk, max_size=4)):
        if limit < 0:
            break
        pos = {"start": 0, "end": limit}.get(where, p % (limit + 1))
        ndel = min(ndel, limit - pos)
        if ndel == 0 and not ins:
            ins = [POOL[p % len(POOL)]]
        new[pos:pos + ndel] = ins
        limit = pos - gap
    return old, new


@st.composite
def gen_pair(draw, differs=("lcs", "lcs", "difflib")):
    old, new = draw(gen_old_new())
    return {"kind": "pair", "old": old, "new": new, "differ": draw(st.sampled_from(differs)),
            "style": draw(st.integers(0, 15)), "bytes": draw(st.booleans()),
            "form": draw(st.sampled_from(FORMS)), "nofinal": draw(st.sampled_from([False, False, False, True]))}


@st.composite
def gen_chain(draw):
    case = draw(gen_pair())
    n = draw(st.integers(1, 3))
    via = []
    cur = case["old"]
    for _ in range(n):
        nxt = list(cur)
        for _h in range(draw(st.integers(1, 2))):
            pos = draw(st.integers(0, len(nxt)))
            nxt[pos:pos + draw(st.integers(0, 2))] = draw(few)
        via.append(nxt)
        cur = nxt
    case["via"] = via
    return case


def enum_chains():
    """old -> mid -> new over short texts: every pair of small edits whose second diff touches
    lines the first one wrote, precedes it, follows it or overlaps it."""
    base = ["a\n", "b\n", "c\n", "a\n", "b\n"]
    edits = []
    for pos in range(0, 6):
        for ndel in (0, 1, 2):
            for ins in ([], ["X\n"], ["X\n", "Y\n"], ["..\n", "1d\n"]):
                if ndel or ins:
                    edits.append((pos, ndel, ins))
    k = 0
    for e1 in edits:
        mid = list(base)
        mid[e1[0]:e1[0] + e1[1]] = e1[2]
        for e2 in edits:
            if e2[0] > len(mid):
                continue
            new = list(mid)
            new[e2[0]:e2[0] + e2[1]] = e2[2]
            k += 1
            yield {"kind": "pair", "old": base, "via": [mid], "new": new, "differ": ("lcs", "difflib")[k % 2],
                   "style": k % 8, "bytes": k % 3 == 0, "form": FORMS[k % 4], "nofinal": k % 7 == 0}


@st.composite
def gen_corrupt(draw):
    case = draw(gen_pair())
    if case["old"] == case["new"]:
        case["new"] = case["new"] + [draw(line)]
    case["kind"] = "corrupt"
    cls = draw(st.sampled_from(sorted(CORRUPTIONS) + ["unterminated-end", "unterminated-end"]))
    case["cmd"] = draw(st.integers(0, 5))
    case["how"] = [cls, draw(st.integers(0, max(CORRUPTIONS[cls] - 1, 0)))]
    return case


@st.composite
def gen_big(draw):
    """A few hundred lines with 24..230 scattered edits (mostly more than 32 hunks)."""
    count = draw(st.one_of(st.integers(33, 230), st.sampled_from([24, 31, 32, 33, 34, 63, 64, 65, 66, 127, 128, 129, 130])))
    step = draw(st.sampled_from([1, 2, 2, 3, 3, 3, 4, 5]))
    phase = draw(st.integers(0, 4))
    tail = draw(st.sampled_from([0, 0, 1, 2, 7, 40]))
    return {"kind": "big", "n": min(phase + count * step + tail - draw(st.integers(0, 1)), 1000),
            "uniq": draw(st.sampled_from([1000000, 1000000, 1000000, 97, 13])),
            "phase": phase, "step": step, "count": count,
            "ops": draw(st.lists(st.integers(0, 6), min_size=1, max_size=6)),
            "end": draw(st.booleans()),
            "differ": draw(st.sampled_from(["lcs", "difflib", "plan", "diff-e"])),
            "style": draw(st.integers(0, 15)), "bytes": draw(st.booleans()),
            "form": draw(st.sampled_from(FORMS))}


BIG_COUNTS = {"quick": (31, 32, 33, 34, 64, 65, 100, 129, 200, 257, 520, 1030),
              "thorough": (31, 32, 33, 34, 63, 64, 65, 66, 96, 97, 100, 128, 129, 130, 200, 256, 257, 258,
                           512, 513, 1024, 1025, 2049, 4100)}
BIG_OPS = ([0, 1, 2, 3, 4, 5, 6], [2], [1, 0])


def enum_big(tier):
    """Edit counts around powers of two x edit mix x differ x str/bytes; spelling and form cycle."""
    def gen():
        k = 0
        for count in BIG_COUNTS[tier]:
            for ops in BIG_OPS:
                for differ in ("lcs", "difflib", "plan", "diff-e"):
                    if (differ == "lcs" and count > 200) or (differ == "difflib" and count > 1100):
                        continue        # lcs would fall back to the plan anyway; difflib gets slow
                    for b in (False, True):
                        k += 1
                        step = 2 + k % 3
                        yield {"kind": "big", "n": count * step + (k % 5), "uniq": 1000000,
                               "phase": k % 2, "step": step, "count": count, "ops": ops,
                               "end": k % 4 < 2, "differ": differ, "style": k % 8, "bytes": b,
                               "form": FORMS[(k // 2) % 4]}
    return gen


SYMS = ["a\n", "b\n", "..\n"]


def enum_pairs(maxlen):
    def gen():
        seqs = [list(s) for n in range(maxlen + 1) for s in itertools.product(SYMS, repeat=n)]
        k = 0
        for old in seqs:
            for new in seqs:
                for differ in ("lcs", "difflib"):
                    for style in list(range(8)) + [8, 9, 11, 12]:
                        for b in (False, True):
                            k += 1
                            yield {"kind": "pair", "old": old, "new": new, "differ": differ,
                                   "style": style, "bytes": b, "form": FORMS[k % 4],
                                   "nofinal": k % 5 == 0}
    return gen


FIXED = [
    (["a\n"], []),
    ([], ["a\n"]),
    (["a\n", "b\n"], ["a\n", "c\n", "b\n"]),
    (["a\n", "b\n", "c\n"], ["a\n", "c\n"]),
    (["a\n", "b\n", "c\n"], ["a\n", "x\n", "y\n", "c\n"]),
    (["a\n", "b\n", "c\n", "a\n", "b\n"], ["1a\n", "a\n", "c\n", "a\n", "b\n", "..\n"]),
    (["a\n", "b\n", "c\n", "a\n", "b\n"], ["b\n", "c\n", "a\n"]),
    (["a\n"] * 11, ["a\n"] * 4 + ["b\n", "\n"] + ["a\n"] * 5),
    (["a\n", "b\n", "c\n"], [" .\n", "b\n", ". \n"]),
    (["a\n", "b\n", "c\n", "a\n"], ["c\n", "a\n", "b\n", "b\n"]),
]


def enum_corruptions():
    k = 0
    for old, new in FIXED:
        for style in (0, 1, 2, 4):
            ncmd = len(ed.parse_script(ed.make_script(old, new, "lcs", style)))
            for cmd in range(ncmd):
                for cls in sorted(CORRUPTIONS):
                    for var in range(CORRUPTIONS[cls]):
                        for b in (False, True):
                            k += 1
                            yield {"kind": "corrupt", "old": old, "new": new, "differ": "lcs",
                                   "style": style, "bytes": b, "form": FORMS[k % 4],
                                   "cmd": cmd, "how": [cls, var]}


def sources(tier):
    diff_pairs = gen_pair(differs=("diff-e",))
    if tier == "quick":
        return [Enum("pairs<=3", enum_pairs(3), EXHAUSTIVE["quick"]),
                Enum("corruptions-fixed", enum_corruptions, "class x variant x command over 10 fixed pairs"),
                Enum("big-pairs", enum_big("quick"), EXHAUSTIVE_BIG),
                Enum("chains", enum_chains, "two diffs in a row over a 5-line text: every pair of small edits (54 x 54)"),
                Hyp("pairs", gen_pair(), 700, shards=8),
                Hyp("chained-diffs", gen_chain(), 300, shards=4),
                Hyp("corruptions", gen_corrupt(), 250, shards=6),
                Hyp("diff-e", diff_pairs, 150, shards=2),
                Hyp("big", gen_big(), 25, shards=4)]
    return [Enum("pairs<=4", enum_pairs(4), EXHAUSTIVE["thorough"]),
            Enum("corruptions-fixed", enum_corruptions, "class x variant x command over 10 fixed pairs"),
            Enum("big-pairs", enum_big("thorough"), EXHAUSTIVE_BIG),
            Enum("chains", enum_chains, "two diffs in a row over a 5-line text: every pair of small edits (54 x 54)"),
            Hyp("pairs", gen_pair(), 15000, shards=16),
            Hyp("chained-diffs", gen_chain(), 4000, shards=8),
            Hyp("corruptions", gen_corrupt(), 2500, shards=16),
            Hyp("diff-e", diff_pairs, 250, shards=8),
            Hyp("big", gen_big(), 150, shards=16)]
