"""C04 - well-formed changelogs round-trip byte for byte through Changelog, and expose what was written.

case = {"form": "str" | "bytes" | "lines" | "lines-nl" | "bytes-lines" | "file",
        "lead": [...], "blocks": [...]}          (structure: see gen/c04_changelog.py)

The text is the plain concatenation of the rendered lines, each followed by "\\n"; everything the
library must expose is read off the structure (there is no model of the parser).
"""
import io
import warnings

from hypothesis import strategies as st

from ..core import Violation, Hyp, short
from ..gen import c04_changelog as G

from debian.changelog import Changelog, ChangelogParseError

ID = "C04"
LEVEL = "exploration"
RULE = ("cases are changelog structures drawn from the deb-changelog(5) grammar (1..4 blocks; header "
        "'pkg (version) dist...; urgency=U[ comment][, key=value]*'; change lines = blank lines or "
        ">=2 blanks + printable text incl. look-alikes of headers/trailers/mode lines; trailer "
        "' -- name <email>  date[blanks]'; 0..2 blank or whitespace-only lines before, inside and "
        "after blocks) x 6 input forms (str, UTF-8 bytes, list of lines with/without newline, list "
        "of bytes lines, file object); expected text = concatenation of the rendered lines. "
        "Non-trivial = >=2 blocks, or extra keys, or an urgency comment, or a change line "
        "containing '#', ':' or non-ASCII; distinct = distinct canonical JSON of the case")
ASSUMPTIONS = [
    "expected text and attributes are read off the generated structure (plain string concatenation, no parser model)",
    "alphabet: str.isprintable() characters (plus TAB in change lines, blank lines and after the date); "
    "characters on which str.splitlines() splits are outside the domain (DESIGN.md section 6)",
    "blanks after the date are accepted either as part of the exposed date or dropped from it; "
    "the byte-for-byte clause pins them down anyway",
    "a recogniser written with independent regular expressions rejects replay cases outside the domain",
    "Hypothesis 6.168 generators; sha1 for distinctness",
]
BUDGET = {"quick": 200, "thorough": 1500}

FORMS = ["str", "bytes", "lines", "lines-nl", "bytes-lines", "file"]


def make_input(form, lines):
    text = "".join(l + "\n" for l in lines)
    if form == "str":
        return text
    if form == "bytes":
        return text.encode("utf-8")
    if form == "lines":
        return list(lines)
    if form == "lines-nl":
        return [l + "\n" for l in lines]
    if form == "bytes-lines":
        return [(l + "\n").encode("utf-8") for l in lines]
    if form == "file":
        return io.StringIO(text)
    raise ValueError(form)


def _error_class(msg):
    prefix = "Could not parse changelog: "
    if msg.startswith(prefix):
        msg = msg[len(prefix):]
    for key, name in (("Unexpected line while looking for first heading", "unexpected-at-first-heading"),
                      ("Unexpected line while looking for next heading", "unexpected-at-next-heading"),
                      ("Unexpected line while looking for", "unexpected-in-block"),
                      ("Badly formatted trailer", "bad-trailer"),
                      ("Invalid key-value", "bad-key-value"),
                      ("Repeated key-value", "repeated-key"),
                      ("Badly formatted urgency", "bad-urgency"),
                      ("Found eof", "eof"),
                      ("Empty changelog", "empty")):
        if msg.startswith(key):
            return name
    return "other"


def _expect(sig, what, got, want):
    if got != want:
        raise Violation(sig, "%s is %s, written %s" % (what, short(got, 150), short(want, 150)))


PRIOR_TEXT = ("\nprior (0.1-1) unstable; urgency=low\n\n  * prior entry\n\n"
              " -- A B <a@b.c>  Mon, 01 Jan 2001 00:00:00 +0000\n\n"
              "prior (0.1-0) unstable; urgency=low\n\n  * older\n\n"
              " -- A B <a@b.c>  Sun, 31 Dec 2000 00:00:00 +0000\n")


def check(case):
    if not (isinstance(case, dict) and case.get("form") in FORMS and G.wellformed(case)):
        return (False, ("invalid-case-skipped",))
    lines = G.render_lines(case)
    text = "".join(l + "\n" for l in lines)
    inp = make_input(case["form"], lines)

    with warnings.catch_warnings(record=True) as caught:
        warnings.simplefilter("always")
        try:
            cl = Changelog(inp, strict=True)
        except ChangelogParseError as e:
            raise Violation("strict-rejects:" + _error_class(str(e)), "%s for %s" % (e, short(text)))
    if caught:
        m = str(caught[0].message)
        raise Violation("warning:" + _error_class(m), "%s for %s" % (m, short(text)))

    got = str(cl)
    if got != text:
        raise Violation("str-differs", "str() gives %s, text %s" % (short(got), short(text)))
    gotb = bytes(cl)
    if gotb != text.encode("utf-8"):
        raise Violation("bytes-differs", "bytes() gives %s" % short(gotb))

    want = case["blocks"]
    _expect("block-count", "len()", len(cl), len(want))
    got_blocks = list(cl)
    _expect("block-count", "number of iterated blocks", len(got_blocks), len(want))
    for i, (b, w) in enumerate(zip(got_blocks, want)):
        where = "block %d " % i
        _expect("attr:package", where + "package", b.package, w["package"])
        _expect("attr:version", where + "str(version)", str(b.version), w["version"])
        _expect("attr:distributions", where + "distributions", b.distributions, " ".join(w["dists"]))
        _expect("attr:urgency", where + "urgency", b.urgency, w["urgency"])
        _expect("attr:urgency_comment", where + "urgency_comment", b.urgency_comment, w["ucomment"])
        _expect("attr:other_pairs", where + "other_pairs",
                [list(kv) for kv in b.other_pairs.items()], [list(kv) for kv in w["pairs"]])
        _expect("attr:changes", where + "changes()", list(b.changes()), list(w["changes"]))
        _expect("attr:author", where + "author", b.author, G.author_of(w))
        if b.date != w["date"] + w["dtrail"] and b.date != w["date"]:
            raise Violation("attr:date", "%sdate is %r, written %r (+ %r)" % (where, b.date, w["date"], w["dtrail"]))
        if cl[i] is not b:
            raise Violation("block-order", "cl[%d] is not the %d-th iterated block" % (i, i))
    w0 = want[0]
    _expect("attr:versions", "versions", [str(v) for v in cl.versions], [w["version"] for w in want])
    _expect("attr:version", "Changelog.version", str(cl.version), w0["version"])
    _expect("attr:version", "Changelog.full_version", cl.full_version, w0["version"])
    _expect("attr:package", "Changelog.package", cl.package, w0["package"])
    _expect("attr:distributions", "Changelog.distributions", cl.distributions, " ".join(w0["dists"]))
    _expect("attr:urgency", "Changelog.urgency", cl.urgency, w0["urgency"])
    _expect("attr:author", "Changelog.author", cl.author, G.author_of(w0))
    if cl.date != w0["date"] + w0["dtrail"] and cl.date != w0["date"]:
        raise Violation("attr:date", "Changelog.date is %r" % (cl.date,))

    # The same text parsed into an object that already holds something (an earlier parse of a
    # different changelog, then scribbled on) must give the same result: what a Changelog holds
    # after parse_changelog() is a function of the text just parsed.
    used = Changelog(PRIOR_TEXT, strict=True)
    used[0].add_change("  * scribble")
    used.initial_blank_lines.append("")
    with warnings.catch_warnings(record=True) as caught:
        warnings.simplefilter("always")
        try:
            used.parse_changelog(make_input(case["form"], lines), strict=True)
        except ChangelogParseError as e:
            raise Violation("reparse-into-used-object:strict-rejects",
                            "%s for %s" % (e, short(text)))
    if caught:
        raise Violation("reparse-into-used-object:warning", "%s for %s" % (caught[0].message, short(text)))
    if str(used) != text or len(used) != len(want):
        raise Violation("reparse-into-used-object:str-differs",
                        "a Changelog that held another text gives %s after parse_changelog(%s input), text %s"
                        % (short(str(used)), case["form"], short(text)))

    labels = G.struct_labels(case)
    labels.add("form:" + case["form"])
    return (G.struct_nontrivial(case), sorted(labels))


# ------------------------------------------------------------------------------------------


@st.composite
def gen_case(draw, max_blocks=4):
    s = draw(G.structs(max_blocks=max_blocks))
    s["form"] = draw(st.sampled_from(FORMS))
    return s


def sources(tier):
    if tier == "quick":
        return [Hyp("grammar", gen_case(), 400, shards=8)]
    return [Hyp("grammar", gen_case(), 8000, shards=16)]
