"""C04 - well-formed changelogs round-trip byte for byte through Changelog, and expose what was written.

case = {"form": "str" | "bytes" | "lines" | "lines-nl" | "bytes-lines" | "file" | "bytes-file",
        "codec": "utf-8" | "latin-1" | ...,     (optional, default "utf-8": how bytes input is encoded)
        "via": "default" | "ctor" | "call" | "call-over",   (optional, default "default")
        "other": codec,                         (only for "call-over": the constructor's encoding)
        "lead": [...], "blocks": [...]}          (structure: see gen/c04_changelog.py)

The text is the plain concatenation of the rendered lines, each followed by "\\n"; everything the
library must expose is read off the structure (there is no model of the parser).

``encoding`` is the documented way to say how bytes input is to be read; it can be given to the
constructor, to parse_changelog(), or to both with different values (an explicit argument of the
call is what that call reads its input with).  "via" says where the codec of the input goes:

    default    Changelog(input, strict=True)                                   (codec is UTF-8)
    ctor       Changelog(input, strict=True, encoding=codec)
    call       Changelog().parse_changelog(input, strict=True, encoding=codec)
    call-over  Changelog(encoding=other).parse_changelog(input, strict=True, encoding=codec)

str-typed forms get the same treatment (the parameter must then be without effect on str()).
"""
import io
import warnings

from hypothesis import strategies as st

from ..core import Violation, Hyp, short
from ..gen import c04_changelog as G

from debian.changelog import Changelog, ChangelogParseError

ID = "C04"
LEVEL = "exploration"
RULE = ("cases are changelog structures drawn from the deb-changelog(5) grammar (1..4 blocks; header "
        "'pkg (version) dist...; urgency=U[ comment][, key=value]*'; change lines = blank lines or "
        ">=2 blanks + printable text incl. look-alikes of headers/trailers/mode lines; trailer "
        "' -- name <email>  date[blanks]'; 0..2 blank or whitespace-only lines before, inside and "
        "after blocks) x 7 input forms (str, bytes, list of lines with/without newline, list "
        "of bytes lines, text file object, binary file object) x encoding of bytes input (UTF-8, "
        "latin-1, iso-8859-15, cp1252, koi8-r, euc-jp, gb18030; UTF-16 for whole-text forms only; "
        "characters a codec cannot spell are replaced by characters it can) x where the "
        "codec is named (nowhere = UTF-8 default / encoding= of the constructor / encoding= of "
        "parse_changelog on a default object / encoding= of parse_changelog on an object "
        "constructed with a different encoding); expected text = concatenation of the rendered lines. "
        "Non-trivial = >=2 blocks, or extra keys, or an urgency comment, or a change line "
        "containing '#', ':' or non-ASCII; distinct = distinct canonical JSON of the case")
ASSUMPTIONS = [
    "expected text and attributes are read off the generated structure (plain string concatenation, no parser model)",
    "alphabet: str.isprintable() characters (plus TAB in change lines, blank lines and after the date); "
    "characters on which str.splitlines() splits are outside the domain (DESIGN.md section 6)",
    "blanks after the date are accepted either as part of the exposed date or dropped from it; "
    "the byte-for-byte clause pins them down anyway",
    "a recogniser written with independent regular expressions rejects replay cases outside the domain",
    "bytes input = Python's own codec applied to the expected text (checked to decode back to it); lines of "
    "bytes are the encoded lines (codecs are stateless and keep b'\\n' for the newline only); bytes() is "
    "compared with the encoded text only when the object was constructed with (or defaults to) the input's codec",
    "Hypothesis 6.168 generators; sha1 for distinctness",
]
BUDGET = {"quick": 200, "thorough": 1500}

FORMS = ["str", "bytes", "lines", "lines-nl", "bytes-lines", "file", "bytes-file"]
BYTES_FORMS = ("bytes", "bytes-lines", "bytes-file")
LINEWISE_BYTES_FORMS = ("bytes-lines", "bytes-file")
VIAS = ["default", "ctor", "call", "call-over"]
OTHERS = sorted(G.CODECS) + ["ascii"]


def make_input(form, lines, codec="utf-8"):
    text = "".join(l + "\n" for l in lines)
    if form == "str":
        return text
    if form == "bytes":
        return text.encode(codec)
    if form == "lines":
        return list(lines)
    if form == "lines-nl":
        return [l + "\n" for l in lines]
    if form == "bytes-lines":
        return [(l + "\n").encode(codec) for l in lines]
    if form == "file":
        return io.StringIO(text)
    if form == "bytes-file":
        return io.BytesIO(text.encode(codec))
    raise ValueError(form)


def encoding_of(case):
    """(codec, via, other) of a case, or None when the combination is outside the domain."""
    codec, via, other = case.get("codec", "utf-8"), case.get("via", "default"), case.get("other")
    if codec not in G.CODECS or via not in VIAS:
        return None
    if via == "default" and codec != "utf-8":
        return None
    if via == "call-over":
        if other not in OTHERS or other == codec:
            return None
    elif other is not None:
        return None
    if case["form"] in LINEWISE_BYTES_FORMS and codec in G.WHOLE_ONLY_CODECS:
        return None
    return codec, via, other


def parse_fresh(inp, codec, via, other):
    """A new Changelog made from the input, the codec named where ``via`` says."""
    if via == "default":
        return Changelog(inp, strict=True)
    if via == "ctor":
        return Changelog(inp, strict=True, encoding=codec)
    cl = Changelog() if via == "call" else Changelog(encoding=other)
    cl.parse_changelog(inp, strict=True, encoding=codec)
    return cl


def parse_into_used(inp, codec, via, other):
    """The input parsed into a Changelog that already holds (scribbled-on) blocks of another text."""
    if via == "default":
        used = Changelog(PRIOR_TEXT, strict=True)
    elif via == "ctor":
        used = Changelog(PRIOR_TEXT.encode(codec), strict=True, encoding=codec)
    elif via == "call":
        used = Changelog(PRIOR_TEXT, strict=True)
    else:
        # the earlier parse read bytes in the object's own (different) encoding
        used = Changelog(PRIOR_TEXT.encode(other), strict=True, encoding=other)
    used[0].add_change("  * scribble")
    used.initial_blank_lines.append("")
    if via in ("default", "ctor"):
        used.parse_changelog(inp, strict=True)
    else:
        used.parse_changelog(inp, strict=True, encoding=codec)
    return used


def _error_class(msg):
    prefix = "Could not parse changelog: "
    if msg.startswith(prefix):
        msg = msg[len(prefix):]
    for key, name in (("Unexpected line while looking for first heading", "unexpected-at-first-heading"),
                      ("Unexpected line while looking for next heading", "unexpected-at-next-heading"),
                      ("Unexpected line while looking for", "unexpected-in-block"),
                      ("Badly formatted trailer", "bad-trailer"),
                      ("Invalid key-value", "bad-key-value"),
                      ("Repeated key-value", "repeated-key"),
                      ("Badly formatted urgency", "bad-urgency"),
                      ("Found eof", "eof"),
                      ("Empty changelog", "empty")):
        if msg.startswith(key):
            return name
    return "other"


def _expect(sig, what, got, want):
    if got != want:
        raise Violation(sig, "%s is %s, written %s" % (what, short(got, 150), short(want, 150)))


PRIOR_TEXT = ("\nprior (0.1-1) unstable; urgency=low\n\n  * prior entry\n\n"
              " -- A B <a@b.c>  Mon, 01 Jan 2001 00:00:00 +0000\n\n"
              "prior (0.1-0) unstable; urgency=low\n\n  * older\n\n"
              " -- A B <a@b.c>  Sun, 31 Dec 2000 00:00:00 +0000\n")


def check(case):
    if not (isinstance(case, dict) and case.get("form") in FORMS and G.wellformed(case)):
        return (False, ("invalid-case-skipped",))
    enc = encoding_of(case)
    if enc is None:
        return (False, ("invalid-case-skipped",))
    codec, via, other = enc
    lines = G.render_lines(case)
    text = "".join(l + "\n" for l in lines)
    if not G.encodable(text, codec):
        return (False, ("invalid-case-skipped",))
    encoded = text.encode(codec)
    inp = make_input(case["form"], lines, codec)
    if case["form"] in LINEWISE_BYTES_FORMS and b"".join(make_input("bytes-lines", lines, codec)) != encoded:
        return (False, ("invalid-case-skipped",))      # the codec is not line-wise after all

    with warnings.catch_warnings(record=True) as caught:
        warnings.simplefilter("always")
        try:
            cl = parse_fresh(inp, codec, via, other)
        except ChangelogParseError as e:
            raise Violation("strict-rejects:" + _error_class(str(e)), "%s for %s" % (e, short(text)))
    if caught:
        m = str(caught[0].message)
        raise Violation("warning:" + _error_class(m), "%s for %s" % (m, short(text)))

    got = str(cl)
    if got != text:
        raise Violation("str-differs", "str() gives %s, text %s" % (short(got), short(text)))
    if via in ("default", "ctor"):
        # the object's encoding is that of the input: bytes() is the text as it was (or would be) handed in
        gotb = bytes(cl)
        if gotb != encoded:
            raise Violation("bytes-differs", "bytes() gives %s, the text in %s is %s"
                            % (short(gotb), codec, short(encoded)))

    want = case["blocks"]
    _expect("block-count", "len()", len(cl), len(want))
    got_blocks = list(cl)
    _expect("block-count", "number of iterated blocks", len(got_blocks), len(want))
    for i, (b, w) in enumerate(zip(got_blocks, want)):
        where = "block %d " % i
        _expect("attr:package", where + "package", b.package, w["package"])
        _expect("attr:version", where + "str(version)", str(b.version), w["version"])
        _expect("attr:distributions", where + "distributions", b.distributions, " ".join(w["dists"]))
        _expect("attr:urgency", where + "urgency", b.urgency, w["urgency"])
        _expect("attr:urgency_comment", where + "urgency_comment", b.urgency_comment, w["ucomment"])
        _expect("attr:other_pairs", where + "other_pairs",
                [list(kv) for kv in b.other_pairs.items()], [list(kv) for kv in w["pairs"]])
        _expect("attr:changes", where + "changes()", list(b.changes()), list(w["changes"]))
        _expect("attr:author", where + "author", b.author, G.author_of(w))
        if b.date != w["date"] + w["dtrail"] and b.date != w["date"]:
            raise Violation("attr:date", "%sdate is %r, written %r (+ %r)" % (where, b.date, w["date"], w["dtrail"]))
        if cl[i] is not b:
            raise Violation("block-order", "cl[%d] is not the %d-th iterated block" % (i, i))
    w0 = want[0]
    _expect("attr:versions", "versions", [str(v) for v in cl.versions], [w["version"] for w in want])
    _expect("attr:version", "Changelog.version", str(cl.version), w0["version"])
    _expect("attr:version", "Changelog.full_version", cl.full_version, w0["version"])
    _expect("attr:package", "Changelog.package", cl.package, w0["package"])
    _expect("attr:distributions", "Changelog.distributions", cl.distributions, " ".join(w0["dists"]))
    _expect("attr:urgency", "Changelog.urgency", cl.urgency, w0["urgency"])
    _expect("attr:author", "Changelog.author", cl.author, G.author_of(w0))
    if cl.date != w0["date"] + w0["dtrail"] and cl.date != w0["date"]:
        raise Violation("attr:date", "Changelog.date is %r" % (cl.date,))

    # The same text parsed into an object that already holds something (an earlier parse of a
    # different changelog, then scribbled on) must give the same result: what a Changelog holds
    # after parse_changelog() is a function of the text just parsed.
    with warnings.catch_warnings(record=True) as caught:
        warnings.simplefilter("always")
        try:
            used = parse_into_used(make_input(case["form"], lines, codec), codec, via, other)
        except ChangelogParseError as e:
            raise Violation("reparse-into-used-object:strict-rejects",
                            "%s for %s" % (e, short(text)))
    if caught:
        raise Violation("reparse-into-used-object:warning", "%s for %s" % (caught[0].message, short(text)))
    if str(used) != text or len(used) != len(want):
        raise Violation("reparse-into-used-object:str-differs",
                        "a Changelog that held another text gives %s after parse_changelog(%s input), text %s"
                        % (short(str(used)), case["form"], short(text)))

    labels = G.struct_labels(case)
    labels.add("form:" + case["form"])
    labels.add("codec:" + codec)
    labels.add("encoding-via:" + via)
    if case["form"] in BYTES_FORMS and not text.isascii():
        labels.add("non-ascii-bytes-input")
        if codec != "utf-8":
            labels.add("non-ascii-bytes-input:non-utf-8:" + via)
            if case["form"] in LINEWISE_BYTES_FORMS:
                labels.add("non-ascii-bytes-lines:non-utf-8:" + via)
    return (G.struct_nontrivial(case), sorted(labels))


# ------------------------------------------------------------------------------------------


_forms = st.sampled_from(FORMS)
_vias = st.sampled_from(["default", "default", "default", "ctor", "ctor", "call", "call", "call-over", "call-over"])
_codecs = st.sampled_from(sorted(G.CODECS))
_linewise_codecs = st.sampled_from(sorted(G.LINEWISE_CODECS))
_others = {c: st.sampled_from([o for o in OTHERS if o != c]) for c in G.CODECS}


@st.composite
def gen_case(draw, max_blocks=4):
    s = draw(G.structs(max_blocks=max_blocks))
    form = draw(_forms)
    via = draw(_vias)
    if via == "default":
        s["form"] = form
        return s
    codec = draw(_linewise_codecs if form in LINEWISE_BYTES_FORMS else _codecs)
    s = G.transliterate(s, codec)
    s["form"], s["codec"], s["via"] = form, codec, via
    if via == "call-over":
        s["other"] = draw(_others[codec])
    return s


def sources(tier):
    if tier == "quick":
        return [Hyp("grammar", gen_case(), 400, shards=8)]
    return [Hyp("grammar", gen_case(), 8000, shards=16)]
