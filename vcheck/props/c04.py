"""C04 - well-formed changelogs round-trip byte for byte through Changelog, and expose what was written.

case = {"form": "str" | "bytes" | "lines" | "lines-nl" | "bytes-lines" | "file" | "bytes-file",
        "codec": "utf-8" | "latin-1" | ...,     (optional, default "utf-8": how bytes input is encoded)
        "via": "default" | "ctor" | "call" | "call-over",   (optional, default "default")
        "other": codec,                         (only for "call-over": the constructor's encoding)
        "history": [step, ...],                 (optional: what ONE object was used for before, see below)
        "ambient": [kind, ...],                 (optional: OTHER objects made and edited before the last look)
        "lead": [...], "blocks": [...]}          (structure: see gen/c04_changelog.py)

The text is the plain concatenation of the rendered lines, each followed by "\\n"; everything the
library must expose is read off the structure (there is no model of the parser).

Edges of the grammar.  A maintainer name or an address may be the empty string (' --  <addr>  date',
' -- name <>  date'), and the text of a change line may be, or start with, '--' (at an indentation of two
or more it is change text, not a trailer): both are inside the grammar and everything is demanded of them.
A block WITHOUT ANY CHANGE TEXT - the trailer directly after the header, or only blank / whitespace-only
lines between them - is arguable ("blocks consisting of a header, change lines, and a trailer"), so for a
text that has such a block only the sound direction is asserted: nothing is demanded of the parser (it may
raise ChangelogParseError or warn, at any stage; the case is then counted under
'edge:no-change-text:not-accepted-nothing-demanded' and is trivial), but IF a strict parse takes the text
without any warning THEN str()/bytes() must reproduce it byte for byte and the blocks must expose what was
written (an empty changes() list included), exactly as for any other text.

``encoding`` is the documented way to say how bytes input is to be read; it can be given to the
constructor, to parse_changelog(), or to both with different values (an explicit argument of the
call is what that call reads its input with).  "via" says where the codec of the input goes:

    default    Changelog(input, strict=True)                                   (codec is UTF-8)
    ctor       Changelog(input, strict=True, encoding=codec)
    call       Changelog().parse_changelog(input, strict=True, encoding=codec)
    call-over  Changelog(encoding=other).parse_changelog(input, strict=True, encoding=codec)

str-typed forms get the same treatment (the parameter must then be without effect on str()).

What a strict parse of a well-formed text yields is a function of that text, the input form and the
encoding in force for that call (the call's ``encoding=``, else the one the object was constructed
with) - not of what the object was used for before.  So the text is also parsed into *used* objects
and everything is demanded again of the result:

  * a fixed one: an object that holds a completed parse of another text and was scribbled on;
  * with "history": an object constructed as ``via`` says (without input), then put through the steps

        {"lines": [...], "form": F, "codec": C, "strict": bool, "enc": null | codec,
         "ctor": bool, "max_blocks": null | n, "empty_author": bool, "scribble": bool}

    each of which hands ``lines`` (arbitrary - usually damaged - line bodies; bytes forms encoded in
    C) to parse_changelog(strict=, encoding=enc, max_blocks=, allow_empty_author=), or, for step 0
    with "ctor", to the constructor.  Whatever a step does is accepted (it may complete, warn, raise
    ChangelogParseError in the middle of a block, or die with UnicodeDecodeError on a bytes line);
    "scribble" then edits what the object holds.  Only the final strict parse of the well-formed
    text, done exactly as for a fresh object, is judged.

"Edits" (scribble, and the fixed used object) are edit_everything(): every mutable thing reachable through
the public interface - initial_blank_lines, each block's other_pairs mapping and changes() list - is
changed in place (first element removed, elements added), then the documented mutators (add_change,
add_trailing_line, set_*, new_block with its defaults) and plain attribute assignments are applied.

Nor is the result a function of what else happened in the process.  With "ambient" the text is parsed a
second time into a new object (the *witness*); then, for every kind named, another object is made
and everything it hands out is edited in the same way:

    result           the judged fresh parse of this very text
    prior / rich     a strict parse of a fixed changelog without / with extra header fields
    new_block        Changelog() + new_block(package=.., ..) (change list, extra fields left to the defaults)
    bare-new_block   Changelog() + new_block()
    ChangeBlock      ChangeBlock() and ChangeBlock(package=.., version=..)

Afterwards (a) the witness - none of whose parts was touched, and which was not derived from any of
the edited objects - must still satisfy everything the statement says of the result of its parse, and
(b) a third parse of the text into a new object must satisfy it too.  Objects that share state with
another one by Python's own definition (copy.copy() twins) are not generated: the statement says
nothing about them.
"""
import io
import warnings

from hypothesis import strategies as st

from ..core import Violation, Hyp, Enum, short
from ..gen import c04_changelog as G

from debian.changelog import Changelog, ChangeBlock, ChangelogParseError

ID = "C04"
EDGE_FORMS = ["str", "bytes-lines", "file"]
_EDGES_DESC = ("%d shapes (no line / 1 / 2 blank / whitespace-only lines between header and trailer; empty "
               "maintainer name and/or address, also together with the former; change text that is, or starts "
               "with, '--' at an indentation of >= 2, incl. complete trailers as change text) x the only / first / "
               "middle / last / every block of 1..3 otherwise plain blocks x blocks separated by one blank line "
               "or none x %d input forms (str, list of bytes lines, text file)"
               % (len(G.EDGE_SHAPES), len(EDGE_FORMS)))
LEVEL = "exploration"
RULE = ("(a) source 'grammar': "
        "cases are changelog structures drawn from the deb-changelog(5) grammar (1..4 blocks; header "
        "'pkg (version) dist...; urgency=U[ comment][, key=value]*'; change lines = blank lines or "
        ">=2 blanks + printable text incl. look-alikes of headers/trailers/mode lines; trailer "
        "' -- name <email>  date[blanks]', name and/or email possibly empty; 0..2 blank or "
        "whitespace-only lines before, inside and after blocks; in 1 case of 8 one block, at a uniformly drawn "
        "position, has no change text at all: nothing, one or two blank lines, or whitespace-only lines "
        "between header and trailer) x 7 input forms (str, bytes, list of lines with/without newline, list "
        "of bytes lines, text file object, binary file object) x encoding of bytes input (UTF-8, "
        "latin-1, iso-8859-15, cp1252, koi8-r, euc-jp, gb18030; UTF-16 for whole-text forms only; "
        "characters a codec cannot spell are replaced by characters it can) x where the "
        "codec is named (nowhere = UTF-8 default / encoding= of the constructor / encoding= of "
        "parse_changelog on a default object / encoding= of parse_changelog on an object "
        "constructed with a different encoding) x past of the object the text is parsed into (fresh; a "
        "fixed completed parse of another text + edits; 0..3 drawn earlier uses of one object: the "
        "constructor or parse_changelog() given a small changelog cut short and/or with a junk line put "
        "in, or (1 step in 4) a generated changelog after 0..2 line operations, in any of the 7 forms / "
        "7 codecs, strict or lenient, with or without an explicit encoding= (any codec, incl. ones "
        "other than the object's and than the bytes'), max_blocks=1, allow_empty_author, followed or "
        "not by edits of what the object then holds; whatever those earlier uses do - complete, warn, "
        "raise ChangelogParseError, raise UnicodeDecodeError - is accepted, the final strict parse is "
        "judged in full; 'edits' change in place every mutable thing the object and its blocks hand out - "
        "initial_blank_lines, other_pairs, changes() - and use every documented mutator) x what "
        "happened elsewhere in the process (nothing, in a third to a half of the cases; else 1, 2 or all 6 of: the first result "
        "itself / a parse of a fixed text without / with extra header fields / Changelog()+new_block(..) "
        "/ +new_block() / bare ChangeBlock()s, each edited in the same way; judged: a result obtained "
        "before those edits and never touched, and a new parse after them); "
        "(b) source 'edges', enumerated completely: " + _EDGES_DESC + ", fresh objects and the fixed used "
        "object only. "
        "Texts with a block without change text are judged conditionally (only if the strict parse takes them "
        "without warning; then in full), all others unconditionally. "
        "expected text = concatenation of the rendered lines. "
        "Non-trivial = >=2 blocks, or extra keys, or an urgency comment, or a change line "
        "containing '#', ':' or non-ASCII; distinct = distinct canonical JSON of the case")
ASSUMPTIONS = [
    "expected text and attributes are read off the generated structure (plain string concatenation, no parser model)",
    "alphabet: str.isprintable() characters (plus TAB in change lines, blank lines and after the date); "
    "characters on which str.splitlines() splits are outside the domain (DESIGN.md section 6)",
    "blanks after the date are accepted either as part of the exposed date or dropped from it; "
    "the byte-for-byte clause pins them down anyway",
    "a recogniser written with independent regular expressions rejects replay cases outside the domain",
    "a block without change text (trailer directly after the header, or blank lines only in between) is not "
    "claimed to be well-formed: acceptance is never demanded for a text that has one, at no stage (fresh, used "
    "object, object with a past, after edits elsewhere); a stage that refuses or warns is skipped and labelled "
    "'edge:...'; empty maintainer names / addresses and change text starting with '--' are inside the grammar "
    "(arbitrary name, arbitrary change text) and acceptance is demanded",
    "bytes input = Python's own codec applied to the expected text (checked to decode back to it); lines of "
    "bytes are the encoded lines (codecs are stateless and keep b'\\n' for the newline only); bytes() is "
    "compared with the encoded text only when the object was constructed with (or defaults to) the input's codec",
    "an object's encoding in force for a call without encoding= is the one its constructor was given (UTF-8 "
    "by default), whatever earlier calls on it were told; bytes() of an object with a past is compared only "
    "when no earlier call named an encoding",
    "earlier uses of an object are inputs of the case, not subjects: any exception they raise is recorded "
    "as a label ('history:last-step:...'), never as a violation",
    "edits of other objects are inputs of the case, not subjects: an edit that raises is counted as a label "
    "('ambient:some-edit-raised'), never as a violation; the witness is an independently constructed object "
    "(own constructor call, own input object) - shallow copies of a Changelog, which share their parts with the "
    "original by definition, are outside the domain",
    "a defect that leaves state in the process (e.g. a container shared by all blocks) makes every later case of "
    "the same worker fail at its first parse: the first signature recorded names the stage that exposed it",
    "Hypothesis 6.168 generators; sha1 for distinctness",
]
BUDGET = {"quick": 200, "thorough": 1500}

FORMS = ["str", "bytes", "lines", "lines-nl", "bytes-lines", "file", "bytes-file"]
BYTES_FORMS = ("bytes", "bytes-lines", "bytes-file")
LINEWISE_BYTES_FORMS = ("bytes-lines", "bytes-file")
VIAS = ["default", "ctor", "call", "call-over"]
OTHERS = sorted(G.CODECS) + ["ascii"]


def make_input(form, lines, codec="utf-8"):
    text = "".join(l + "\n" for l in lines)
    if form == "str":
        return text
    if form == "bytes":
        return text.encode(codec)
    if form == "lines":
        return list(lines)
    if form == "lines-nl":
        return [l + "\n" for l in lines]
    if form == "bytes-lines":
        return [(l + "\n").encode(codec) for l in lines]
    if form == "file":
        return io.StringIO(text)
    if form == "bytes-file":
        return io.BytesIO(text.encode(codec))
    raise ValueError(form)


def encoding_of(case):
    """(codec, via, other) of a case, or None when the combination is outside the domain."""
    codec, via, other = case.get("codec", "utf-8"), case.get("via", "default"), case.get("other")
    if codec not in G.CODECS or via not in VIAS:
        return None
    if via == "default" and codec != "utf-8":
        return None
    if via == "call-over":
        if other not in OTHERS or other == codec:
            return None
    elif other is not None:
        return None
    if case["form"] in LINEWISE_BYTES_FORMS and codec in G.WHOLE_ONLY_CODECS:
        return None
    return codec, via, other


def parse_fresh(inp, codec, via, other):
    """A new Changelog made from the input, the codec named where ``via`` says."""
    if via == "default":
        return Changelog(inp, strict=True)
    if via == "ctor":
        return Changelog(inp, strict=True, encoding=codec)
    cl = Changelog() if via == "call" else Changelog(encoding=other)
    cl.parse_changelog(inp, strict=True, encoding=codec)
    return cl


def parse_into_used(inp, codec, via, other):
    """The input parsed into a Changelog that already holds (scribbled-on) blocks of another text."""
    if via == "default":
        used = Changelog(PRIOR_TEXT, strict=True)
    elif via == "ctor":
        used = Changelog(PRIOR_TEXT.encode(codec), strict=True, encoding=codec)
    elif via == "call":
        used = Changelog(PRIOR_TEXT, strict=True)
    else:
        # the earlier parse read bytes in the object's own (different) encoding
        used = Changelog(PRIOR_TEXT.encode(other), strict=True, encoding=other)
    edit_everything(used)
    if via in ("default", "ctor"):
        used.parse_changelog(inp, strict=True)
    else:
        used.parse_changelog(inp, strict=True, encoding=codec)
    return used


# ------------------------------------------------------------------------------------------
# Editing what the library handed out.  Every mutable thing that can be reached through the public
# interface of a Changelog / ChangeBlock is changed IN PLACE (an element removed if there is one, an
# element added), then the documented mutators and plain attribute assignments are used.  Nothing is
# demanded of an edit (an exception is counted and the next edit is tried): edits are inputs.

EDIT_DATE = "Thu, 01 Jan 1970 00:00:00 +0000"


def _drop_first_key(d):
    for k in list(d)[:1]:
        del d[k]


def _block_edits(b):
    return [
        lambda: _drop_first_key(b.other_pairs),
        lambda: b.other_pairs.__setitem__("X-Edited", "in place"),
        lambda: b.other_pairs.update({"binary-only": "yes"}),
        lambda: b.changes().__delitem__(slice(0, 1)),
        lambda: b.changes().append("  * appended to the list that changes() returned"),
        lambda: b.other_keys_normalised().__setitem__("X-Edited-Copy", "1"),
        lambda: b.add_change("  * add_change()"),
        lambda: b.add_trailing_line(" edited trailing line"),
        lambda: setattr(b, "package", "edited"),
        lambda: setattr(b, "version", "1:0~edited-1"),
        lambda: setattr(b, "distributions", "edited dists"),
        lambda: setattr(b, "urgency", "EDITED"),
        lambda: setattr(b, "urgency_comment", " (edited)"),
        lambda: setattr(b, "author", "Ed Itor <ed@it.or>"),
        lambda: setattr(b, "date", EDIT_DATE),
    ]


def _run_edits(edits):
    raised = 0
    for e in edits:
        try:
            e()
        except Exception:       # pylint: disable=broad-except
            raised += 1
    return raised


def edit_block(b):
    """Edit everything a ChangeBlock hands out; returns the number of edits that raised."""
    return _run_edits(_block_edits(b))


def edit_everything(cl):
    """Edit everything a Changelog and its blocks hand out, use its mutators, put a block of defaults
    on top and edit that too; returns the number of edits that raised."""
    raised = _run_edits([
        lambda: cl.initial_blank_lines.__delitem__(slice(0, 1)),
        lambda: cl.initial_blank_lines.append("   "),
        lambda: cl.versions.append(None),
    ])
    try:
        blocks = list(cl)
    except Exception:           # pylint: disable=broad-except
        blocks, raised = [], raised + 1
    for b in blocks:
        raised += edit_block(b)
    if blocks:
        raised += _run_edits([
            lambda: cl.add_change("  * Changelog.add_change()"),
            lambda: cl.set_version("2:0~set-1"),
            lambda: cl.set_package("set"),
            lambda: cl.set_distributions("set"),
            lambda: cl.set_urgency("set"),
            lambda: cl.set_author("Set Ter <set@t.er>"),
            lambda: cl.set_date(EDIT_DATE),
        ])
    # a block whose change list and extra fields are left to the library's defaults
    raised += _run_edits([lambda: cl.new_block(package="new", version="3", distributions="new", urgency="low",
                                               author="New Block <n@b.c>", date=EDIT_DATE)])
    try:
        top = cl[0]
    except Exception:           # pylint: disable=broad-except
        return raised + 1
    return raised + edit_block(top)


# Other objects of the same process ("ambient"): each is made as named, then edited as above.
RICH_TEXT = ("rich (2:3.0~rc1-1) experimental unstable; urgency=HIGH (x), binary-only=yes, X-Note=a b\n\n"
             "  * Na\u00efve r\u00e9sum\u00e9 handling: fixed (#12).\n\n"
             " -- Zo\u00eb M\u00fcller <zoe@example.org>  Tue,  2 Feb 2021 1:02:03 +0100\n\n"
             "rich (0.9) stable; urgency=low\n  * tight\n -- X <x@y.z>  Wed, 03 Mar 1999 23:59:59 -0000\n")
AMBIENT_KINDS = ["result", "prior", "rich", "new_block", "bare-new_block", "ChangeBlock"]


def valid_ambient(ambient):
    return (isinstance(ambient, list) and len(ambient) <= 8
            and all(isinstance(k, str) and k in AMBIENT_KINDS for k in ambient))


def edit_ambient(kind, result):
    """Make the object ``kind`` names (``result`` is the judged fresh parse itself) and edit it."""
    if kind == "result":
        return edit_everything(result)
    if kind == "prior":
        return edit_everything(Changelog(PRIOR_TEXT, strict=True))
    if kind == "rich":
        return edit_everything(Changelog(RICH_TEXT, strict=True))
    if kind == "new_block":
        return edit_everything(Changelog())         # edit_everything() itself calls new_block(...)
    if kind == "bare-new_block":
        cl = Changelog()
        cl.new_block()
        return edit_everything(cl)
    return edit_block(ChangeBlock()) + edit_block(ChangeBlock(package="p", version="1", changes=None,
                                                             other_pairs=None))


def valid_history(history):
    """Recogniser for the optional "history" of a case (any list of well-typed steps)."""
    if not isinstance(history, list) or len(history) > 6:
        return False
    for i, st_ in enumerate(history):
        if not isinstance(st_, dict):
            return False
        ls = st_.get("lines")
        if not (isinstance(ls, list) and all(isinstance(l, str) and "\n" not in l for l in ls)):
            return False
        if st_.get("form") not in FORMS or st_.get("codec", "utf-8") not in G.LINEWISE_CODECS:
            return False
        if st_.get("enc") is not None and st_["enc"] not in OTHERS:
            return False
        if st_.get("max_blocks") not in (None, 1, 2, 3):
            return False
        if any(not isinstance(st_.get(k, False), bool) for k in ("strict", "ctor", "empty_author", "scribble")):
            return False
        if st_.get("ctor", False) and (i != 0 or st_.get("enc") is not None):
            return False
    return True


def step_input(st_):
    """The input of a history step: its lines in its form; bytes forms in its codec."""
    form, lines, codec = st_["form"], st_["lines"], st_.get("codec", "utf-8")
    if form == "bytes":
        return "".join(l + "\n" for l in lines).encode(codec, "replace")
    if form == "bytes-lines":
        return [(l + "\n").encode(codec, "replace") for l in lines]
    if form == "bytes-file":
        return io.BytesIO("".join(l + "\n" for l in lines).encode(codec, "replace"))
    return make_input(form, lines)


def _outcome(fn):
    """Run one step of the past.  Nothing is demanded of it: its inputs are outside the property."""
    with warnings.catch_warnings(record=True) as caught:
        warnings.simplefilter("always")
        try:
            fn()
        except ChangelogParseError as e:
            return "parse-error:" + _error_class(str(e))
        except UnicodeError:
            return "decode-error"
        except Exception as e:      # pylint: disable=broad-except
            return "other-exception:" + type(e).__name__
    if caught:
        return "warned:" + _error_class(str(caught[-1].message))
    return "returned"


def object_with_history(history, codec, via, other):
    """(object, outcome of every step): a Changelog constructed as ``via`` says, then used as told."""
    kw = {}
    if via == "ctor":
        kw["encoding"] = codec
    elif via == "call-over":
        kw["encoding"] = other
    box, outcomes = [], []
    for i, st_ in enumerate(history):
        args = dict(strict=st_.get("strict", False), max_blocks=st_.get("max_blocks"),
                    allow_empty_author=st_.get("empty_author", False))
        inp = step_input(st_)
        if i == 0 and st_.get("ctor", False):
            args.update(kw)
            out = _outcome(lambda: box.append(Changelog(inp, **args)))
            outcomes.append("Changelog(..):" + out)
            if not box:
                box.append(Changelog(**kw))
        else:
            if not box:
                box.append(Changelog(**kw))
            if st_.get("enc") is not None:
                args["encoding"] = st_["enc"]
            out = _outcome(lambda: box[0].parse_changelog(inp, **args))
            outcomes.append(out)
        if st_.get("scribble", False):
            if edit_everything(box[0]):
                outcomes[-1] += "+scribble-raised"
    if not box:
        box.append(Changelog(**kw))
    return box[0], outcomes


def final_parse(cl, inp, codec, via):
    """The judged parse, worded as parse_fresh() words it (no encoding= where ``via`` names none)."""
    if via in ("default", "ctor"):
        cl.parse_changelog(inp, strict=True)
    else:
        cl.parse_changelog(inp, strict=True, encoding=codec)


_IN_BLOCK = ("parse-error:eof", "parse-error:unexpected-in-block", "parse-error:bad-trailer", "decode-error",
             "warned:eof")


def history_labels(case, history, outcomes, codec, via, other, text):
    labels = set()
    last = outcomes[-1].replace("Changelog(..):", "")
    labels.add("history:last-step:" + last.split("+")[0])
    if last.startswith(_IN_BLOCK):
        labels.add("history:last-step-ended-inside-a-block-or-undecodable")
    own = {"default": "utf-8", "ctor": codec, "call": "utf-8", "call-over": other}[via]
    explicit = [s_.get("enc") for s_ in history if s_.get("enc") is not None]
    if explicit and explicit[-1] != own:
        labels.add("history:last-explicit-encoding-differs-from-object's")
        if via in ("default", "ctor") and case["form"] in BYTES_FORMS and not text.isascii():
            labels.add("history:other-explicit-encoding-then-non-ascii-bytes-without-encoding")
    if any(s_.get("ctor", False) for s_ in history):
        labels.add("history:object-made-from-a-text")
    if any(s_.get("scribble", False) for s_ in history):
        labels.add("history:scribbled")
    return labels


def _error_class(msg):
    prefix = "Could not parse changelog: "
    if msg.startswith(prefix):
        msg = msg[len(prefix):]
    for key, name in (("Unexpected line while looking for first heading", "unexpected-at-first-heading"),
                      ("Unexpected line while looking for next heading", "unexpected-at-next-heading"),
                      ("Unexpected line while looking for", "unexpected-in-block"),
                      ("Badly formatted trailer", "bad-trailer"),
                      ("Invalid key-value", "bad-key-value"),
                      ("Repeated key-value", "repeated-key"),
                      ("Badly formatted urgency", "bad-urgency"),
                      ("Found eof", "eof"),
                      ("Empty changelog", "empty")):
        if msg.startswith(key):
            return name
    return "other"


def _expect(sig, what, got, want):
    if got != want:
        raise Violation(sig, "%s is %s, written %s" % (what, short(got, 150), short(want, 150)))


def _check_result(cl, case, text, encoded, codec, via, pre, ctx="", with_bytes=True):
    """Everything the statement demands of the Changelog ``cl`` that a strict parse of ``text`` left."""
    got = str(cl)
    if got != text:
        raise Violation(pre + "str-differs", "%sstr() gives %s, text %s" % (ctx, short(got), short(text)))
    if via in ("default", "ctor") and with_bytes:
        # the object's encoding is that of the input: bytes() is the text as it was (or would be) handed in
        gotb = bytes(cl)
        if gotb != encoded:
            raise Violation(pre + "bytes-differs", "%sbytes() gives %s, the text in %s is %s"
                            % (ctx, short(gotb), codec, short(encoded)))

    want = case["blocks"]
    _expect(pre + "block-count", "len()", len(cl), len(want))
    got_blocks = list(cl)
    _expect(pre + "block-count", "number of iterated blocks", len(got_blocks), len(want))
    for i, (b, w) in enumerate(zip(got_blocks, want)):
        where = "block %d " % i
        _expect(pre + "attr:package", where + "package", b.package, w["package"])
        _expect(pre + "attr:version", where + "str(version)", str(b.version), w["version"])
        _expect(pre + "attr:distributions", where + "distributions", b.distributions, " ".join(w["dists"]))
        _expect(pre + "attr:urgency", where + "urgency", b.urgency, w["urgency"])
        _expect(pre + "attr:urgency_comment", where + "urgency_comment", b.urgency_comment, w["ucomment"])
        _expect(pre + "attr:other_pairs", where + "other_pairs",
                [list(kv) for kv in b.other_pairs.items()], [list(kv) for kv in w["pairs"]])
        _expect(pre + "attr:changes", where + "changes()", list(b.changes()), list(w["changes"]))
        _expect(pre + "attr:author", where + "author", b.author, G.author_of(w))
        if b.date != w["date"] + w["dtrail"] and b.date != w["date"]:
            raise Violation(pre + "attr:date", "%sdate is %r, written %r (+ %r)" % (where, b.date, w["date"], w["dtrail"]))
        if cl[i] is not b:
            raise Violation(pre + "block-order", "cl[%d] is not the %d-th iterated block" % (i, i))
    w0 = want[0]
    _expect(pre + "attr:versions", "versions", [str(v) for v in cl.versions], [w["version"] for w in want])
    _expect(pre + "attr:version", "Changelog.version", str(cl.version), w0["version"])
    _expect(pre + "attr:version", "Changelog.full_version", cl.full_version, w0["version"])
    _expect(pre + "attr:package", "Changelog.package", cl.package, w0["package"])
    _expect(pre + "attr:distributions", "Changelog.distributions", cl.distributions, " ".join(w0["dists"]))
    _expect(pre + "attr:urgency", "Changelog.urgency", cl.urgency, w0["urgency"])
    _expect(pre + "attr:author", "Changelog.author", cl.author, G.author_of(w0))
    if cl.date != w0["date"] + w0["dtrail"] and cl.date != w0["date"]:
        raise Violation(pre + "attr:date", "Changelog.date is %r" % (cl.date,))


def _edge_refused(case, how):
    """Labels of a text with a block without change text that the strict parser did not take silently."""
    return sorted(G.struct_labels(case) | {"form:" + case["form"], "edge:no-change-text:" + how,
                                           "edge:no-change-text:not-accepted-nothing-demanded"})


PRIOR_TEXT = ("\nprior (0.1-1) unstable; urgency=low\n\n  * prior entry\n\n"
              " -- A B <a@b.c>  Mon, 01 Jan 2001 00:00:00 +0000\n\n"
              "prior (0.1-0) unstable; urgency=low\n\n  * older\n\n"
              " -- A B <a@b.c>  Sun, 31 Dec 2000 00:00:00 +0000\n")


def check(case):
    if not (isinstance(case, dict) and case.get("form") in FORMS and G.wellformed(case, boundary_ok=True)):
        return (False, ("invalid-case-skipped",))
    # A block without any change text (nothing, or blank lines only, between header and trailer) is on
    # the edge of the grammar: nothing is demanded of the parser for a text that has one (it may refuse
    # it or warn, at any stage) - but a text it accepts without warning is held to everything else.
    edge = bool(G.boundary_blocks(case))
    edge_labels = []
    enc = encoding_of(case)
    if enc is None:
        return (False, ("invalid-case-skipped",))
    codec, via, other = enc
    history = case.get("history")
    if history is not None and not valid_history(history):
        return (False, ("invalid-case-skipped",))
    ambient = case.get("ambient")
    if ambient is not None and not valid_ambient(ambient):
        return (False, ("invalid-case-skipped",))
    lines = G.render_lines(case)
    text = "".join(l + "\n" for l in lines)
    if not G.encodable(text, codec):
        return (False, ("invalid-case-skipped",))
    encoded = text.encode(codec)
    inp = make_input(case["form"], lines, codec)
    if case["form"] in LINEWISE_BYTES_FORMS and b"".join(make_input("bytes-lines", lines, codec)) != encoded:
        return (False, ("invalid-case-skipped",))      # the codec is not line-wise after all

    with warnings.catch_warnings(record=True) as caught:
        warnings.simplefilter("always")
        try:
            cl = parse_fresh(inp, codec, via, other)
        except ChangelogParseError as e:
            if edge:
                return (False, _edge_refused(case, "rejected:" + _error_class(str(e))))
            raise Violation("strict-rejects:" + _error_class(str(e)), "%s for %s" % (e, short(text)))
    if caught:
        m = str(caught[0].message)
        if edge:
            return (False, _edge_refused(case, "warned:" + _error_class(m)))
        raise Violation("warning:" + _error_class(m), "%s for %s" % (m, short(text)))

    _check_result(cl, case, text, encoded, codec, via, "")

    # The same text parsed into an object that already holds something (an earlier parse of a
    # different changelog, then scribbled on) must give the same result: what a Changelog holds
    # after parse_changelog() is a function of the text just parsed.
    used = None
    with warnings.catch_warnings(record=True) as caught:
        warnings.simplefilter("always")
        try:
            used = parse_into_used(make_input(case["form"], lines, codec), codec, via, other)
        except ChangelogParseError as e:
            if not edge:
                raise Violation("reparse-into-used-object:strict-rejects",
                                "%s for %s" % (e, short(text)))
    if caught and not edge:
        raise Violation("reparse-into-used-object:warning", "%s for %s" % (caught[0].message, short(text)))
    if used is None or caught:
        edge_labels.append("edge:not-accepted-by-a-used-object")
    else:
        _check_result(used, case, text, encoded, codec, via, "reparse-into-used-object:",
                      "a Changelog that held another text, after parse_changelog(%s input): " % case["form"])

    # ... and so must an object with any other past (aborted, lenient, differently encoded parses)
    hist_labels = []
    if history:
        used, outcomes = object_with_history(history, codec, via, other)
        ctx = "a Changelog with the past [%s], after parse_changelog(%s input): " % (
            ", ".join(outcomes), case["form"])
        refused = False
        with warnings.catch_warnings(record=True) as caught:
            warnings.simplefilter("always")
            try:
                final_parse(used, make_input(case["form"], lines, codec), codec, via)
            except ChangelogParseError as e:
                if not edge:
                    raise Violation("reparse-after-history:strict-rejects:" + _error_class(str(e)),
                                    "%s%s for %s" % (ctx, e, short(text)))
                refused = True
            except UnicodeError as e:
                raise Violation("reparse-after-history:decode-error", "%s%s for %s in %s"
                                % (ctx, e, short(text), codec))
        if caught and not edge:
            raise Violation("reparse-after-history:warning", "%s%s for %s" % (ctx, caught[0].message, short(text)))
        if refused or caught:
            edge_labels.append("edge:not-accepted-by-an-object-with-a-past")
        else:
            # (which codec bytes() uses after a call that named another one is not pinned down here)
            _check_result(used, case, text, encoded, codec, via, "reparse-after-history:", ctx,
                          with_bytes=all(s_.get("enc") is None for s_ in history))
        hist_labels = history_labels(case, history, outcomes, codec, via, other, text)

    # ... and so must a new object, whatever was done before - in the same process - to what other
    # objects handed out; and the result of a parse made earlier, none of whose parts was touched,
    # must still be what the statement says it is.
    amb_labels = []
    if ambient:
        with warnings.catch_warnings():
            warnings.simplefilter("ignore")
            try:
                witness = parse_fresh(make_input(case["form"], lines, codec), codec, via, other)
            except ChangelogParseError as e:
                if not edge:
                    raise Violation("second-parse:strict-rejects:" + _error_class(str(e)),
                                    "%s for %s" % (e, short(text)))
                witness = None
        raised = 0
        for kind in ambient:
            box = []
            out = _outcome(lambda: box.append(edit_ambient(kind, cl)))
            raised += box[0] if box else 1
            amb_labels.append("ambient:" + kind)
            if out != "returned":
                amb_labels.append("ambient:making-or-editing-an-object-" + out.split(":")[0])
        if raised:
            amb_labels.append("ambient:some-edit-raised")
        ctx = "after in-place edits of what other objects [%s] handed out, " % ", ".join(ambient)
        if witness is None:
            edge_labels.append("edge:second-parse-not-accepted")
        else:
            _check_result(witness, case, text, encoded, codec, via, "untouched-result-after-edits-elsewhere:",
                          ctx + "a Changelog parsed before them and never touched: ")
        again = None
        with warnings.catch_warnings(record=True) as caught:
            warnings.simplefilter("always")
            try:
                again = parse_fresh(make_input(case["form"], lines, codec), codec, via, other)
            except ChangelogParseError as e:
                if not edge:
                    raise Violation("fresh-parse-after-edits-elsewhere:strict-rejects:" + _error_class(str(e)),
                                    "%s%s for %s" % (ctx, e, short(text)))
        if caught and not edge:
            raise Violation("fresh-parse-after-edits-elsewhere:warning",
                            "%s%s for %s" % (ctx, caught[0].message, short(text)))
        if again is None or caught:
            edge_labels.append("edge:not-accepted-after-edits-elsewhere")
        else:
            _check_result(again, case, text, encoded, codec, via, "fresh-parse-after-edits-elsewhere:",
                          ctx + "a new Changelog: ")
        if any(not b["pairs"] for b in case["blocks"]):
            amb_labels.append("ambient:text-has-a-block-without-extra-keys")

    labels = G.struct_labels(case)
    labels.add("form:" + case["form"])
    labels.add("codec:" + codec)
    labels.add("encoding-via:" + via)
    labels.add("history-steps:%d" % len(history or ()))
    labels.update(hist_labels)
    labels.add("ambient-objects:%d" % len(ambient or ()))
    labels.update(amb_labels)
    if edge:
        labels.add("edge:no-change-text:accepted-and-judged")
        labels.update(edge_labels)
    if case["form"] in BYTES_FORMS and not text.isascii():
        labels.add("non-ascii-bytes-input")
        if codec != "utf-8":
            labels.add("non-ascii-bytes-input:non-utf-8:" + via)
            if case["form"] in LINEWISE_BYTES_FORMS:
                labels.add("non-ascii-bytes-lines:non-utf-8:" + via)
    return (G.struct_nontrivial(case), sorted(labels))


# ------------------------------------------------------------------------------------------


_forms = st.sampled_from(FORMS)
_vias = st.sampled_from(["default", "default", "default", "ctor", "ctor", "call", "call", "call-over", "call-over"])
_codecs = st.sampled_from(sorted(G.CODECS))
_linewise_codecs = st.sampled_from(sorted(G.LINEWISE_CODECS))
_others = {c: st.sampled_from([o for o in OTHERS if o != c]) for c in G.CODECS}


# Texts for the past of an object: a few small changelogs (the last lines of a block are where a
# reader is when it is cut short), cut and/or spoiled at drawn places; a quarter of the steps take
# the damaged documents of gen/c04_changelog.py (any line operation on any generated changelog).
HISTORY_TEXTS = [
    PRIOR_TEXT.split("\n")[:-1],
    ["past (1.0-1) unstable; urgency=low", "", "  * work in progress", "    not signed off yet", "",
     " -- A B <a@b.c>  Mon, 01 Jan 2001 00:00:00 +0000"],
    ["", "past (2:3.0~rc1-1) experimental unstable; urgency=HIGH (x), binary-only=yes", "",
     "  * plain line", "  * Na\u00efve r\u00e9sum\u00e9 handling: fixed (#12).", "  [ Zo\u00eb M\u00fcller ]", "  * \u6f22\u5b57", "",
     " -- Zo\u00eb M\u00fcller <zoe@example.org>  Tue,  2 Feb 2021 1:02:03 +0100", "",
     "past (0.9) stable; urgency=low", "  * tight", " -- X <x@y.z>  Wed, 03 Mar 1999 23:59:59 -0000", ""],
]
_hist_text = st.sampled_from(HISTORY_TEXTS)
_hist_cut = st.sampled_from([None, None, 1, 2, 3, 4, 5, 6, 7, 8, 9, 10])
_hist_junk = st.one_of(st.none(), st.none(), G.junk_lines, G.change_lines)
_hist_pos = st.sampled_from(range(0, 14))
_hist_form = st.sampled_from(FORMS)
_hist_codec = st.sampled_from(["utf-8", "utf-8", "latin-1", "latin-1", "koi8-r", "euc-jp", "gb18030", "cp1252",
                               "iso-8859-15"])
_hist_enc = st.sampled_from([None, None, None, None, "utf-8", "latin-1", "latin-1", "iso-8859-15", "cp1252",
                             "koi8-r", "euc-jp", "gb18030", "ascii"])
_hist_flags = st.sampled_from([(s_, c, m, e, k)
                               for s_ in (True, True, False) for c in (False, False, True)
                               for m in (None, None, None, 1) for e in (False, False, True)
                               for k in (False, False, True)])
_hist_len = st.sampled_from([0, 0, 1, 1, 1, 2, 2, 3])
_hist_kind = st.sampled_from(["pool", "pool", "pool", "mutated"])
_hist_mutated = G.mutated_lines(2)


@st.composite
def _history_step(draw, first):
    if draw(_hist_kind) == "pool":
        lines = list(draw(_hist_text))
        cut = draw(_hist_cut)
        if cut is not None:
            del lines[cut:]
        junk = draw(_hist_junk)
        if junk is not None:
            lines.insert(draw(_hist_pos) % (len(lines) + 1), junk)
    else:
        lines = list(draw(_hist_mutated))
    form = draw(_hist_form)
    strict, ctor, max_blocks, empty_author, scribble = draw(_hist_flags)
    step = {"lines": lines, "form": form, "strict": strict}
    if form in BYTES_FORMS:
        step["codec"] = draw(_hist_codec)
        step["lines"] = G.transliterate(lines, step["codec"])
    if ctor and first:
        step["ctor"] = True
    else:
        step["enc"] = draw(_hist_enc)
    if max_blocks is not None:
        step["max_blocks"] = max_blocks
    if empty_author:
        step["empty_author"] = True
    if scribble:
        step["scribble"] = True
    return step


_history_steps = {True: _history_step(True), False: _history_step(False)}


@st.composite
def gen_history(draw):
    return [draw(_history_steps[i == 0]) for i in range(draw(_hist_len))]


_histories = gen_history()


# Which other objects are made and edited before the last look: every single kind, every pair (in one
# order), all of them - or none (a third of the pool).
AMBIENTS = ([[k] for k in AMBIENT_KINDS]
            + [[a, b] for i, a in enumerate(AMBIENT_KINDS) for b in AMBIENT_KINDS[i + 1:]]
            + [list(AMBIENT_KINDS)])
_ambients = st.sampled_from([None] * (len(AMBIENTS) // 2) + AMBIENTS)


# One case in eight gets a block (any position, drawn uniformly) without change text: the trailer
# directly after the header, or only blank / whitespace-only lines between them.
_no_change_text = st.sampled_from([None] * (7 * len(G.NO_CHANGE_TEXT)) + G.NO_CHANGE_TEXT)


@st.composite
def gen_case(draw, max_blocks=4):
    s = draw(G.structs(max_blocks=max_blocks))
    emptied = draw(_no_change_text)
    if emptied is not None:
        s["blocks"][draw(G._index(len(s["blocks"])))]["changes"] = list(emptied)
    form = draw(_forms)
    via = draw(_vias)
    history = draw(_histories)
    ambient = draw(_ambients)
    s["form"] = form
    if via != "default":
        codec = draw(_linewise_codecs if form in LINEWISE_BYTES_FORMS else _codecs)
        s = G.transliterate(s, codec)
        s["codec"], s["via"] = codec, via
        if via == "call-over":
            s["other"] = draw(_others[codec])
    if history:
        s["history"] = history
    if ambient:
        s["ambient"] = ambient
    return s


def edge_cases():
    """The edge shapes of gen/c04_changelog.py at every block position, in three input forms."""
    for struct in G.edge_structs():
        for form in EDGE_FORMS:
            case = dict(struct)
            case["form"] = form
            yield case


_EDGES = Enum("edges", edge_cases, _EDGES_DESC)


def sources(tier):
    if tier == "quick":
        return [_EDGES, Hyp("grammar", gen_case(), 400, shards=8)]
    return [_EDGES, Hyp("grammar", gen_case(), 8000, shards=16)]
