"""C05 - edits through the format-preserving parser are local and read back.

case = {"doc": <gen/docs.py document, unique field names per paragraph>,
        "ops": [["set", pi, fi, value, casemode] | ["add", pi, name, value] |
                ["del", pi, fi, casemode] | ["delmissing", pi, name]],
        "view": bool,     # True: go through paragraph.configured_view() (defaults)
        "blind": bool}    # True: between the operations only the dump is looked at (no look-ups)

Index operands are taken modulo the number of live paragraphs / fields.
"""
from hypothesis import strategies as st

from ..core import Violation, Enum, Hyp, short
from ..gen import docs
from ..model.docmodel import DocRun, spell

ID = "C05"
LEVEL = "exploration"
RULE = ("cases are (valid document built from structure: 1..3 paragraphs, unique field names, "
        "field comments, interior comments, 10 first-line layouts x 7 continuation shapes, free "
        "comments between paragraphs, with/without final newline) x 1..5 set/add/del operations "
        "with single- and multi-line values (keys as names in any case or as field-name tokens; "
        "deletion by del, pop() or clear(); assignment through 5 documented routes; refused values; reads between the edits; one history in three is 'blind': only the dump is looked at between the operations); the dump is compared with the model's bytes after "
        "EVERY operation and a fresh parse at the end. Non-trivial = the history touches a "
        "multi-line or commented field, or the document lacks its final newline, or >=2 "
        "operations hit the same paragraph; distinct = distinct canonical JSON")
ASSUMPTIONS = [
    "reference document model (vcheck/model/docmodel.py): list surgery over generated structure, no parser",
    "the layout inside a written field is the library's choice: only 'Name:' + well-formed lines "
    "whose canonical reading equals the assigned value is required",
    "a paragraph emptied by deletes disappears from the fresh parse",
]
BUDGET = {"quick": 200, "thorough": 1500}


def check(case):
    doc = case["doc"]
    if not docs.wellformed_doc(doc):
        return (False, ("invalid-case-skipped",))
    for p in doc["paras"]:
        names = [f["n"].lower() for f in p]
        if len(names) != len(set(names)):
            return (False, ("invalid-case-skipped",))
    run = DocRun(doc, dups=False, strict_nl=True, use_view=bool(case.get("view")),
                 blind=bool(case.get("blind")))
    touched_rich = False
    per_para = {}
    nops = 0
    for op in case["ops"]:
        kind = op[0]
        pi = op[1] % len(run.paras)
        p = run.paras[pi]
        what = "%s on paragraph %d" % (op, pi)
        route = op[5] if kind == "set" and len(op) > 5 else op[4] if kind == "add" and len(op) > 4 else None
        if kind == "get":
            # a read between the edits (the only look-up by key in a blind history)
            if op[2] == "absent":
                run.do_get(pi, (op[4], None), op[3], what)
            elif p:
                f = p[op[2] % len(p)]
                run.token_roles = ("key",) if op[4] >= 3 else ()
                run.do_get(pi, (spell(f["n"], op[4] % 3), None), op[3], what)
                run.token_roles = ()
            continue
        if kind == "setbad":
            if not p:
                continue
            f = p[op[2] % len(p)]
            touched_rich = touched_rich or bool(f["c"])
            if not run.do_set_bad(pi, (spell(f["n"], op[4] % 3), None), op[3], what,
                                  op[5] if len(op) > 5 else None):
                break
            nops += 1
            continue
        if kind == "set":
            if not p:
                continue
            f = p[op[2] % len(p)]
            touched_rich = touched_rich or bool(f["c"]) or f["b"].count("\n") > 1 or "\n" in op[3]
            run.token_roles = ("key",) if op[4] >= 3 else ()
            run.do_set(pi, (spell(f["n"], op[4] % 3), None), op[3], what, route)
            run.token_roles = ()
            # the spelling of an existing name is kept
            run.labels.add("set-existing")
        elif kind == "add":
            occ = run.occ(p, op[2])
            touched_rich = touched_rich or "\n" in op[3]
            if occ:
                # adding a name that exists (in any case) is an update of that field
                run.do_set(pi, (op[2], None), op[3], what, route)
            else:
                if p and p[-1]["open"]:
                    run.labels.add("add-after-unterminated-field")
                run.do_set(pi, (op[2], None), op[3], what, route)
                if run.paras[pi][-1]["n"] != op[2]:
                    raise Violation("add-not-at-end", what)
        elif kind == "del":
            if not p:
                continue
            f = p[op[2] % len(p)]
            touched_rich = touched_rich or bool(f["c"]) or f["b"].count("\n") > 1
            run.token_roles = ("key",) if op[3] >= 3 else ()
            run.do_del(pi, (spell(f["n"], op[3] % 3), None), what, op[4] if len(op) > 4 else None)
            run.token_roles = ()
            run.labels.add("del-existing")
        elif kind == "clear":
            # Mapping.clear(): deleting every field of the paragraph in one call
            if not p:
                continue
            touched_rich = True
            run.do_clear(pi, what)
        elif kind == "delmissing":
            if run.occ(p, op[2]):
                continue
            run.do_del(pi, (op[2], None), what)
        else:
            continue
        nops += 1
        per_para[pi] = per_para.get(pi, 0) + 1
        run.compare(what)
    run.finish()
    labels = set(run.labels)
    if case.get("view"):
        labels.add("configured-view")
    nontrivial = nops > 0 and (touched_rich or "doc-without-final-newline" in labels
                               or any(v >= 2 for v in per_para.values()))
    return (nontrivial, sorted(labels))


value = st.sampled_from(docs.VALUES)
ROUTES = [None, None, None, "view", "view-noresolve", "simple", "raw"]
BAD_VALUES = ["n\nunindented", "n\n\n c", "n\n c\n# trailing comment", "n\nB: injected", "n\n c\n\n"]
op = st.one_of(
    st.tuples(st.just("set"), st.integers(0, 5), st.integers(0, 5), value, st.integers(0, 5), st.sampled_from(ROUTES)),
    st.tuples(st.just("setbad"), st.integers(0, 5), st.integers(0, 5), st.sampled_from(BAD_VALUES),
              st.integers(0, 2), st.sampled_from(ROUTES[:5])),
    st.tuples(st.just("add"), st.integers(0, 5), st.sampled_from(docs.NEW_NAMES), value, st.sampled_from(ROUTES)),
    st.tuples(st.just("del"), st.integers(0, 5), st.integers(0, 5), st.integers(0, 5),
              st.sampled_from([None, None, "pop"])),
    st.tuples(st.just("clear"), st.integers(0, 5)),
    st.tuples(st.just("get"), st.integers(0, 5), st.integers(0, 5), st.sampled_from(["item", "get", "in", "kvpair"]),
              st.integers(0, 5)),
    st.tuples(st.just("get"), st.integers(0, 5), st.just("absent"), st.sampled_from(["item", "get", "in", "kvpair"]),
              st.sampled_from(docs.NEW_NAMES + ["Nope"])),
    st.tuples(st.just("delmissing"), st.integers(0, 5), st.sampled_from(["Nope", "zz"])),
)
case = st.fixed_dictionaries({"doc": docs.document(dups=False),
                              "ops": st.lists(op, min_size=1, max_size=5),
                              "view": st.booleans(),
                              "blind": st.sampled_from([False, False, True])})


def small_docs():
    """Bounded-exhaustive: one paragraph of 1..2 fields over 4 bodies x final newline x one op."""
    bodies = [" v\n", "\n c\n", " v\n# ic\n\tc\n", "v\n", " v \t\n"]
    ops = [["set", 0, 0, "n", 1], ["set", 0, 1, "n\n c2", 0], ["add", 0, "New", "n"],
           ["set", 0, 1, "n", 0, "view-noresolve"], ["set", 0, 1, "n\n c", 0, "raw"], ["set", 0, 0, "n", 0, "simple"],
           ["setbad", 0, 1, "n\nunindented", 0], ["setbad", 0, 0, "n\n\n c", 2, "view"],
           ["add", 0, "New", "n\n c"], ["del", 0, 0, 2], ["del", 0, 1, 0],
           ["add", 1, "Zed", ""], ["set", 1, 0, "  n m ", 2],
           ["del", 0, 1, 3], ["del", 0, 0, 0, "pop"], ["set", 0, 1, "n", 3], ["clear", 0]]
    for tail in ["", "# trailing\n"]:
        for fin in (True, False):
            for b1 in bodies:
                for b2 in [None] + bodies:
                    for c in ["", "# c\n"]:
                        for two in (False, True):
                            p = [{"n": "Alpha", "c": "", "b": b1}]
                            if b2 is not None:
                                p.append({"n": "Beta", "c": c, "b": b2})
                            # the second paragraph repeats a name of the first in another case
                            paras = [p] + ([[{"n": "Gamma", "c": c, "b": b1}, {"n": "alpha", "c": "", "b": " w\n"}]] if two else [])
                            d = {"lead": "", "paras": paras, "seps": ["\n"] * (len(paras) - 1),
                                 "tail": tail, "final_nl": fin}
                            for o1 in ops:
                                yield {"doc": d, "ops": [o1], "view": False}
                                for o2 in ops[2:5] + ops[8:9] + (
                                        [["add", 0, "alpha", "n"], ["add", 0, "BETA", "n"]] if o1[0] == "clear" else []):
                                    yield {"doc": d, "ops": [o1, o2], "view": True}


def read_edit_readd():
    """Blind histories (no look-ups but the history's own): read a field, delete or replace it,
    add it (or another) again - every field of a 3-field paragraph, every read form, with
    comments on every field so that a stale element shows."""
    p = [{"n": n, "c": "# c-%s\n" % n, "b": " v%d\n" % i} for i, n in enumerate(["Alpha", "Beta", "Gamma"])]
    for fin in (True, False):
        d = {"lead": "", "paras": [p], "seps": [], "tail": "", "final_nl": fin}
        for fi in range(3):
            for how in ("item", "get", "in", "kvpair"):
                for mode in (0, 2, 3):
                    name = p[fi]["n"]
                    g = ["get", 0, fi, how, mode]
                    yield {"doc": d, "ops": [g, ["del", 0, fi, 0], ["add", 0, name, "n"]], "view": False, "blind": True}
                    yield {"doc": d, "ops": [g, ["del", 0, fi, 1, "pop"], ["add", 0, name.lower(), "n\n c"]], "view": False, "blind": True}
                    yield {"doc": d, "ops": [g, ["del", 0, fi, 0], ["get", 0, "absent", how, name], ["add", 0, "New", "n"]],
                           "view": False, "blind": True}
                    yield {"doc": d, "ops": [g, ["set", 0, fi, "m", 0], ["del", 0, fi, 0], ["add", 0, name, "n"]], "view": False, "blind": True}
                    yield {"doc": d, "ops": [g, ["clear", 0], ["add", 0, name, "n"]], "view": False, "blind": True}
                    yield {"doc": d, "ops": [g, ["del", 0, (fi + 1) % 3, 0], ["set", 0, 0, "m", 1]], "view": True, "blind": True}


def near_identical_assignments():
    """A field is assigned a value that differs from the one it holds only where it still
    matters: a leading newline (the 'Field:' + continuation-lines layout), blanks at the end of
    the last line, the continuation marker, a comment line inside - the assignment must show."""
    pairs = [("\n c\n", "c"), (" c\n", "\n c"), (" a\n b\n", "a\n b  "), (" a\n b\n", "a\n b\t"),
             (" a\n b  \n", "a\n b"), (" a\n b\n", "a\n\tb"), (" a\n b\n", "a\n  b"), (" a\n b\n", "\n a\n b"),
             ("\n a\n b\n", "a\n b"), (" a\n# ic\n b\n", "a\n b"), (" a\n b\n", "a\n b\n c"), (" a\n b\n c\n", "a\n b"),
             (" a\n .\n b\n", "a\n b"), (" a b\n", "a  b"), (" a\n", "A")]
    for body, val in pairs:
        for c in ("", "# c\n"):
            for last in (False, True):
                p = [{"n": "Alpha", "c": c, "b": body}] + ([] if last else [{"n": "Beta", "c": "", "b": " z\n"}])
                for fin in (True, False):
                    d = {"lead": "", "paras": [p], "seps": [], "tail": "", "final_nl": fin}
                    for route in (None, "view", "view-noresolve", "raw", "simple"):
                        for mode in (0, 1, 3):
                            yield {"doc": d, "ops": [["set", 0, 0, val, mode, route]], "view": False}
                            yield {"doc": d, "ops": [["set", 0, 0, val, mode, route], ["set", 0, 0, val, 0, route]],
                                   "view": False, "blind": True}


def same_assignment_twice():
    """The same field set to the same value in two paragraphs (one of them with comment lines,
    the other without), then set again / deleted / replaced in one of them: what was built for
    one paragraph must never be handed to another."""
    for c0, c1 in (("# zero\n", ""), ("", "# one\n"), ("# zero\n", "# one\n")):
        paras = [[{"n": "Alpha", "c": c0, "b": " v0\n"}, {"n": "Beta", "c": "", "b": " b\n"}],
                 [{"n": "Alpha", "c": c1, "b": " v1\n"}, {"n": "Gamma", "c": "", "b": " g\n"}]]
        for fin in (True, False):
            d = {"lead": "", "paras": paras, "seps": ["\n"], "tail": "", "final_nl": fin}
            for val in ("n", "n\n c2", "", "x: y"):
                for route in (None, "view", "simple", "raw"):
                    s0 = ["set", 0, 0, val, 0, route]
                    s1 = ["set", 1, 0, val, 2, route]
                    for tail in ([], [["set", 0, 0, "m", 0]], [["set", 1, 0, val, 0]], [["del", 0, 0, 0]],
                                 [["add", 0, "New", val], ["add", 1, "New", val]], [["set", 0, 0, val, 1, route]]):
                        for blind in (False, True):
                            yield {"doc": d, "ops": [s0, s1] + tail, "view": False, "blind": blind}
                            yield {"doc": d, "ops": [s1, s0] + tail, "view": False, "blind": blind}


def sources(tier):
    if tier == "quick":
        return [Enum("small-docs", small_docs, "1-2 paragraphs x 5 bodies^2 x 17 ops (+ second op)"),
                Enum("read-edit-readd", read_edit_readd, "blind histories: read (4 forms x 3 key forms) then delete/replace/clear then add, 3 fields x 2 endings"),
                Enum("near-identical-assignments", near_identical_assignments, "15 (held text, new value) pairs differing only in a leading newline, trailing blanks, markers or inner lines x comment x position x ending x 5 routes x 3 key forms"),
                Enum("near-identical-assignments", near_identical_assignments, "15 (held text, new value) pairs differing only in a leading newline, trailing blanks, markers or inner lines x comment x position x ending x 5 routes x 3 key forms"),
            Enum("same-assignment-twice", same_assignment_twice, "the same field set to the same value in two paragraphs (4 values x 4 routes) then six follow-ups, with and without comments"),
                Hyp("doc-histories", case, 400, shards=8)]
    return [Enum("small-docs", small_docs, "1-2 paragraphs x 5 bodies^2 x 17 ops (+ second op)"),
            Enum("read-edit-readd", read_edit_readd, "blind histories: read (4 forms x 3 key forms) then delete/replace/clear then add, 3 fields x 2 endings"),
            Enum("near-identical-assignments", near_identical_assignments, "15 (held text, new value) pairs differing only in a leading newline, trailing blanks, markers or inner lines x comment x position x ending x 5 routes x 3 key forms"),
            Enum("same-assignment-twice", same_assignment_twice, "the same field set to the same value in two paragraphs (4 values x 4 routes) then six follow-ups, with and without comments"),
            Hyp("doc-histories", case, 10000, shards=16)]
