"""C07 - DebFile returns exactly what was packed and rejects malformed packages.

Two kinds of cases.

{"kind": "package",
 "control":  [[field name, value], ...]   value = first line ["\\n" + continuation line]...; every
                                          continuation line starts with one blank and has text.  The
                                          text may hold any character but LF, CR and NUL - also
                                          controls, NBSP, zero-width space and the characters
                                          str.splitlines() (but not the format) takes for line ends:
                                          VT FF FS GS RS NEL U+2028 U+2029 - except white space at
                                          the two ends of a line
 "scripts":  {"postinst": latin-1 str, ...}        any subset of the five maintainer scripts
 "files":    [[relative name, latin-1 data], ...]  data files; stored as ./name plus directories.
                                          A name (and each directory in it) may contain and END in
                                          white space - blank, tab, NBSP, U+3000 - and a directory or
                                          file below the top level may start with it; the name as a
                                          whole may not (an md5sums line cannot express that).  Apart
                                          from LF and NUL a name may hold ANY character: controls, DEL,
                                          zero-width space, BOM and the characters str.splitlines() /
                                          bytes.splitlines() (but not the md5sums list, whose lines end
                                          at LF) take for line ends - VT FF FS GS RS NEL U+2028
                                          U+2029 anywhere behind the first character, CR anywhere but
                                          as the very last character of the name (a CR in front of the
                                          LF is the CRLF line end the reader accepts)
 "tarfmt":   "gnu" | "pax" | "ustar"
 "variants": [[control compression, data compression], ...]   each of "", gz, bz2, xz, lzma
 "binary_pos": 0 | 1 | 2      debian-binary first / between the parts / last
 "extra":    bool             an unknown member (_gpgorigin) is appended
 "ar_style": "gnu" | "pad"    ar header names as ``name/`` (binutils) or blank-padded (dpkg); optional
 "md5calls": [[route, encoding, errors], ...]   calls of md5sums() made one after the other on the
                              same reader: route "deb" (DebFile.md5sums) or "control"
                              (DebFile.control.md5sums), encoding None or one of MD5_ENCODINGS,
                              errors None or one of MD5_ERRORS; optional (DEFAULT_MD5_CALLS)
 "open":     "fileobj" | "filename"
 "writer":   "harness" | "dpkg-deb:gzip" | "dpkg-deb:xz" | "dpkg-deb:none"   (optional)
 "layout":   {...}            which members the two tarballs hold besides the files (optional, harness
                              writer only; every key optional, default = what dpkg-deb writes):
                "data_root": bool      the './' entry of data.tar is written
                "data_dirs": bool      the ancestor directories of files and empty directories are written
                "empty_dirs": [names]  directories with nothing in them (always written as members)
                "control_root": bool   the './' entry of control.tar is written
                "md5sums_file": bool   the md5sums list is stored; false only for a package without data
                                       files - its list would be empty - then md5sums() must fail with
                                       DebError (documented) or answer {}
                              With no files, no empty_dirs and data_root false the data tarball has NO
                              members at all (a valid tar archive: the end-of-archive marker only); with
                              no scripts, control_root and md5sums_file false control.tar holds only
                              ./control.
}
   The md5sums file always lists every data file with its real md5.

   Every reader is put through three rounds.  (1) All answers are compared with what was packed
   (for each part: every file, every directory written as a member and a list of absent names - always
   'no-such-file' and 'no such/file', so also in a part with no members at all - are queried with
   has_file / in / get_content / get_file / [] in the three spellings; for the control part the absent
   names include every maintainer script that was not packed);
   the md5calls are made in the given order, each answer compared with the packed map whose names
   are decoded as that call asked (a name that cannot be decoded as asked: UnicodeError/DebError or
   any answer; a name that decodes to nothing or to leading white space: not judged; a call WITH an
   encoding on a package that has a CR inside a name: not judged - see ASSUMPTIONS - while the
   call without encoding must return that name whole).
   (2) The mappings the reader handed out in round 1 (control fields from both routes, both
   scripts dicts, the three md5sum maps) are modified in place - every value overwritten, one
   entry deleted, one added - and the reader is asked for them again (the md5calls in reverse
   order).  (3) With the reader still
   open, a reader for a different fixed package is opened (same open mode), one archive per kind
   of defect (no data part, no control part, no debian-binary, two control candidates, two data
   candidates) is offered and must be rejected, and the other reader is closed; after each of
   these steps the reader is asked again for its summary (version, control fields, scripts,
   md5sums), its control file and its first and last data file.  In addition a "bystander"
   reader for a third fixed package is opened and questioned before the case's first archive is
   touched, stays open during the whole case and is questioned again after every archive of the
   case was read and closed - or rejected.

{"kind": "members", "names": [ar member names, distinct], "open": ...}
   An archive with exactly these members (valid contents for every recognised name).  It is a
   well-formed package iff it has debian-binary, exactly one control candidate and exactly one data
   candidate; otherwise DebFile() must raise DebError.  Candidates are control.tar / data.tar plain
   or with .gz .bz2 .xz .lzma; every other name - control.tar.zst, data.tar.Z, Control.tar.gz,
   data.tgz, debian-binary~, ... - is an unknown member that neither stands in for a part nor
   competes with one (such members carry a valid gzip'ed tarball of the part they resemble).  The bystander reader brackets the attempt
   (so every defective set is also "a defective archive attempted while another reader is open");
   an accepted set goes through the three rounds above.
"""
import hashlib
import io
import itertools
import os
import shutil
import tempfile

from hypothesis import strategies as st

from ..core import Violation, Enum, Hyp, Custom, short, s2b
from .. import findings
from ..gen import c06_archives as A

from debian.debfile import DebFile, DebError

ID = "C07"
LEVEL = "exploration"
RULE = ("package cases are (control fields, subset of maintainer scripts, 0..5 data files with binary "
        "content and names of 1..3 components with blanks/tabs/non-ASCII, a third of the components ending "
        "in white space (blank, tab, NBSP, U+3000) and some lower ones starting with a blank, one component in six "
        "holding - between ordinary text, before a blank, or as its last character - a non-printable character: a control, "
        "DEL, ZWSP, BOM, US or one of the characters some splitlines() cuts at (VT FF FS GS RS NEL U+2028 U+2029; CR, never "
        "as the last character of the whole name), tar format, "
        "list of (control, data) "
        "compression pairs, position of debian-binary, extra member, open mode, 2..6 md5sums calls); a third of the "
        "control values mix in non-printable characters (controls, NBSP, ZWSP, BOM and the 8 characters str.splitlines() "
        "treats as line ends), followed by a blank or not; every pair is built "
        "and read back: control fields, scripts, md5sums (str and bytes keys; then the case's sequence of "
        "md5sums(encoding, errors) calls on DebFile and on .control over 6 ASCII-compatible encodings x 5 error "
        "handlers, each answer compared with the names decoded as asked, the sequence repeated in reverse "
        "after the returned maps were modified), and for every file "
        "and directory the 'name', './name', '/name' spellings of has_file/in/get_content/get_file/[]; "
        "absent names include each of the first two names with a blank or tab appended and stripped of "
        "outer white space, and in the control part the scripts that were not packed. Each package also draws a layout of its tarballs - "
        "'./' entry written or not (each part), directory members written or not, 0..2 directories with nothing in them, the "
        "(empty) md5sums list of a package without files stored or not - so that data.tar may have no members at all, only './', "
        "only directories, only files, and control.tar only ./control; these degenerate containers are also enumerated "
        "(9 data shapes x 5 control shapes x 3 tar formats x 2 open modes, 5 compression pairs each, all 25 pairs covered per shape). Every reader is then asked again after the mappings it returned were modified "
        "in place, and again while/after a reader for a different fixed package is opened and closed and "
        "five kinds of defective archive are rejected; a bystander reader of a third package, opened "
        "before the case's archives, must answer unchanged after each of them (also after each rejected "
        "member set). "
        "member-set cases enumerate every subset of the 5 control and 5 data candidate names with and "
        "without debian-binary (2048 sets x 2 orders x 2 open modes): DebError iff a part is missing "
        "or ambiguous; look-alike names (28 unknown suffixes such as zst/Z/zip/GZ, other letter case, "
        "tgz, prefixes, debian-binary~ ...) each replace each part of a complete set (2 orders x 2 open modes), both parts, "
        "and join a complete set; random sets mix candidates with base name + arbitrary suffix. Thorough adds packages built by dpkg-deb. Non-trivial = a package with a data "
        "file whose name has a blank, a non-ASCII character or white space at the end of a component, or with two different compressions in "
        "one pair, or whose tarballs are not laid out the dpkg-deb way (a part without './' entry, without directory members, "
        "without any member, with only directories, control.tar with ./control only); or a defective member set; distinct = distinct canonical JSON of the case")
ASSUMPTIONS = [
    "harness writers for ar/tar/compression (vcheck/gen/c06_archives.py; tarfile, gzip, bz2, lzma of the standard library)",
    "control values are generated in the parser's normal form (no white space at line ends, continuation "
    "lines start with one blank; any character but LF, CR, NUL inside), so 'same control fields' is plain equality",
    "known deviation 'control-value-line-boundary-char' (replays/C07/control-value-form-feed.json): for a value "
    "with VT/FF/FS/GS/RS/NEL/U+2028/U+2029 not followed by white space debcontrol() raises ValueError from "
    "Deb822.validate_input; reported as a violation unless known_findings.json lists that id, in which case "
    "exactly this ValueError for exactly such values is tolerated and the other answers are still checked",
    "md5sums(encoding, errors): encodings utf-8, ascii, latin-1, cp1252, iso8859-15, cp437 (ASCII-compatible); "
    "expected keys = packed name (UTF-8 bytes) decoded with (encoding, errors or 'strict'), later line wins "
    "when two names decode alike; a call whose name cannot be decoded as asked may raise UnicodeError/DebError; "
    "a call under which a name decodes to '' or to leading white space is not judged",
    "a member whose name is not one of the 10 candidate names is unknown to the format whatever it resembles: "
    "it neither satisfies nor duplicates a part (dpkg's stricter rule about unknown members between parts is not demanded)",
    "two members with the *same* name are not generated in member-set cases (the statement's 'more than one candidate' is read as distinct candidate names)",
    "file names: white space is generated inside and at the end of every path component and in front of "
    "lower components; a name whose very first character is white space, that contains LF or NUL, or whose very "
    "last character is CR is outside the domain (one md5sums line '<md5>  <name>' LF cannot carry it: the reader "
    "takes CR LF for a line end too). Every other character may occur in a name: the lines of an md5sums list end "
    "at LF and nowhere else, so VT FF FS GS RS NEL U+2028 U+2029 (line ends for str.splitlines()) and US belong to "
    "the name whether md5sums() is asked for bytes or for decoded names, and a CR inside a name belongs to it "
    "when md5sums() is asked without an encoding",
    "observation, not judged: a CR INSIDE a data file name + md5sums(encoding=...) - the unchanged library reads the "
    "list through io.TextIOWrapper with universal newlines and cuts the line at the CR (files usr/plain, 'usr/a\\rb', "
    "'z last': md5sums(encoding='utf-8') raises ValueError 'not enough values to unpack'; 'usr/a \\rb c' gives the keys "
    "'usr/a ' and 'c'), while md5sums() returns b'usr/a\\rb' whole. The quantifier promises names with spaces, not "
    "control characters, so a call with an encoding on a package with a CR in a name (after decoding) may raise "
    "ValueError or return anything; the call without encoding, membership and content queries are judged strictly",
    "modifying a returned mapping = item assignment, del and insertion on the Deb822 / dict objects "
    "returned by debcontrol(), scripts() and md5sums(); file objects and the TarFile from tgz() are not tampered with",
    "the second reader, the bystander reader and the parts of the rejected archives are three small fixed "
    "packages with distinctive content (all contain usr/share/doc/common with different bytes); the "
    "case's own package is the arbitrary one",
    "queries for absent names: has_file must be False in all spellings; content queries must fail "
    "the same way (KeyError or DebError) in all spellings - which of the two is not prescribed",
    "degenerate but valid containers: a tar archive that consists of the end-of-archive marker only (no members) is a "
    "valid data part of a package with 0 data files; the './' entry and the directory entries are optional in both parts "
    "(files are always stored as ./name). Membership of a directory is demanded only when the directory was written as a "
    "member; content queries on a directory must give the same outcome (None, KeyError or DebError) in the three spellings. "
    "A package without data files may omit its (empty) md5sums list: md5sums() must then raise DebError (docstring: 'Fails "
    "if the control part does not contain a md5sum file') or return {}; nothing else about a missing list is demanded",
    "dpkg-deb --build as second writer when /usr/bin/dpkg-deb exists (thorough tier)",
    "Hypothesis 6.168 generators; sha1 for distinctness",
]
EXHAUSTIVE = {
    "quick": "all 2048 subsets of {debian-binary} + 5 control candidates + 5 data candidates, x 2 member orders x 2 open modes; "
             "one fixed package (7 data files, among them 'etc/conf ' next to 'etc/conf', a name with tabs and '.config/.rc') "
             "x 5x5 compressions x 3 tar formats x 3 debian-binary positions, 9 fixed md5sums(encoding, errors) calls each; "
             "105 look-alike member names x the part they resemble replaced (2 orders x 2 open modes) or accompanied; "
             "19 non-printable characters x 6 positions in a control value; "
             "17 non-printable characters (the 8 that str.splitlines() cuts at, US, CR, 7 others) x 6 positions in a data file name "
             "(CR: 5), md5sums asked with and without encoding; "
             "degenerate containers: 9 data.tar shapes (no members; only './'; only directories with / without './'; one directory and "
             "nothing else; one file and nothing else; one empty top-level file; files without directory members; files + empty "
             "directory without './') x 5 control.tar shapes (dpkg-deb style; no './'; ./control only; './' + control; scripts "
             "without './') x 3 tar formats x 2 open modes, 5 compression pairs each; "
             "every one of these cases with a bystander reader open, and every accepted archive with the "
             "modify-and-ask-again round and the second-reader / 5 rejected archives round",
    "thorough": "all 2048 subsets of {debian-binary} + 5 control candidates + 5 data candidates, x 2 member orders x 2 open modes; "
                "one fixed package (7 data files, among them 'etc/conf ' next to 'etc/conf', a name with tabs and '.config/.rc') "
                "x 5x5 compressions x 3 tar formats x 3 debian-binary positions x 2 open modes, 9 fixed md5sums(encoding, errors) calls each; "
                "105 look-alike member names x the part they resemble replaced (2 orders x 2 open modes) or accompanied; "
                "19 non-printable characters x 6 positions in a control value; "
             "17 non-printable characters (the 8 that str.splitlines() cuts at, US, CR, 7 others) x 6 positions in a data file name "
             "(CR: 5), md5sums asked with and without encoding; "
             "degenerate containers: 9 data.tar shapes (no members; only './'; only directories with / without './'; one directory and "
             "nothing else; one file and nothing else; one empty top-level file; files without directory members; files + empty "
             "directory without './') x 5 control.tar shapes (dpkg-deb style; no './'; ./control only; './' + control; scripts "
             "without './') x 3 tar formats x 2 open modes, 5 compression pairs each; "
                "every one of these cases with a bystander reader open, and every accepted archive with the "
                "modify-and-ask-again round and the second-reader / 5 rejected archives round",
}
BUDGET = {"quick": 200, "thorough": 1500}

SCRIPTS = ["preinst", "postinst", "prerm", "postrm", "config"]
COMPS = A.COMPRESSIONS
CTRL_CANDIDATES = ["control.tar" + ("." + c if c else "") for c in COMPS]
DATA_CANDIDATES = ["data.tar" + ("." + c if c else "") for c in COMPS]


# ------------------------------------------------------------------------------------------
# case validation


# characters str.splitlines() treats as the end of a line although a control file does not (its
# lines end at LF): a value may contain them like any other character
LINE_BOUNDARY_CHARS = "\x0b\x0c\x1c\x1d\x1e\x85\u2028\u2029"
# further characters that are not "printable": controls, DEL, soft hyphen, zero-width space, BOM, NBSP
ODD_CHARS = LINE_BOUNDARY_CHARS + "\x01\x1b\x1f\x7f\x80\xa0\xad\u200b\ufeff\u3000\t"


def _text_ok(line):
    """Text of one line of a value: anything but the line terminators of the format (LF, CR), NUL
    and code points UTF-8 cannot carry."""
    return not any(c in "\n\r\x00" or "\ud800" <= c <= "\udfff" for c in line)


def _valid_value(v):
    if not isinstance(v, str):
        return False
    lines = v.split("\n")
    first = lines[0]
    if first != first.strip() or not _text_ok(first):
        return False
    for l in lines[1:]:
        if len(l) < 2 or l[0] != " " or l != l.rstrip() or not l.strip() or not _text_ok(l):
            return False
    return True


KNOWN_ID = "control-value-line-boundary-char"
KNOWN_SIG = "control-value-with-line-boundary-character-refused"


def _continuation_defect(lines):
    return any(not l or not l[0].isspace() for l in lines[1:])


def _refused_by_known_defect(ctrl):
    """Does a value hold a VT/FF/FS/GS/RS/NEL/LS/PS that is not followed by white space (or is
    followed by another one)?  Deb822's input validation cuts the already parsed value at these
    characters and then misses the leading blank of a 'continuation line' (known finding
    KNOWN_ID, tolerated only while known_findings.json lists it)."""
    return any(_continuation_defect(v.splitlines()) and not _continuation_defect(v.split("\n"))
               for _, v in ctrl)


def _valid_fieldname(n):
    return (isinstance(n, str) and n != "" and n[0] not in "#-"
            and all("!" <= c <= "~" and c != ":" for c in n))


# characters that are no line end in an md5sums list (its lines end at LF) although str.splitlines()
# or - CR - bytes.splitlines() and text-mode "universal newlines" cut there; US is white space only
NAME_LINE_CHARS = LINE_BOUNDARY_CHARS + "\x1f\r"
# what the generators put into names besides ordinary text (any other character is accepted too)
NAME_ODD_CHARS = NAME_LINE_CHARS + "\x01\x1b\x7f\x80\xad\u200b\ufeff"


def _valid_filename(n):
    """A relative path that one md5sums line can carry: no LF (the line end of the list), no NUL,
    no white space in front (``<md5>  <name>`` cannot tell it from the separator) and no CR as the
    very last character (CR LF is a line end the reader accepts).  Every other character - white
    space inside and at the END of the name or of a directory, controls, VT FF FS GS RS NEL
    U+2028 U+2029, a CR inside - is allowed."""
    if not isinstance(n, str) or not n or n[0].isspace() or n[-1] == "\r":
        return False
    if any(c in "\n\x00" or "\ud800" <= c <= "\udfff" for c in n):
        return False
    return not any(comp in ("", ".", "..") for comp in n.split("/"))


def _tree_conflict(names):
    files = set(names)
    if len(files) != len(names):
        return True
    dirs = set(A.parent_dirs(names))
    return bool(files & dirs)


LAYOUT_DEFAULT = {"data_root": True, "data_dirs": True, "empty_dirs": [], "control_root": True, "md5sums_file": True}


def layout_of(case):
    """The case's layout with the defaults filled in (what dpkg-deb writes)."""
    lay = dict(LAYOUT_DEFAULT)
    lay.update(case.get("layout") or {})
    return lay


def _valid_layout(case, fnames):
    lay = case.get("layout")
    if lay is None:
        return True
    if not isinstance(lay, dict) or any(k not in LAYOUT_DEFAULT for k in lay):
        return False
    if case.get("writer", "harness") != "harness":
        return False
    lay = layout_of(case)
    if not all(type(lay[k]) is bool for k in ("data_root", "data_dirs", "control_root", "md5sums_file")):
        return False
    dirs = lay["empty_dirs"]
    if not isinstance(dirs, list) or not all(_valid_filename(d) for d in dirs) or len(set(dirs)) != len(dirs):
        return False
    if _tree_conflict(fnames + [d + "/x" for d in dirs]):      # a directory is no file, nor below one
        return False
    return lay["md5sums_file"] or not fnames


def data_dirs_of(case):
    """(directories written as members of data.tar, all directories that exist in the package)."""
    lay = layout_of(case)
    fnames = [n for n, _ in case["files"]]
    every = A.parent_dirs(fnames + [d + "/x" for d in lay["empty_dirs"]])
    return (every if lay["data_dirs"] else list(lay["empty_dirs"])), every


def valid_package(case):
    try:
        ctrl = case["control"]
        names = [k for k, _ in ctrl]
        if not all(_valid_fieldname(k) and _valid_value(v) for k, v in ctrl):
            return False
        low = [k.lower() for k in names]
        if len(set(low)) != len(low) or "package" not in low:
            return False
        if not all(k in SCRIPTS and isinstance(v, str) for k, v in case["scripts"].items()):
            return False
        for v in case["scripts"].values():
            s2b(v)
        fnames = [n for n, _ in case["files"]]
        if not all(_valid_filename(n) for n in fnames) or _tree_conflict(fnames):
            return False
        for _, d in case["files"]:
            s2b(d)
        if case["tarfmt"] not in A.TAR_FORMATS or case["open"] not in ("fileobj", "filename"):
            return False
        if not _valid_layout(case, fnames):
            return False
        if not case["variants"] or not all(len(p) == 2 and p[0] in COMPS and p[1] in COMPS for p in case["variants"]):
            return False
        if case.get("binary_pos", 0) not in (0, 1, 2) or case.get("ar_style", "gnu") not in ("gnu", "pad"):
            return False
        for call in case.get("md5calls", []):
            route, enc, err = call
            if route not in ("deb", "control") or enc not in MD5_ENCODINGS + [None] or err not in MD5_ERRORS + [None]:
                return False
        w = case.get("writer", "harness")
        return w == "harness" or w in ("dpkg-deb:gzip", "dpkg-deb:xz", "dpkg-deb:none")
    except (KeyError, TypeError, ValueError, AttributeError):
        return False


def valid_members(case):
    names = case.get("names")
    return (isinstance(names, list) and all(isinstance(n, str) for n in names)
            and len(set(names)) == len(names) and case.get("open") in ("fileobj", "filename")
            and all(A.ar_name_fits(n.encode("ascii", "replace"), "pad") and n.isascii() for n in names))


# ------------------------------------------------------------------------------------------
# building


def control_text(fields):
    out = []
    for name, value in fields:
        lines = value.split("\n")
        out.append(name + ":" + (" " + lines[0] if lines[0] else "") + "\n")
        for l in lines[1:]:
            out.append(l + "\n")
    return "".join(out).encode("utf-8")


def md5sums_text(files):
    return b"".join(hashlib.md5(d).hexdigest().encode("ascii") + b"  " + n.encode("utf-8") + b"\n"
                    for n, d in files)


def build_data_tar(case, files):
    """data.tar as the layout says: ['./'] [directories, parents first] files as ./name."""
    written, _ = data_dirs_of(case)
    entries = [("./", None)] if layout_of(case)["data_root"] else []
    entries += [("./" + d, None) for d in written]
    entries += [("./" + n, d) for n, d in files]
    return A.tar_bytes(entries, case["tarfmt"])


def control_members(case, files):
    """The files of control.tar: control, md5sums unless the layout leaves the (empty) list out, scripts."""
    out = [("control", control_text(case["control"]))]
    if layout_of(case)["md5sums_file"]:
        out.append(("md5sums", md5sums_text(files)))
    return out + sorted((k, s2b(v)) for k, v in case["scripts"].items())


def build_control_tar(case, files):
    entries = [("./", None)] if layout_of(case)["control_root"] else []
    entries += [("./" + n, d) for n, d in control_members(case, files)]
    return A.tar_bytes(entries, case["tarfmt"])


def _styled(members, style="gnu"):
    """GNU ``name/`` headers where the name leaves room for the slash, dpkg-style padded names otherwise."""
    for m in members:
        m["style"] = "pad" if (style == "pad" or len(m["name"]) > 15) else "gnu"
    return members


def deb_bytes(ctrl_blob, ctrl_comp, data_blob, data_comp, binary_pos=0, extra=False, style="gnu"):
    parts = [dict(name=A.part_name("control.tar", ctrl_comp), data=ctrl_blob),
             dict(name=A.part_name("data.tar", data_comp), data=data_blob)]
    parts.insert(binary_pos, dict(name=b"debian-binary", data=b"2.0\n"))
    if extra:
        parts.append(dict(name=b"_gpgorigin", data=b"-----BEGIN PGP SIGNATURE-----\n"))
    return A.ar_archive(_styled(parts, style))[0]


class _Opened(object):
    """DebFile over bytes, via fileobj= or via filename= in a per-case temp directory."""

    def __init__(self, mode):
        self.mode = mode
        self.dir = None
        self.n = 0

    def open(self, raw):
        if self.mode == "filename":
            if self.dir is None:
                self.dir = tempfile.mkdtemp(prefix="vcheck-c07-")
            self.n += 1
            path = os.path.join(self.dir, "case%d.deb" % self.n)
            with open(path, "wb") as f:
                f.write(raw)
            return DebFile(filename=path)
        return DebFile(fileobj=io.BytesIO(raw))

    def workdir(self):
        if self.dir is None:
            self.dir = tempfile.mkdtemp(prefix="vcheck-c07-")
        return self.dir

    def cleanup(self):
        if self.dir is not None:
            shutil.rmtree(self.dir, ignore_errors=True)
            self.dir = None


# ------------------------------------------------------------------------------------------
# oracle: packages


def _spellings(name):
    return [name, "./" + name, "/" + name]


def _content_queries(part, spelled):
    """The four content queries; each outcome is bytes or ('raised', exception type name)."""
    outs = []
    for how in ("get_content", "get_file", "getitem"):
        try:
            if how == "get_content":
                r = part.get_content(spelled)
            elif how == "get_file":
                f = part.get_file(spelled)
                r = f.read()
                f.close()
            else:
                r = part[spelled]
        except (KeyError, DebError) as e:
            r = ("raised", type(e).__name__)
        outs.append((how, r))
    return outs


def _check_part_files(part, what, files, dirs, labels, implied=(), more_absent=()):
    """files: [(name, bytes)] packed; dirs: directories written as members; implied: paths that
    exist without being members (nothing is demanded for them); more_absent: further absent names."""
    for name, data in files:
        for sp in _spellings(name):
            if part.has_file(sp) is not True or (sp in part) is not True:
                raise Violation("membership", "%s: has_file(%r)/in is not True for a packed file" % (what, sp))
            for how, r in _content_queries(part, sp):
                if r != data or type(r) is not bytes:
                    raise Violation("file-content", "%s: %s(%r) gave %s, packed %s" % (
                        what, how, sp, short(r, 80), short(data, 80)))
    for d in dirs:
        outcomes = []
        for sp in _spellings(d):
            if part.has_file(sp) is not True or (sp in part) is not True:
                raise Violation("membership", "%s: has_file(%r)/in is not True for a packed directory" % (what, sp))
            outcomes.append(_content_queries(part, sp))
        if outcomes[0] != outcomes[1] or outcomes[0] != outcomes[2]:
            raise Violation("spelling-disagreement", "%s: content queries for the directory %r: %s" % (what, d, short(outcomes)))
    present = set(n for n, _ in files) | set(dirs) | set(implied)
    absent = ["no-such-file", "no such/file"] + list(more_absent)
    for name in [n for n, _ in files[:2]] + (list(dirs[-2:]) if len(files) < 2 else []):
        absent += [name + "x", name[:-1], name + "/x", name.swapcase(), name + " ", name + "\t", name.strip()]
    for name, _ in files[:4]:
        # every proper tail of a packed path is a different (absent) name: usr/bin/x is not bin/x or x
        parts = name.split("/")
        absent += ["/".join(parts[k:]) for k in range(1, len(parts))]
    for name in absent:
        if name in present or not _valid_filename(name):
            continue
        outcomes = []
        for sp in _spellings(name):
            if part.has_file(sp) is not False or (sp in part) is not False:
                raise Violation("absent-name", "%s: has_file(%r)/in is not False, no such file was packed" % (what, sp))
            outcomes.append(_content_queries(part, sp))
        for o in outcomes:
            if any(type(r) is not tuple for _, r in o):
                raise Violation("absent-name", "%s: content query for absent %r returned data: %s" % (what, name, short(o)))
        if outcomes[0] != outcomes[1] or outcomes[0] != outcomes[2]:
            raise Violation("spelling-disagreement", "%s: absent %r: %s" % (what, name, short(outcomes)))
        labels.add("absent-name-queried")


def _check_summary(deb, case, what):
    """version, control fields, scripts and the md5sum map, each by every route the reader offers.
    Returns the mutable objects the reader handed out: [(object, a new key, a new value), ...]."""
    ctrl = case["control"]
    scripts = dict((k, s2b(v)) for k, v in case["scripts"].items())
    files = [(n, s2b(d)) for n, d in case["files"]]
    handed = []
    if deb.version != b"2.0":
        raise Violation("version", "%s: version = %r" % (what, deb.version))
    exp_ctrl = dict((k, v) for k, v in ctrl)
    for how, fn in (("DebFile.debcontrol", deb.debcontrol), ("control.debcontrol", deb.control.debcontrol)):
        try:
            got = fn()
        except ValueError as e:
            if isinstance(e, UnicodeError) or not _refused_by_known_defect(ctrl):
                raise
            if KNOWN_ID not in findings.allowed(ID):
                raise Violation(KNOWN_SIG, "%s: %s() raised ValueError(%s) for a control file with the fields %s" % (
                    what, how, e, short(exp_ctrl, 200)))
            continue
        got_d = dict((k, got[k]) for k in got.keys())
        if got_d != exp_ctrl:
            raise Violation("control-fields", "%s: %s() = %s, packed %s" % (what, how, short(got_d, 200), short(exp_ctrl, 200)))
        if [k for k in got.keys()] != [k for k, _ in ctrl]:
            raise Violation("control-fields", "%s: field order %s, packed %s" % (what, short(list(got.keys())), short([k for k, _ in ctrl])))
        handed.append((got, "X-Added-By-The-Caller", "yes"))
    for how, fn in (("DebFile.scripts", deb.scripts), ("control.scripts", deb.control.scripts)):
        got = fn()
        if got != scripts or not all(type(v) is bytes for v in got.values()):
            raise Violation("scripts", "%s: %s() = %s, packed %s" % (what, how, short(got, 200), short(scripts, 200)))
        handed.append((got, "added-by-the-caller", b"#!/bin/false\n"))
    for how, fn, enc in (("md5sums(encoding='utf-8')", deb.md5sums, "utf-8"), ("md5sums()", deb.md5sums, None),
                         ("control.md5sums(encoding='utf-8')", deb.control.md5sums, "utf-8"),
                         ("control.md5sums()", deb.control.md5sums, None)):
        exp = _md5_model(files, enc, None)
        if not layout_of(case)["md5sums_file"]:
            _check_no_md5_list(lambda: fn(encoding=enc) if enc else fn(), what, how)
            continue
        try:
            got = fn(encoding=enc) if enc else fn()
        except ValueError:
            if exp is not None:
                raise
            continue
        if exp is None:                             # nothing is prescribed for this answer
            continue
        if got != exp or type(got) is not dict:
            raise Violation("md5sums", "%s: %s = %s, packed %s" % (what, how, short(got, 200), short(exp, 200)))
        handed.append((got, "added/by the caller" if enc else b"added/by the caller", "0" * 32))
    return handed


# md5sums(encoding=None, errors=None): "The returned keys are Unicode objects if an encoding is
# specified, otherwise binary"; errors is the decoder's error handler.  ASCII-compatible encodings
# only (an md5sums line is '<hex>  <name>' in ASCII framing).
MD5_ENCODINGS = ["utf-8", "ascii", "latin-1", "cp1252", "iso8859-15", "cp437"]
MD5_ERRORS = ["strict", "replace", "ignore", "surrogateescape", "backslashreplace"]
DEFAULT_MD5_CALLS = [["deb", "ascii", "replace"], ["deb", "ascii", "surrogateescape"], ["control", "ascii", "ignore"],
                     ["deb", "ascii", "strict"], ["deb", None, "replace"], ["deb", "latin-1", None],
                     ["control", "cp1252", "backslashreplace"], ["deb", "cp1252", "replace"], ["deb", "utf-8", "strict"]]


def _md5_model(files, encoding, errors):
    """The md5sum map with the names as the caller asked for them: bytes, or decoded with
    (encoding, errors).  'undecodable' when a name cannot be decoded that way; None when a decoded
    name is one an md5sums line cannot express (empty or white space in front) - not judged; None
    also for a call with an encoding when a name holds a CR (see ASSUMPTIONS)."""
    out, unjudged = {}, False
    for n, d in files:
        key = n.encode("utf-8")
        if encoding is not None:
            try:
                key = key.decode(encoding, errors or "strict")
            except UnicodeDecodeError:
                return "undecodable"
            if not key or key[0].isspace() or "\r" in key:
                unjudged = True
        out[key] = hashlib.md5(d).hexdigest()       # names that decode to the same text: the later line wins
    return None if unjudged else out


def _check_no_md5_list(call, what, how):
    """A package without data files whose (empty) md5sums list was not stored: the documented
    failure, or the empty map."""
    try:
        got = call()
    except DebError:
        return
    if got != {} or type(got) is not dict:
        raise Violation("md5sums", "%s: %s = %s for a package without data files and without md5sums list" % (
            what, how, short(got, 200)))


def _check_md5_calls(deb, case, calls, what, labels):
    """Every call in turn on the same reader, each judged on its own; returns the maps handed out."""
    files = [(n, s2b(d)) for n, d in case["files"]]
    handed = []
    seen = {}
    for route, enc, err in calls:
        fn = deb.md5sums if route == "deb" else deb.control.md5sums
        how = "%s.md5sums(encoding=%r, errors=%r)" % ("DebFile" if route == "deb" else "control", enc, err)
        if not layout_of(case)["md5sums_file"]:
            _check_no_md5_list(lambda: fn(encoding=enc, errors=err), what, how)
            labels.add("md5sums:asked-without-a-list")
            continue
        exp = _md5_model(files, enc, err)
        try:
            got = fn(encoding=enc, errors=err)
        except (UnicodeError, DebError):
            if exp != "undecodable":
                raise
            labels.add("md5sums:name-undecodable-as-asked:refused")
            continue
        except ValueError:
            if exp is not None:
                raise
            continue                                # a line whose name decodes to nothing cannot be split
        if exp is None or exp == "undecodable":     # nothing is prescribed for this answer
            continue
        if got != exp or type(got) is not dict:
            raise Violation("md5sums", "%s: %s = %s, packed (names decoded as asked) %s; calls so far on this reader: %s" % (
                what, how, short(got, 200), short(exp, 200), short([list(k) for k in seen], 200)))
        handed.append((got, b"added/by the caller" if enc is None else "added/by the caller", "0" * 32))
        if enc is not None and exp != dict((n, hashlib.md5(d).hexdigest()) for n, d in files):
            labels.add("md5sums:names-changed-by-the-requested-decoding")
        if any(e == enc and r != err for e, r in seen):
            labels.add("md5sums:same-encoding-asked-again-with-another-error-handler")
        seen[(enc, err)] = True
    if len(seen) > 1:
        labels.add("md5sums:several-calls-with-different-arguments-on-one-reader")
    return handed


def _scribble(handed):
    """What a caller may do with a mapping it was given: overwrite every value, drop the first
    entry, add one.  (Deb822, dict of scripts, dicts of md5sums - all documented as mappings.)"""
    for obj, newkey, newvalue in handed:
        keys = list(obj.keys())
        for k in keys:
            obj[k] = newvalue
        if keys:
            del obj[keys[0]]
        obj[newkey] = newvalue


def _check_brief(deb, case, what):
    """The summary plus the first and the last data file and the control file: enough to tell this
    package's answers from any other package's."""
    _check_summary(deb, case, what)
    if deb.control.get_content("control") != control_text(case["control"]):
        raise Violation("file-content", "%s: get_content('control') is not the packed control file" % what)
    for n, d in [(n, s2b(d)) for n, d in case["files"][:1] + case["files"][1:][-1:]]:
        if deb.data.has_file(n) is not True or (("/" + n) in deb.data) is not True:
            raise Violation("membership", "%s: has_file(%r)/in is not True for a packed file" % (what, n))
        got = deb.data.get_content("./" + n)
        if got != d or type(got) is not bytes:
            raise Violation("file-content", "%s: get_content(%r) gave %s, packed %s" % (what, "./" + n, short(got, 80), short(d, 80)))


def _later(stage, fn, *args):
    """Run a repeated check; a failure keeps its kind but is filed under the stage that provoked it."""
    try:
        return fn(*args)
    except Violation as v:
        raise Violation(stage + ":" + v.sig, v.msg)


def _check_package(deb, case, what, labels):
    ctrl = case["control"]
    scripts = dict((k, s2b(v)) for k, v in case["scripts"].items())
    files = [(n, s2b(d)) for n, d in case["files"]]
    handed = _check_summary(deb, case, what)
    # control part: the same three spellings
    cfiles = control_members(case, files)
    cnames = [n for n, _ in cfiles]
    _check_part_files(deb.control, what + " control part", cfiles, [], labels,
                      more_absent=[n for n in SCRIPTS + ["md5sums"] if n not in cnames])
    written, every = data_dirs_of(case)
    _check_part_files(deb.data, what + " data part", files, written, labels, implied=every)
    # interleaved access: both parts live in one archive (and, opened from a file object, share
    # it), so what one part returns must not depend on what the other was asked in between
    if files:
        first, last = files[0], files[-1]
        for rnd in range(2):
            for n, d in (first, last):
                got = deb.data.get_content(n)
                if got != d:
                    raise Violation("interleaved-access", "%s: data file %r read after the control part "
                                    "was consulted gave %s, packed %s" % (what, n, short(got, 60), short(d, 60)))
                if deb.control.get_content("control") != control_text(ctrl):
                    raise Violation("interleaved-access", "%s: control file read after data file %r differs" % (what, n))
        labels.add("interleaved-parts")
        if max(len(d) for _, d in files) > 8192:
            labels.add("data-file-larger-than-a-read-chunk")
    text = deb.control.get_content("control", encoding="utf-8")
    if text != control_text(ctrl).decode("utf-8"):
        raise Violation("file-content", "%s: get_content('control', encoding='utf-8') = %s" % (what, short(text, 120)))
    # the documented parameters of md5sums, several calls with different arguments on this reader
    calls = case.get("md5calls") or DEFAULT_MD5_CALLS
    handed += _check_md5_calls(deb, case, calls, what, labels)
    # the answers belong to the caller: whatever it does to the mappings it was given, the reader
    # must go on reporting what was packed
    _scribble(handed)
    _later("asked-again-after-the-answers-were-modified", _check_summary, deb, case,
           what + " [second round; the mappings returned in the first round were modified in place]")
    _later("asked-again-after-the-answers-were-modified", _check_md5_calls, deb, case, calls[::-1],
           what + " [second round, calls in reverse order]", labels)
    labels.add("answers-modified-and-asked-again")


# ------------------------------------------------------------------------------------------
# oracle: other readers and rejected archives must not disturb a live reader


def _small_package(tag, cc, dc):
    """A small fixed package unlike any other; all of them share the path usr/share/doc/common."""
    return {"kind": "package",
            "control": [["Package", tag], ["Version", "1.0-" + tag], ["Description", "the %s package\n ." % tag]],
            "scripts": {"prerm": "#!/bin/sh\n# %s\n" % tag},
            "files": [["usr/share/doc/common", "content of %s\n" % tag], ["usr/lib/%s/only here" % tag, tag]],
            "tarfmt": "gnu", "variants": [[cc, dc]]}


_BYSTANDER = _small_package("bystander", "gz", "xz")
_COMPANION = _small_package("companion", "", "bz2")
_REJECTED = _small_package("rejected", "gz", "gz")
_small_cache = {}


def _small_blobs(pkg):
    key = pkg["control"][0][1]
    if key not in _small_cache:
        files = [(n, s2b(d)) for n, d in pkg["files"]]
        scripts = sorted((k, s2b(v)) for k, v in pkg["scripts"].items())
        cc, dc = pkg["variants"][0]
        ctar = A.control_tar([("control", control_text(pkg["control"])), ("md5sums", md5sums_text(files))] + scripts)
        _small_cache[key] = (A.compress(ctar, cc), cc, A.compress(A.data_tar(files), dc), dc)
    return _small_cache[key]


def _small_raw(pkg):
    cblob, cc, dblob, dc = _small_blobs(pkg)
    return deb_bytes(cblob, cc, dblob, dc)


def _defective_archives():
    """One archive per defect the statement names, with valid (and distinctive) parts."""
    cblob, cc, dblob, dc = _small_blobs(_REJECTED)
    info = dict(name=b"debian-binary", data=b"2.0\n")
    ctrl = dict(name=A.part_name("control.tar", cc), data=cblob)
    data = dict(name=A.part_name("data.tar", dc), data=dblob)
    other = _small_blobs(_COMPANION)
    ctrl2 = dict(name=A.part_name("control.tar", other[1]), data=other[0])
    data2 = dict(name=A.part_name("data.tar", other[3]), data=other[2])
    sets = [("no data part", [info, ctrl]), ("no control part", [info, data]),
            ("no debian-binary", [ctrl, data]), ("two control candidates", [info, ctrl, ctrl2, data]),
            ("two data candidates", [info, ctrl, data, data2])]
    if "defective" not in _small_cache:
        _small_cache["defective"] = [(why, A.ar_archive(_styled([dict(m) for m in ms]))[0]) for why, ms in sets]
    return _small_cache["defective"]


class _Bystander(object):
    """A reader for another package that is opened and questioned BEFORE the case's own archives
    are touched and stays open; ``again()`` questions it once more."""

    def __init__(self):
        self.deb = DebFile(fileobj=io.BytesIO(_small_raw(_BYSTANDER)))
        _check_brief(self.deb, _BYSTANDER, "bystander package (opened before the case's own archive)")

    def again(self, after):
        _later("reader-disturbed-by-another-archive", _check_brief, self.deb, _BYSTANDER,
               "a reader of another package that was open all the time, questioned again after " + after)

    def close(self):
        self.deb.close()


def _check_neighbours(deb, case, what, labels, op):
    """With ``deb`` open and already questioned: open a reader for a different package, have
    every kind of defective archive rejected, close the other reader - ``deb`` must go on
    answering for its own package after each step, and the newcomer for its own."""
    other = op.open(_small_raw(_COMPANION))
    try:
        _later("reader-disturbed-by-another-archive", _check_brief, deb, case,
               what + " [asked again after a reader for a different package was opened]")
        _check_brief(other, _COMPANION, "a second package opened while the reader of %s is open" % what)
        for why, raw in _defective_archives():
            try:
                bad = op.open(raw)
            except DebError:
                pass
            else:
                bad.close()
                raise Violation("defect-accepted", "an archive with %s was accepted" % why)
            _later("reader-disturbed-by-another-archive", _check_brief, deb, case,
                   what + " [asked again after an archive with %s was rejected]" % why)
        _later("reader-disturbed-by-another-archive", _check_brief, other, _COMPANION,
               "the second open package [asked again after the defective archives were rejected]")
    finally:
        other.close()
    _later("reader-disturbed-by-another-archive", _check_brief, deb, case,
           what + " [asked again after the reader of a different package was closed]")
    labels.add("second-reader-and-rejected-archives-while-open")


def _check_reader(deb, case, what, labels, op):
    _check_package(deb, case, what, labels)
    _check_neighbours(deb, case, what, labels, op)


def _dpkg_control_ok(ctrl):
    """Is this control file one dpkg-deb is expected to accept?  (Only then is a refusal interesting.)"""
    d = dict((k.lower(), v) for k, v in ctrl)
    return all(k in d for k in ("package", "version", "architecture", "maintainer", "description"))


def check_package(case):
    labels = set(["kind:package", "open:" + case["open"], "tar:" + case["tarfmt"],
                  "files:%s" % (len(case["files"]) if len(case["files"]) < 3 else "3+"),
                  "scripts:%d" % len(case["scripts"])])
    files = [(n, s2b(d)) for n, d in case["files"]]
    fancy = False
    for n, _ in files:
        if " " in n:
            labels.add("filename-with-blank")
            fancy = True
        if not n.isascii():
            labels.add("filename-non-ascii")
            fancy = True
        if "/" in n:
            labels.add("filename-in-subdirectory")
    if any("\n" in v for _, v in case["control"]):
        labels.add("control-multiline-value")
    if any(v == "" or v.startswith("\n") for _, v in case["control"]):
        labels.add("control-empty-first-line")
    if any(not v.isascii() for _, v in case["control"]):
        labels.add("control-non-ascii")
    if any(d == b"" for _, d in files):
        labels.add("empty-data-file")
    if any(c[-1].isspace() for n, _ in files for c in n.split("/")):
        labels.add("filename-or-directory-ends-in-white-space")
        fancy = True
    if any("\t" in n for n, _ in files):
        labels.add("filename-with-tab")
    if any(c in n for n, _ in files for c in LINE_BOUNDARY_CHARS):
        labels.add("filename-with-a-character-str.splitlines-cuts-at")
        fancy = True
    if any("\r" in n for n, _ in files):
        labels.add("filename-with-CR-inside")
        fancy = True
    if any(not (c.isprintable() or c.isspace()) for n, _ in files for c in n):
        labels.add("filename-with-control-character")
    writer = case.get("writer", "harness")
    lay = layout_of(case)
    written, every = data_dirs_of(case)
    if writer == "harness":
        if not files and not written:
            labels.add("data-part:no-members-at-all" if not lay["data_root"] else "data-part:only-the-root-entry")
        elif not files:
            labels.add("data-part:only-directories")
        if not lay["data_root"]:
            labels.add("data-part:no-root-entry")
        if len(written) < len(every):
            labels.add("data-part:files-without-directory-members")
        if lay["empty_dirs"]:
            labels.add("data-part:empty-directory")
        if not lay["control_root"]:
            labels.add("control-part:no-root-entry")
        if not lay["md5sums_file"]:
            labels.add("control-part:no-md5sums-list")
        if not lay["control_root"] and not lay["md5sums_file"] and not case["scripts"]:
            labels.add("control-part:only-the-control-file")
        if any(l.startswith(("data-part:", "control-part:")) and l != "data-part:only-the-root-entry" for l in labels):
            fancy = True
    op = _Opened(case["open"])
    mixed = False
    bystander = _Bystander()
    try:
        if writer.startswith("dpkg-deb:"):
            z = writer.split(":")[1]
            if A.DPKG_DEB_BIN is None:
                labels.add("dpkg-deb:missing")
                return (False, sorted(labels))
            sub = tempfile.mkdtemp(prefix="build-", dir=op.workdir())
            raw, diag = A.dpkg_deb_build(sub, control_text(case["control"]),
                                         dict((k, s2b(v)) for k, v in case["scripts"].items()),
                                         md5sums_text(files), files, z)
            if raw is None:
                labels.add("dpkg-deb:refused-the-tree")
                return (False, sorted(labels))
            labels.add("dpkg-deb:built-Z" + z)
            with op.open(raw) as deb:
                _check_reader(deb, case, "dpkg-deb -Z%s" % z, labels, op)
            bystander.again("a package built by dpkg-deb was opened, read and closed")
            return (fancy, sorted(labels))
        ctar = build_control_tar(case, files)
        dtar = build_data_tar(case, files)
        cblob, dblob = {}, {}
        for cc, dc in case["variants"]:
            if cc not in cblob:
                cblob[cc] = A.compress(ctar, cc)
            if dc not in dblob:
                dblob[dc] = A.compress(dtar, dc)
            raw = deb_bytes(cblob[cc], cc, dblob[dc], dc, case.get("binary_pos", 0), bool(case.get("extra")),
                            case.get("ar_style", "gnu"))
            what = "control.tar%s + data.tar%s" % ("." + cc if cc else "", "." + dc if dc else "")
            labels.add("ctrl:" + (cc or "none"))
            labels.add("data:" + (dc or "none"))
            if cc != dc:
                mixed = True
            try:
                deb = op.open(raw)
            except DebError as e:
                raise Violation("valid-rejected", "%s: a well-formed package was rejected: %s" % (what, short(str(e), 200)))
            with deb:                       # context-manager use must close cleanly
                _check_reader(deb, case, what, labels, op)
            bystander.again("the package %s was opened, read and closed" % what)
        labels.add("binary-pos:%d" % case.get("binary_pos", 0))
        if case.get("extra"):
            labels.add("extra-member")
        if mixed:
            labels.add("mixed-compressions")
        return (fancy or mixed, sorted(labels))
    finally:
        bystander.close()
        op.cleanup()


# ------------------------------------------------------------------------------------------
# oracle: member sets

_FIXED_CTRL = [["Package", "x"], ["Version", "1"], ["Description", "d\n long\n ."]]
_FIXED_FILES = [["usr/bin/x", "#!/bin/sh\n"], ["usr/share/doc/x/a b", "\x00\xff"]]
_FIXED = {"kind": "package", "control": _FIXED_CTRL, "scripts": {"postinst": "#!/bin/sh\nexit 0\n"},
          "files": _FIXED_FILES, "tarfmt": "gnu", "variants": [["gz", "gz"]], "binary_pos": 0,
          "extra": False, "open": "fileobj"}
_blob_cache = {}


def _fixed_blob(name):
    if name not in _blob_cache:
        files = [(n, s2b(d)) for n, d in _FIXED_FILES]
        if name.startswith("control.tar"):
            tar = A.control_tar([("control", control_text(_FIXED_CTRL)), ("md5sums", md5sums_text(files)),
                                 ("postinst", s2b(_FIXED["scripts"]["postinst"]))])
        else:
            tar = A.data_tar(files)
        _blob_cache[name] = A.compress(tar, name.split("tar")[1].lstrip("."))
    return _blob_cache[name]


def check_members(case):
    names = case["names"]
    nc = [n for n in names if n in CTRL_CANDIDATES]
    nd = [n for n in names if n in DATA_CANDIDATES]
    has_bin = "debian-binary" in names
    defects = []
    if not has_bin:
        defects.append("no-debian-binary")
    if len(nc) != 1:
        defects.append("no-control-part" if not nc else "%d-control-candidates" % len(nc))
    if len(nd) != 1:
        defects.append("no-data-part" if not nd else "%d-data-candidates" % len(nd))
    members = []
    for n in names:
        if n == "debian-binary":
            data = b"2.0\n"
        elif n in CTRL_CANDIDATES or n in DATA_CANDIDATES:
            data = _fixed_blob(n)
        elif "control" in n.lower():        # a look-alike gets what a lenient reader would hope for
            data = _fixed_blob("control.tar.gz")
        elif "data" in n.lower():
            data = _fixed_blob("data.tar.gz")
        elif "debian" in n.lower():
            data = b"2.0\n"
        else:
            data = b"junk\n"
        members.append(dict(name=n.encode("ascii"), data=data))
    raw = A.ar_archive(_styled(members))[0]
    labels = set(["kind:members", "open:" + case["open"]])
    labels.update("defect:" + d for d in defects)
    others = [n for n in names if n != "debian-binary" and n not in CTRL_CANDIDATES and n not in DATA_CANDIDATES]
    for n in others:
        low = n.lower()
        for base, defect in (("control", "no-control-part"), ("data", "no-data-part"), ("debian", "no-debian-binary")):
            if base in low:
                labels.add("look-alike-member:" + base)
                if defect in defects:
                    labels.add("look-alike-stands-in-for-the-missing-part:" + base)
    if not defects:
        labels.add("member-set-well-formed")
    op = _Opened(case["open"])
    bystander = _Bystander()
    try:
        try:
            deb = op.open(raw)
        except DebError as e:
            if not defects:
                raise Violation("valid-rejected", "members %s form a package, DebFile raised DebError: %s" % (names, e))
            bystander.again("the archive with members %s was rejected" % names)
            labels.add("open-reader-questioned-after-the-rejection")
            return (True, sorted(labels))
        if defects:
            deb.close()
            raise Violation("defect-accepted", "members %s (%s) were accepted" % (names, ", ".join(defects)))
        with deb:
            _check_reader(deb, _FIXED, "members %s" % names, labels, op)
        bystander.again("the archive with members %s was opened, read and closed" % names)
        return (False, sorted(labels))
    finally:
        bystander.close()
        op.cleanup()


def noise(seed, size):
    """``size`` incompressible bytes (so that a compressed part is larger than one read chunk of
    the decompressor), as a latin-1 string; a pure function of (seed, size)."""
    out = [hashlib.sha256(b"%d/%d" % (seed, i)).digest() for i in range((size + 31) // 32)]
    return b"".join(out)[:size].decode("latin-1")


def expand(case):
    """File data may be written as ["noise", seed, size] in a case; expand it to the bytes."""
    try:
        if not any(isinstance(f[1], list) for f in case["files"]):
            return case
        files = []
        for n, d in case["files"]:
            if isinstance(d, list):
                if not (len(d) == 3 and d[0] == "noise" and 0 < int(d[2]) <= 400000):
                    return None
                d = noise(int(d[1]), int(d[2]))
            files.append([n, d])
        return dict(case, files=files)
    except (KeyError, TypeError, ValueError, IndexError):
        return None


def check(case):
    kind = case.get("kind") if isinstance(case, dict) else None
    if kind == "package":
        case = expand(case)
        if case is None:
            return (False, ("invalid-case-skipped",))
    if kind == "package" and valid_package(case):
        return check_package(case)
    if kind == "members" and valid_members(case):
        return check_members(case)
    return (False, ("invalid-case-skipped",))


# ------------------------------------------------------------------------------------------
# enumerations


def _subsets(xs):
    for r in range(len(xs) + 1):
        for c in itertools.combinations(xs, r):
            yield list(c)


def enum_member_sets():
    for binary in (["debian-binary"], []):
        for cs in _subsets(CTRL_CANDIDATES):
            for ds in _subsets(DATA_CANDIDATES):
                names = binary + cs + ds
                for mode in ("fileobj", "filename"):
                    yield {"kind": "members", "names": names, "open": mode}
                    if len(names) > 1:
                        yield {"kind": "members", "names": names[::-1], "open": mode}
                    else:
                        yield {"kind": "members", "names": names + ["_gpgorigin"], "open": mode}


# names that look like a part but are not one of the names the format defines
LOOKALIKE_SUFFIXES = ["zst", "zstd", "Z", "z", "zip", "lz", "lz4", "lzo", "lzip", "br", "sz", "bz", "bzip", "tbz2",
                      "gzip", "GZ", "Gz", "XZ", "BZ2", "LZMA", "xz2", "gz2", "gz~", "gz.", "g", "x", "", "tar"]
LOOKALIKES = {
    "control": ["control.tar." + x for x in LOOKALIKE_SUFFIXES if len(x) <= 4]
               + ["control.tgz", "control.tar_gz", "control.targz", "control.tar-xz", "Control.tar.gz", "CONTROL.TAR.GZ",
                  "control.tar.gz.0", "xcontrol.tar.gz", "_control.tar.xz", "control", "control.ta", "control.gz",
                  "control.zip", "control-tar.gz", "ctrl.tar.gz", "control.tar~"],
    "data": ["data.tar." + x for x in LOOKALIKE_SUFFIXES]
            + ["data.tgz", "data.tar_gz", "data.targz", "data.tar-xz", "Data.tar.gz", "DATA.TAR.GZ", "data.tar.gz.bak",
               "data.tar.gz.zst", "data.tar.xz.gz", "xdata.tar.gz", "_data.tar.xz", "data", "data.ta", "data.gz",
               "data.zip", "data-tar.gz", "data.tar~", "data.tar.lzma2", "data.tar.bz22", "data1.tar.gz"],
    "debian-binary": ["debian-binary.", "debian_binary", "Debian-binary", "DEBIAN-BINARY", "debian-binary~",
                      "debian-binar", "debian-binary2", "debian-binary.gz", "debian.binary", "_debian-binary",
                      "debian-binaryx", "debian", "binary"],
}


def enum_lookalikes():
    """A well-formed set with one part taken out and a look-alike put in its place (defective), with
    both parts replaced (defective), and with a look-alike added to the complete set (well-formed:
    a member with an unknown name is not a candidate for anything)."""
    good = {"debian-binary": "debian-binary", "control": "control.tar.gz", "data": "data.tar.xz"}
    order = ["debian-binary", "control", "data"]
    for i, part in enumerate(order):
        for j, alike in enumerate(LOOKALIKES[part]):
            names = [alike if k == part else good[k] for k in order]
            for mode in ("fileobj", "filename"):
                yield {"kind": "members", "names": names, "open": mode}
                yield {"kind": "members", "names": names[::-1], "open": mode}
            full = [good[k] for k in order]
            full.insert(1 + (i + j) % 3, alike)
            yield {"kind": "members", "names": full, "open": ("fileobj", "filename")[j % 2]}
    for j, (c, d) in enumerate(zip(LOOKALIKES["control"], LOOKALIKES["data"])):
        yield {"kind": "members", "names": ["debian-binary", c, d], "open": ("fileobj", "filename")[j % 2]}


def enum_matrix(modes):
    def gen():
        for mode in modes:
            for fmt in ("gnu", "pax", "ustar"):
                for pos in (0, 1, 2):
                    for cc in COMPS:
                        for dc in COMPS:
                            c = dict(_FIXED)
                            c.update(tarfmt=fmt, binary_pos=pos, open=mode, variants=[[cc, dc]],
                                     extra=(pos == 1),
                                     files=_FIXED_FILES + [["été/漢 \U0001d4b3", "data"], ["etc/conf ", "name ends in a blank"],
                                                           ["etc/conf", "the same without the blank"],
                                                           ["etc/dir\t/ tab\t", "tabs and a blank in front"],
                                                           [".config/.rc", "names that start with a dot"],
                                                           # one path is the tail of another: a name is the whole path
                                                           ["a b", "the short one"], ["x", "a top-level file called like a deeper one"],
                                                           ["doc/x/a b", "a middle one"]])
                            yield c
    return gen


# ------------------------------------------------------------------------------------------
# Hypothesis generators

TEXT = "abAB019zZ :#,-.;=<>()[]|!~+*?\\éß漢\U0001d4b3"
NAMECHARS = "abAB01 ._-+~,=()#éß漢\U0001d4b3\t"


def _clean(s, fallback):
    s = s.strip()
    return s if s else fallback


line_st = st.text(alphabet=TEXT, min_size=1, max_size=12).map(lambda s: _clean(s, "v"))
first_st = st.one_of(line_st, line_st, st.just(""))
cont_st = st.one_of(line_st.map(lambda s: " " + s), st.just(" ."), line_st.map(lambda s: "  " + s))
# lines with characters that are not printable - controls, the characters str.splitlines() takes
# for line ends (VT FF FS GS RS NEL LS PS), NBSP, zero-width space, BOM - between ordinary text,
# followed by a blank or not
odd_line_st = st.lists(st.one_of(st.sampled_from(list(ODD_CHARS)), st.sampled_from(list(LINE_BOUNDARY_CHARS)),
                                 st.sampled_from(["a", "b c", " ", "Z", "é", "1.0"])),
                       min_size=1, max_size=6).map(lambda xs: _clean("".join(xs), "v"))
odd_first_st = st.one_of(line_st, odd_line_st, st.just(""))
odd_cont_st = st.one_of(cont_st, odd_line_st.map(lambda s: " " + s))
value_st = st.one_of(
    st.builds(lambda f, cs: "\n".join([f] + cs), first_st, st.lists(cont_st, max_size=3)),
    st.builds(lambda f, cs: "\n".join([f] + cs), first_st, st.lists(cont_st, max_size=3)),
    st.builds(lambda f, cs: "\n".join([f] + cs), odd_first_st, st.lists(odd_cont_st, max_size=3)))
nonempty_value_st = st.builds(lambda f, cs: "\n".join([f] + cs), line_st, st.lists(cont_st, max_size=3))
FIELD_POOL = ["Version", "Architecture", "Maintainer", "Description", "Depends", "Section", "Priority",
              "Installed-Size", "Homepage", "X-Custom", "description-md5", "!odd$name", "a"]
fieldname_st = st.one_of(st.sampled_from(FIELD_POOL),
                         st.text(alphabet="abcXYZ019-_.+!$", min_size=1, max_size=8).map(
                             lambda s: ("F" + s) if s[0] in "#-" else s))


@st.composite
def control_st(draw):
    others = draw(st.lists(st.tuples(fieldname_st, value_st), max_size=6))
    seen, out = set(["package"]), []
    for k, v in others:
        if k.lower() not in seen:
            seen.add(k.lower())
            out.append([k, v])
    pkg = [draw(st.sampled_from(["Package", "package", "PACKAGE"])),
           draw(st.one_of(st.sampled_from(["foo", "lib-x+1.0"]), line_st))]
    out.insert(draw(st.integers(0, len(out))), pkg)
    return out


comp_st = st.text(alphabet=NAMECHARS, min_size=1, max_size=7).map(
    lambda s: "d" if _clean(s, "f") in (".", "..") else _clean(s, "f"))
COMP_POOL = ["usr", "bin", "share", "doc", "a b", "été", "漢", "x", ".hidden", "f.txt", "a  b", "A"]
plain_component_st = st.one_of(st.sampled_from(COMP_POOL), comp_st)
# white space at the end of a file or directory name (and, below the top level, in front of it)
TAILS = [" ", "\t", "  ", " \t", "\xa0", "\u3000"]
# a character that is not printable - among them every one that some splitlines() takes for a line
# end - between two pieces of ordinary text (which may hold blanks), or as the last character
odd_name_char_st = st.one_of(st.sampled_from(list(NAME_LINE_CHARS)), st.sampled_from(list(NAME_ODD_CHARS)))
odd_component_st = st.one_of(
    st.builds(lambda a, ch, b: a + ch + b, plain_component_st, odd_name_char_st, plain_component_st),
    st.builds(lambda a, ch, b: a + ch + b, plain_component_st, odd_name_char_st,
              st.sampled_from([" b", "b c", "  two", " ", "b"])),
    st.builds(lambda a, ch: a + ch, plain_component_st, odd_name_char_st))
component_st = st.one_of(plain_component_st, plain_component_st, plain_component_st,
                         st.builds(lambda c, t: c + t, plain_component_st, st.sampled_from(TAILS)),
                         st.builds(lambda c, t: c + t, plain_component_st, st.sampled_from(TAILS)),
                         odd_component_st)
inner_component_st = st.one_of(component_st, component_st, component_st, component_st.map(lambda c: " " + c))
filename_st = st.builds(lambda first, rest: "/".join([first] + rest), component_st,
                        st.lists(inner_component_st, max_size=2)).map(
    lambda n: n + "x" if n.endswith("\r") else n)     # a CR before the LF is part of the line end
content_st = st.one_of(st.binary(max_size=24), st.sampled_from([b"", b"\n", b"#!/bin/sh\nexit 0\n", b"\x00" * 600]))
latin = lambda b: b.decode("latin-1")


def _prune(files):
    """Drop entries that would make a path both a file and a directory (or appear twice)."""
    out, fset, dset = [], set(), set()
    for n, d in files:
        anc = A.parent_dirs([n])
        if n in fset or n in dset or any(a in fset for a in anc):
            continue
        fset.add(n)
        dset.update(anc)
        out.append([n, d])
    return out


file_st = st.one_of(st.tuples(filename_st, content_st.map(latin)), st.tuples(filename_st, content_st.map(latin)),
                    st.tuples(filename_st, content_st.map(latin)), st.tuples(filename_st, content_st.map(latin)),
                    st.tuples(filename_st, st.tuples(st.just("noise"), st.integers(0, 9),
                                                     st.sampled_from([9000, 12000, 20000]))))
files_st = st.one_of(st.lists(file_st, max_size=5), st.lists(file_st, min_size=2, max_size=5),
                     st.lists(file_st, min_size=1, max_size=3)).map(_prune)
scripts_st = st.lists(st.tuples(st.booleans(), content_st.map(latin)), min_size=5, max_size=5).map(
    lambda picks: dict((name, body) for name, (on, body) in zip(SCRIPTS, picks) if on))
pair_st = st.tuples(st.sampled_from(COMPS), st.sampled_from(COMPS))
ALL_PAIRS = [[c, d] for c in COMPS for d in COMPS]


md5call_st = st.tuples(st.sampled_from(["deb", "deb", "control"]),
                       st.sampled_from([None, "ascii", "ascii", "utf-8"] + MD5_ENCODINGS),
                       st.sampled_from([None] + MD5_ERRORS))
md5calls_st = st.lists(md5call_st, min_size=2, max_size=6)


# how the tarballs are laid out: mostly the dpkg-deb way (the first element, which is also what
# Hypothesis shrinks to)
_mostly = st.sampled_from([True, True, True, False])
layout_st = st.fixed_dictionaries({"data_root": _mostly, "data_dirs": _mostly,
                                   "empty_dirs": st.one_of(st.just([]), st.just([]), st.lists(filename_st, max_size=2, unique=True)),
                                   "control_root": _mostly, "md5sums_file": _mostly})


def _fit_layout(case):
    """Make the drawn layout fit the drawn files: an empty directory is neither a file nor below one
    (nor listed twice); the md5sums list may be left out only when it would be empty."""
    lay = dict(case["layout"])
    fnames = [n for n, _ in case["files"]]
    dirs = []
    for d in lay["empty_dirs"]:
        if d not in dirs and not _tree_conflict(fnames + [d + "/x"]):
            dirs.append(d)
    lay["empty_dirs"] = dirs
    if fnames:
        lay["md5sums_file"] = True
    return dict(case, layout=lay)


def package_st(nvariants):
    if nvariants >= 25:
        variants = st.just(ALL_PAIRS)
    else:
        variants = st.lists(pair_st, min_size=1, max_size=nvariants, unique=True)
    return _package_st(variants).map(_fit_layout)


def _package_st(variants):
    return st.fixed_dictionaries({
        "kind": st.just("package"), "control": control_st(), "scripts": scripts_st, "files": files_st,
        "tarfmt": st.sampled_from(["gnu", "pax", "ustar"]), "variants": variants,
        "binary_pos": st.sampled_from([0, 0, 1, 2]), "extra": st.booleans(),
        "ar_style": st.sampled_from(["gnu", "pad"]),
        "md5calls": md5calls_st, "layout": layout_st,
        "open": st.sampled_from(["fileobj", "fileobj", "filename"])})


# control files dpkg-deb accepts: the mandatory fields with tame values, plus user-defined fields
pkgname_st = st.text(alphabet="abcxyz019+-.", min_size=1, max_size=8).map(lambda s: "p" + s)
version_st = st.builds(lambda e, u, r: e + "1" + u + r, st.sampled_from(["", "1:", "0:"]),
                       st.text(alphabet="ab019.+~", max_size=5), st.sampled_from(["", "-1", "-0ubuntu1~x"]))


@st.composite
def dpkg_control_st(draw):
    fields = [["Package", draw(pkgname_st)], ["Version", draw(version_st)],
              ["Architecture", draw(st.sampled_from(["all", "amd64", "any"]))],
              ["Maintainer", draw(line_st)],
              ["Description", "\n".join([draw(line_st)] + draw(st.lists(cont_st, max_size=3)))]]
    extra = draw(st.lists(st.tuples(st.text(alphabet="abcXYZ019-", min_size=1, max_size=6).map(lambda s: "X-" + s.strip("-") + "z"),
                                    nonempty_value_st), max_size=3))
    seen = set(k.lower() for k, _ in fields)
    for k, v in extra:
        if k.lower() not in seen:
            seen.add(k.lower())
            fields.append([k, v])
    return fields


def dpkg_package_st():
    return st.fixed_dictionaries({
        "kind": st.just("package"), "control": dpkg_control_st(), "scripts": scripts_st, "files": files_st,
        "tarfmt": st.just("gnu"), "variants": st.just([["gz", "gz"]]), "binary_pos": st.just(0),
        "extra": st.just(False), "open": st.sampled_from(["fileobj", "filename"]),
        "writer": st.sampled_from(["dpkg-deb:gzip", "dpkg-deb:xz", "dpkg-deb:none"])})


JUNK_NAMES = ["_gpgorigin", "debian-binary", "control.tar", "data.tar", "foo", "control.tar.gz.", "data.tar.GZ"]
# a part's base name with an arbitrary short suffix (now and then a real one), in any letter case
lookalike_st = st.builds(lambda base, sep, suffix, up: (base.upper() if up == 2 else base.capitalize() if up == 1 else base) + sep + suffix,
                         st.sampled_from(["control.tar", "data.tar", "data.tar", "control", "data"]),
                         st.sampled_from([".", ".", ".", "", "-", "_", ".gz.", ".xz."]),
                         st.one_of(st.text(alphabet="zstgxbZlma2ip4o.~_-GX0", min_size=0, max_size=4),
                                   st.sampled_from(LOOKALIKE_SUFFIXES + list(COMPS))),
                         st.sampled_from([0, 0, 0, 0, 1, 2])).map(
    lambda n: n[:16].strip("/ ") or "x")
_MEMBER_POOL = ["debian-binary"] * 3 + CTRL_CANDIDATES + DATA_CANDIDATES + JUNK_NAMES
members_st = st.fixed_dictionaries({
    "kind": st.just("members"),
    "names": st.lists(st.one_of(st.sampled_from(_MEMBER_POOL), st.sampled_from(_MEMBER_POOL), lookalike_st,
                                st.sampled_from(LOOKALIKES["control"] + LOOKALIKES["data"] + LOOKALIKES["debian-binary"])),
                      max_size=7, unique=True),
    "open": st.sampled_from(["fileobj", "filename"])})


def externals_phase(shard, nshards, seed, deadline, rec):
    rec.note("external:dpkg-deb:" + ("present" if A.DPKG_DEB_BIN else "missing"))


def enum_odd_control_values():
    """Every character of ODD_CHARS inside a control value: between two letters, before a blank,
    after a blank, and the same in a continuation line."""
    k = 0
    for ch in ODD_CHARS:
        for tmpl in ("a%sb", "a%s b", "a %sb", "x\n a%sb", "x\n a%s b\n .", "%sa\n b%s%s c" if not ch.isspace() else "a%s %s b"):
            k += 1
            yield {"kind": "package",
                   "control": [["Package", "odd"], ["Description", tmpl.replace("%s", ch)], ["Section", "misc"]],
                   "scripts": {}, "files": [["usr/share/doc/odd/a b", "x\n"]], "tarfmt": "gnu",
                   "variants": [[COMPS[k % 5], COMPS[(k // 5) % 5]]], "binary_pos": 0, "extra": False,
                   "ar_style": "gnu", "open": ("fileobj", "filename")[k % 2]}


def enum_odd_file_names():
    """Every character of NAME_ODD_CHARS inside a data file name: between two letters, before a
    blank, after a blank with a blank further on, inside a directory name, twice in one name and
    (CR excepted) as the last character; md5sums asked without and with an encoding
    (DEFAULT_MD5_CALLS + the summary's calls)."""
    k = 0
    for ch in NAME_ODD_CHARS:
        for tmpl in ("usr/a%sb", "usr/share/a b/page%s break", "usr/a %sb  two", "d%sir/x y", "usr/p%sq%sr",
                     "usr/end%s"):
            if ch == "\r" and tmpl.endswith("%s"):
                continue
            k += 1
            yield {"kind": "package", "control": [["Package", "oddnames"], ["Version", "1"]],
                   "scripts": {}, "files": [["usr/share/doc/plain", "first\n"], [tmpl.replace("%s", ch), "x\n"],
                                            ["usr/share/doc/a b", "last\n"]],
                   "tarfmt": ("gnu", "pax", "ustar")[k % 3],
                   "variants": [[COMPS[k % 5], COMPS[(k // 5) % 5]]], "binary_pos": 0, "extra": False,
                   "ar_style": "gnu", "open": ("fileobj", "filename")[k % 2]}


def enum_big_files(sizes):
    """Packages whose compressed data part is larger than the decompressors' read chunks (8 KiB for
    xz/lzma, 128 KiB for gzip in this interpreter): every data compression x both open modes."""
    def gen():
        for size in sizes:
            for dc in COMPS:
                for mode in ("fileobj", "filename"):
                    for cc in ("gz", ""):
                        yield {"kind": "package", "control": _FIXED_CTRL, "scripts": {"postinst": "#!/bin/sh\n"},
                               "files": [["a/first.bin", ["noise", 1, size]], ["a/middle", "x\n"],
                                         ["z/last.bin", ["noise", 2, size]]],
                               "tarfmt": "gnu", "variants": [[cc, dc]], "binary_pos": 0, "extra": False,
                               "ar_style": "gnu", "open": mode}
    return gen


DEGENERATE_DATA = [      # (what, files, empty directories, './' written, directory members written)
    ("no members at all", [], [], False, True),
    ("only ./", [], [], True, True),
    ("only directories", [], ["usr", "usr/share/empty dir ", "var"], True, True),
    ("only directories, no ./", [], ["usr/share/doc", "var/lib/a b"], False, True),
    ("one directory and nothing else", [], ["opt/alone"], False, False),
    ("one file and nothing else", [["usr/bin/a b", "x\n"]], [], False, False),
    ("one empty top-level file and nothing else", [["f", ""]], [], False, False),
    ("files without directory members", [["usr/bin/x", "#!/bin/sh\n"], ["usr/share/doc/x/a b", "\x00\xff"]], [], True, False),
    ("files, an empty directory, no ./", [["etc/conf ", "blank"], ["etc/conf", "none"]], ["var/empty", "etc/conf.d"], False, True),
]
DEGENERATE_CONTROL = [   # (what, scripts, './' written, md5sums list stored)
    ("dpkg-deb style", {}, True, True),
    ("no ./", {}, False, True),
    ("./control only", {}, False, False),
    ("./ and control only", {"prerm": ""}, True, False),
    ("scripts, no ./", {"postinst": "#!/bin/sh\nexit 0\n", "config": "\x00"}, False, True),
]


def enum_degenerate_containers():
    """Tarballs that hold less than dpkg-deb would write - down to no member at all - but are valid
    containers of the stated content; every shape in 3 tar formats x 2 open modes, each case in 5
    compression pairs (every data compression; the control compression rotates, so that each shape
    meets all 25 pairs)."""
    k = 0
    for _, files, dirs, root, dmembers in DEGENERATE_DATA:
        for _, scripts, croot, md5file in DEGENERATE_CONTROL:
            if files and not md5file:
                continue
            for fmt in ("gnu", "pax", "ustar"):
                for mode in ("fileobj", "filename"):
                    yield {"kind": "package", "control": _FIXED_CTRL, "scripts": scripts, "files": files,
                           "tarfmt": fmt, "variants": [[COMPS[(i + k) % 5], COMPS[i]] for i in range(5)],
                           "binary_pos": k % 3, "extra": False, "ar_style": ("gnu", "pad")[(k // 3) % 2], "open": mode,
                           "layout": {"data_root": root, "data_dirs": dmembers, "empty_dirs": dirs,
                                      "control_root": croot, "md5sums_file": md5file}}
                    k += 1


def sources(tier):
    if tier == "quick":
        return [Enum("member-sets", enum_member_sets, "every subset of debian-binary + 5 control + 5 data candidates"),
                Enum("compression-matrix", enum_matrix(["fileobj"]), "fixed package x 5x5 x 3 tar formats x 3 positions"),
                Enum("big-files", enum_big_files([12000, 140000]), "2 sizes x 5 data compressions x 2 open modes x 2 control compressions"),
                Enum("look-alike-members", enum_lookalikes, "each part replaced by each look-alike name x 2 orders x 2 open modes; look-alike added to a complete set"),
                Enum("odd-control-values", enum_odd_control_values, "each non-printable / line-boundary character x 6 positions in a control value"),
                Enum("odd-file-names", enum_odd_file_names, "each non-printable / line-boundary character (also CR) x 6 positions in a data file name"),
                Enum("degenerate-containers", enum_degenerate_containers, "9 data.tar shapes (no members ... files without directory members) x 5 control.tar shapes x 3 tar formats x 2 open modes, 5 compression pairs each"),
                Hyp("packages", package_st(5), 60, shards=8),
                Hyp("member-sets-random", members_st, 300, shards=1),
                Hyp("dpkg-deb", dpkg_package_st(), 12, shards=1),
                Custom("externals", externals_phase, shards=1)]
    return [Enum("member-sets", enum_member_sets, "every subset of debian-binary + 5 control + 5 data candidates"),
            Enum("compression-matrix", enum_matrix(["fileobj", "filename"]), "fixed package x 5x5 x 3 tar formats x 3 positions x 2 open modes"),
            Enum("big-files", enum_big_files([9000, 12000, 70000, 140000, 300000]), "5 sizes x 5 data compressions x 2 open modes x 2 control compressions"),
            Enum("look-alike-members", enum_lookalikes, "each part replaced by each look-alike name x 2 orders x 2 open modes; look-alike added to a complete set"),
            Enum("odd-control-values", enum_odd_control_values, "each non-printable / line-boundary character x 6 positions in a control value"),
            Enum("odd-file-names", enum_odd_file_names, "each non-printable / line-boundary character (also CR) x 6 positions in a data file name"),
            Enum("degenerate-containers", enum_degenerate_containers, "9 data.tar shapes (no members ... files without directory members) x 5 control.tar shapes x 3 tar formats x 2 open modes, 5 compression pairs each"),
            Hyp("packages", package_st(25), 200, shards=16),
            Hyp("member-sets-random", members_st, 2000, shards=2),
            Hyp("dpkg-deb", dpkg_package_st(), 30, shards=8),
            Custom("externals", externals_phase, shards=1)]
