"""C15 - Changelog parsing is total and strictness-consistent; formatted output is a normal form.

Two kinds of cases.

{"kind": "text", "lines": [line bodies without "\\n"], "final_nl": bool, "aea": bool,
 "form": one of FORMS}
    the text is "\\n".join(lines) (+ "\\n"); ``aea`` is allow_empty_author.  ``form`` is the way the
    text is handed to the constructor (every documented kind of IterableDataSource):
      "str"        one str                      "bytes"      one bytes object (UTF-8)
      "lines"      list of str, no "\\n"         "blines"     list of bytes lines, no b"\\n"
      "lines-nl"   list of str, each with "\\n"  "blines-nl"  list of bytes lines, each with b"\\n"
      "file"       text file object (StringIO)  "bfile"      binary file object (BytesIO)
    Totality, strict/lenient consistency and the normal form are demanded in each form alike (no
    cross-form comparison: the statement does not promise one).

{"kind": "history", "base": null | [line bodies], "aea": bool, "steps": [...], "form": one of FORMS}
    base null = Changelog(); otherwise the lines are parsed leniently in the given form (missing =
    "str"; a base that does not parse cleanly is still a "parsed changelog"); the formatted text
    is re-parsed in that form too.  Steps (block indices are taken modulo len(cl); a step that is
    not applicable, or whose value is not valid for the format, is skipped):
      ["new_block", {package, version, distributions, urgency, urgency_comment, changes, author,
                     date, other_pairs, version_object}]      missing / null = not given
      ["add_change", line]                     Changelog.add_change
      ["set", attr, value]                     setattr(cl, attr, value)         attr in EDITABLE
      ["set_version", version]                 Changelog.set_version
      ["bset", i, attr, value]                 setattr(cl[i], attr, value)
      ["badd", i, line]                        cl[i].add_change(line)
    The normal-form clause is checked after every step.
"""
import io
import re as _re
import warnings

from hypothesis import strategies as st

from .. import findings
from ..core import Violation, Enum, Hyp, Custom, short
from ..gen import c04_changelog as G

from debian.changelog import Changelog, ChangelogParseError, ChangelogCreateError
from debian.debian_support import Version

ID = "C15"
LEVEL = "exploration"
RULE = ("enumerated: every pool line (thorough: every ordered pair) inserted at every position of a fixed "
        "two-block changelog, and substituted for every line, each in all 8 input forms (pairs: str, plus "
        "the 7 other forms for pairs that start with a mode line, comment or old-format marker). text cases: lines of a well-formed changelog (C04 grammar, <=3 blocks) after 0..4 "
        "insert/delete/duplicate/swap operations, inserts drawn from a pool with representatives of "
        "every line class of the parser (junk, bare and damaged trailers, second/damaged headers, "
        "editor mode lines, comments, CVS keywords, the eight old-format patterns, whitespace-only "
        "and line-boundary oddities) or from a wide Unicode alphabet; plus free documents of 0..8 "
        "such lines; x final newline x allow_empty_author x 8 input forms (str, bytes, list of str / of "
        "bytes lines with and without line ends, text and binary file object); thorough adds an Atheris "
        "byte-level campaign. history cases: 1..6 editing calls (new_block, add_change, attribute "
        "assignment, set_version; values valid for the format) on an empty changelog, on a parsed "
        "well-formed one or on a leniently parsed damaged one (parsed from any of the 8 input forms), normal form checked after every step. "
        "Non-trivial = a text that produces >=1 warning, or a history with >=2 applied edits; "
        "distinct = distinct canonical JSON of the case")
ASSUMPTIONS = [
    "strict and lenient runs are separate constructor calls on equal inputs; warnings are collected with simplefilter('always')",
    "the formatted text is re-parsed in the same input form as the original (a list/file input keeps "
    "characters such as FF or U+2028 inside a line, where str input splits on them: DESIGN.md section 6)",
    "bytes forms carry the UTF-8 encoding of the text (the constructor's default encoding); file objects are "
    "io.StringIO(newline='\\n') / io.BytesIO, whose iteration cuts at LF only, like open(..., newline='\\n') / open(..., 'rb')",
    "blocks are compared on package, version (raw string when it is not a valid version), distributions, "
    "urgency, urgency_comment, other_pairs (as a mapping), changes, author, date",
    "history values are restricted to what the format can spell (recogniser in gen/c04_changelog.py)",
    "dual model for the deviation '%s': tolerated only while known_findings.json lists it" % "trailerless-block-drops-author-date",
    "Hypothesis 6.168 generators; Atheris/libFuzzer in the thorough tier; sha1 for distinctness",
]
EXHAUSTIVE = {
    "quick": "every line of the 103-line junk pool (all line classes of the parser) inserted at each of "
             "the 12 positions of a fixed two-block changelog x allow_empty_author, and substituted "
             "for each of its 11 lines, each x the 8 input forms (so every mode line, comment and "
             "old-format marker occurs in every form at every position, with and without lines after it)",
    "thorough": "as quick, plus every ordered pair of pool lines inserted together at each of the 12 positions "
                "(str form; pairs whose first line is a mode line, comment/CVS keyword or old-format marker "
                "also in the 7 other forms)",
}
BUDGET = {"quick": 200, "thorough": 1500}

FORMS = ["str", "bytes", "lines", "lines-nl", "file", "blines", "blines-nl", "bfile"]
# Deviation recognised by the dual model in check_normal_form (see known_findings.json / DESIGN 2.6).
KNOWN_ID = "trailerless-block-drops-author-date"
EDITABLE = ["package", "version", "distributions", "urgency", "author", "date"]


# ------------------------------------------------------------------------------------------
# input forms


def join_text(lines, final_nl):
    return "\n".join(lines) + ("\n" if final_nl and lines else "")


def make_input(form, lines, final_nl):
    text = join_text(lines, final_nl)
    if form == "str":
        return text
    if form == "bytes":
        return text.encode("utf-8")
    if form == "lines":
        return list(lines)
    if form == "lines-nl":
        out = [l + "\n" for l in lines]
        if out and not final_nl:
            out[-1] = lines[-1]
        return out
    if form == "file":
        return io.StringIO(text, newline="\n")
    if form == "blines":
        return [l.encode("utf-8") for l in lines]
    if form == "blines-nl":
        return [l.encode("utf-8") for l in make_input("lines-nl", lines, final_nl)]
    if form == "bfile":
        return io.BytesIO(text.encode("utf-8"))
    raise ValueError(form)


def reform(form, s):
    """The formatted text ``s`` in the input form of the original."""
    final = s.endswith("\n")
    lines = s.split("\n") if s else []
    if final:
        lines.pop()
    return make_input(form, lines, final)


# ------------------------------------------------------------------------------------------
# observations


def warning_class(msg):
    for key, name in (
            ("Empty changelog file", "empty"),
            ("Invalid key-value pair", "bad-key-value"),
            ("Repeated key-value", "repeated-key"),
            ("Badly formatted urgency value", "bad-urgency"),
            ("Unexpected line while looking for first heading", "unexpected@first-heading"),
            ("Unexpected line while looking for next heading", "unexpected@next-heading"),
            ("Unexpected line while looking for start of change data", "unexpected@start-of-changes"),
            ("Unexpected line while looking for more change data", "unexpected@more-changes"),
            ("Found eof where expected first heading", "eof@first-heading"),
            ("Found eof where expected start of change data", "eof@start-of-changes"),
            ("Found eof where expected more change data", "eof@more-changes"),
            ("Found eof", "eof@other")):
        if msg.startswith(key):
            return name
    if msg.startswith("Badly formatted trailer line"):
        body = msg.split("Badly formatted trailer line:", 1)[-1]
        return "bad-trailer:no-details" if body.strip() == "--" else "bad-trailer:separator"
    return "other"


def version_of(block):
    """str(version), or the raw string when the header carried something that is not a version."""
    try:
        v = block.version
    except ValueError:
        return ["raw", getattr(block, "_raw_version", None)]
    return None if v is None else str(v)


def snapshot(cl, trailerless=None):
    """Observable content of every block.  ``trailerless`` (a block object) selects the model of
    the listed deviation KNOWN_ID: that block is written without its trailer."""
    out = []
    for b in cl:
        gone = trailerless is not None and b is trailerless
        out.append({
            "package": b.package, "version": version_of(b), "distributions": b.distributions,
            "urgency": b.urgency, "urgency_comment": b.urgency_comment,
            "other_pairs": dict(b.other_pairs), "changes": list(b.changes()),
            "author": None if gone else b.author, "date": None if gone else b.date})
    return out


def first_difference(a, b):
    if len(a) != len(b):
        return "len", "%d blocks vs %d" % (len(a), len(b))
    for i, (x, y) in enumerate(zip(a, b)):
        for k in ("package", "version", "distributions", "urgency", "urgency_comment", "other_pairs",
                  "changes", "author", "date"):
            if x[k] != y[k]:
                return k, "block %d %s: %s vs %s" % (i, k, short(x[k], 160), short(y[k], 160))
    return None


def lenient(inp, aea, text):
    """(changelog, [warning messages]); the constructor is documented never to raise."""
    with warnings.catch_warnings(record=True) as caught:
        warnings.simplefilter("always")
        try:
            cl = Changelog(inp, allow_empty_author=aea)
        except Exception as e:  # totality clause: *any* exception here is the violation
            raise Violation("lenient-raised:%s" % type(e).__name__,
                            "Changelog(%s, allow_empty_author=%s) raised %s: %s" % (
                                short(text, 240), aea, type(e).__name__, short(str(e), 120)))
    return cl, [str(w.message) for w in caught]


def format_or_none(cl):
    """str(cl), or None when the documented ChangelogCreateError says it cannot be formatted."""
    try:
        return str(cl)
    except ChangelogCreateError:
        return None


def check_normal_form(cl, form, aea, labels, where="", trailerless=None):
    s = format_or_none(cl)
    if s is None:
        labels.add("unformattable")
        return None
    labels.add("formattable")
    before = snapshot(cl)
    try:
        with warnings.catch_warnings():
            warnings.simplefilter("ignore")
            cl2 = Changelog(reform(form, s), allow_empty_author=aea)
    except Exception as e:
        raise Violation("normal-form:reparse-raised:%s" % type(e).__name__,
                        "%sre-parsing %s raised %s" % (where, short(s), e))
    after = snapshot(cl2)
    diff = first_difference(before, after)
    if diff is not None and trailerless is not None \
            and first_difference(snapshot(cl, trailerless), after) is None:
        # exactly the listed deviation: the block that was parsed without a trailer (end of input
        # inside the block) is still written without one although author/date were assigned since
        if KNOWN_ID not in findings.allowed(ID):
            raise Violation("normal-form:" + KNOWN_ID,
                            "%sformatted %s; object vs re-parsed: %s" % (where, short(s, 240), diff[1]))
        labels.add("known-finding-hit")
        diff = None
    if diff is not None:
        raise Violation("normal-form:blocks-differ:" + diff[0],
                        "%sformatted %s; object vs re-parsed: %s" % (where, short(s, 240), diff[1]))
    s2 = format_or_none(cl2)
    if s2 != s:
        raise Violation("normal-form:not-a-fixpoint",
                        "%sformatted %s, formatted again %s" % (where, short(s, 240), short(s2, 240)))
    return s


# ------------------------------------------------------------------------------------------
# text cases


def valid_lines(lines):
    if not isinstance(lines, list):
        return False
    for l in lines:
        if not isinstance(l, str) or "\n" in l:
            return False
        try:
            l.encode("utf-8")
        except UnicodeEncodeError:
            return False
    return True


def check_text(case):
    lines, form = case.get("lines"), case.get("form")
    if not valid_lines(lines) or form not in FORMS:
        return (False, ("invalid-case-skipped",))
    aea, final_nl = bool(case.get("aea")), bool(case.get("final_nl"))
    labels = set(["form:" + form, "aea:%s" % aea])

    text = join_text(lines, final_nl)
    cl, msgs = lenient(make_input(form, lines, final_nl), aea, text)
    with warnings.catch_warnings(record=True) as caught:
        warnings.simplefilter("always")
        try:
            cls = Changelog(make_input(form, lines, final_nl), strict=True, allow_empty_author=aea)
            err = None
        except ChangelogParseError as e:
            cls, err = None, e
    # The same text parsed once more into an object that has parsed it before: strictness is a
    # property of the call, not of the object's history - the same warnings, the same blocks.
    used, _ = lenient(make_input(form, lines, final_nl), aea, text)
    with warnings.catch_warnings(record=True) as again:
        warnings.simplefilter("always")
        try:
            used.parse_changelog(make_input(form, lines, final_nl), strict=False, allow_empty_author=aea)
        except Exception as e:
            raise Violation("lenient-raised:%s" % type(e).__name__, "parse_changelog(%s, strict=False) on an object "
                            "that had parsed the same text raised %s: %s" % (short(text, 240), type(e).__name__, short(str(e), 120)))
    msgs2 = [str(w.message) for w in again]
    if msgs2 != msgs:
        raise Violation("reparse-into-used-object:warnings-differ", "second lenient parse of %s into the same object "
                        "warned %s, the first %s" % (short(text), short(msgs2, 200), short(msgs, 200)))
    diff = first_difference(snapshot(cl), snapshot(used))
    if diff is not None:
        raise Violation("reparse-into-used-object:blocks-differ:" + diff[0], diff[1])
    if err is not None and not msgs:
        raise Violation("strict-raises-without-warning:" + warning_class(str(err)),
                        "strict raised %s, lenient was silent, for %s" % (err, short(text)))
    if err is None and msgs:
        raise Violation("warning-but-strict-accepts:" + warning_class(msgs[0]),
                        "lenient warned %s, strict accepted %s" % (short(msgs[0], 160), short(text)))
    if err is not None:
        if str(err) != "Could not parse changelog: " + msgs[0]:
            raise Violation("strict-error-is-not-first-warning",
                            "strict: %s; first warning: %s" % (short(str(err), 160), short(msgs[0], 160)))
        for m in msgs:
            labels.add("warn:" + warning_class(m))
        labels.add("warnings:%s" % (len(msgs) if len(msgs) < 3 else "3+"))
    else:
        if caught:
            raise Violation("strict-warns", "strict parse emitted a warning: %s" % caught[0].message)
        labels.add("clean-parse")
        diff = first_difference(snapshot(cl), snapshot(cls))
        if diff is not None:
            raise Violation("strict-lenient-blocks-differ:" + diff[0], diff[1])
        if format_or_none(cl) != format_or_none(cls):
            raise Violation("strict-lenient-str-differ", short(text))

    s = check_normal_form(cl, form, aea, labels)
    labels.add("blocks:%s" % (len(cl) if len(cl) < 3 else "3+"))
    if s is not None and s == text:
        labels.add("output==input")
    elif s is not None:
        labels.add("output!=input")
    _line_class_labels(lines, labels, form)
    _state_labels(cl, labels)
    return (bool(msgs), sorted(labels))


_LINE_CLASSES = [
    ("has:vim-or-emacs", _re.compile(r"^(vim:|(;;\s*)?Local variables:)", _re.I)),
    ("has:comment-or-cvs", _re.compile(r"^(# |/\*.*\*/|\$\w+:.*\$)")),
    ("has:old-format", _re.compile(r"^(\w+\s+\w+\s+\d{1,2}[ ,]|Changes (from|for) |Old Changelog:|[\w.+-]+(-| )\S+ Debian "
                                   r"|(\d+:)?\w[\w.+~-]*:?\s*$)", _re.I)),
    ("has:bare-trailer", _re.compile(r"^ --\s*$")),
    ("has:header-like", _re.compile(r"^\w\S* \(\S*\)")),
]


_SILENT_CLASSES = ("has:vim-or-emacs", "has:comment-or-cvs", "has:old-format")


def _line_class_labels(lines, labels, form):
    for i, l in enumerate(lines):
        for name, rx in _LINE_CLASSES:
            if rx.match(l):
                labels.add(name)
                if name in _SILENT_CLASSES and i + 1 < len(lines):
                    # a line the parser may swallow silently, with more input after it, in this form
                    labels.add("followed:%s@%s" % (name[4:], form))
        if any(c in l for c in G.LINE_BOUNDARIES):
            labels.add("has:line-boundary-char")
        if l and l.strip() == "" and l.strip(" \t") != "":
            labels.add("has:exotic-blank-line")
        if not l.isascii():
            labels.add("has:non-ascii")


def _state_labels(cl, labels):
    """Evidence only: which parser situations occurred (reads private fields defensively)."""
    for b in cl:
        tr = getattr(b, "_trailing", None) or []
        if any(_LINE_CLASSES[4][1].match(t) or t.startswith(" -- ") for t in tr):
            labels.add("state:slurped-header-or-trailer")
        if any(t.strip() for t in tr):
            labels.add("state:non-blank-trailing-line")
        if getattr(b, "_no_trailer", False):
            labels.add("state:eof-in-block")
        if getattr(b, "_trailer_separator", "  ") != "  ":
            labels.add("state:single-blank-separator")
        if b.author is None and not getattr(b, "_no_trailer", False):
            labels.add("state:empty-author-accepted")
    if getattr(cl, "initial_blank_lines", None):
        if any(t.strip() for t in cl.initial_blank_lines):
            labels.add("state:junk-before-first-heading")


# ------------------------------------------------------------------------------------------
# history cases


def _valid_value(attr, value):
    if attr == "package":
        return G.valid_package(value)
    if attr == "version":
        return G.valid_version(value)
    if attr == "distributions":
        return isinstance(value, str) and G.valid_dists(value.split(" "))
    if attr == "urgency":
        return G.valid_urgency(value)
    if attr == "author":
        return G.valid_author(value)
    if attr == "date":
        if not isinstance(value, str):
            return False
        core = value.rstrip(" \t")
        return G.valid_date(core, value[len(core):])
    return False


def _valid_new_block(a):
    if not isinstance(a, dict):
        return False
    for k in ("package", "version", "distributions", "urgency", "author", "date"):
        if a.get(k) is not None and not _valid_value(k, a[k]):
            return False
    if a.get("urgency_comment") is not None and not G.valid_ucomment(a["urgency_comment"]):
        return False
    if a.get("changes") is not None and not (
            isinstance(a["changes"], list) and all(G.valid_change_line(l) for l in a["changes"])):
        return False
    if a.get("other_pairs") is not None and not G.valid_pairs(a["other_pairs"]):
        return False
    return True


def apply_step(cl, step):
    """Apply one editing call; returns a label, or None when the step is skipped."""
    if not isinstance(step, list) or not step:
        return None
    op = step[0]
    if op == "new_block" and len(step) == 2 and _valid_new_block(step[1]):
        a = step[1]
        version = a.get("version")
        if version is not None and a.get("version_object"):
            version = Version(version)
        pairs = a.get("other_pairs")
        cl.new_block(package=a.get("package"), version=version, distributions=a.get("distributions"),
                     urgency=a.get("urgency"), urgency_comment=a.get("urgency_comment"),
                     changes=None if a.get("changes") is None else list(a["changes"]),
                     author=a.get("author"), date=a.get("date"),
                     other_pairs=None if pairs is None else dict((k, v) for k, v in pairs))
        return "op:new_block"
    if len(cl) == 0:
        return None
    if op == "add_change" and len(step) == 2 and G.valid_change_line(step[1]):
        cl.add_change(step[1])
        return "op:add_change"
    if op == "set" and len(step) == 3 and step[1] in EDITABLE and _valid_value(step[1], step[2]):
        setattr(cl, step[1], step[2])
        return "op:set:" + step[1]
    if op == "set_version" and len(step) == 2 and G.valid_version(step[1]):
        cl.set_version(step[1])
        return "op:set_version"
    if op == "bset" and len(step) == 4 and isinstance(step[1], int) and step[2] in EDITABLE \
            and _valid_value(step[2], step[3]):
        setattr(cl[step[1] % len(cl)], step[2], step[3])
        return "op:block-set:" + step[2]
    if op == "badd" and len(step) == 3 and isinstance(step[1], int) and G.valid_change_line(step[2]):
        cl[step[1] % len(cl)].add_change(step[2])
        return "op:block-add_change"
    return None


def check_history(case):
    base, steps = case.get("base"), case.get("steps")
    if not isinstance(steps, list) or not (base is None or valid_lines(base)):
        return (False, ("invalid-case-skipped",))
    aea = bool(case.get("aea"))
    form = case.get("form", "str")
    if form not in FORMS:
        return (False, ("invalid-case-skipped",))
    labels = set()
    trailerless = None
    if base is None:
        cl = Changelog()
        labels.add("base:empty")
    else:
        cl, msgs = lenient(make_input(form, base, True), aea, join_text(base, True))
        labels.add("base-form:" + form)
        labels.add("base:parsed-with-warnings" if msgs else "base:parsed-clean")
        if msgs and warning_class(msgs[-1]).startswith("eof@") and len(cl) > 0:
            trailerless = cl[len(cl) - 1]     # input ended inside this block
            labels.add("base:ends-inside-block")
    applied = 0
    check_normal_form(cl, form, aea, labels, "before any edit: ")
    for i, step in enumerate(steps):
        lab = apply_step(cl, step)
        if lab is None:
            labels.add("step-skipped")
            continue
        applied += 1
        labels.add(lab)
        check_normal_form(cl, form, aea, labels, "after step %d %s: " % (i, short(step, 120)), trailerless)
    labels.add("edits:%s" % (applied if applied < 4 else "4+"))
    labels.add("final-blocks:%s" % (len(cl) if len(cl) < 3 else "3+"))
    return (applied >= 2, sorted(labels))


def check(case):
    if not isinstance(case, dict):
        return (False, ("invalid-case-skipped",))
    if case.get("kind") == "text":
        nt, labels = check_text(case)
        return (nt, ["text"] + list(labels))
    if case.get("kind") == "history":
        nt, labels = check_history(case)
        return (nt, ["history"] + list(labels))
    return (False, ("invalid-case-skipped",))


# ------------------------------------------------------------------------------------------
# enumeration: line class x parser state

ENUM_BASE = [
    "",
    "ab (1.0-1) unstable; urgency=low",
    "",
    "  * x",
    "",
    " -- A <a@b.c>  Mon, 01 Jan 2000 00:00:00 +0000",
    "",
    "cd (0.9) stable; urgency=high (c), k=v",
    "  * y",
    " -- B <b@c.d>  Tue,  2 Feb 1999 1:02:03 -0100",
    "",
]
ENUM_POOL = list(dict.fromkeys(G.JUNK))


# lines after which the parser may stop looking at what follows (or may swallow silently)
ENUM_SILENT = frozenset(l for k in ("modeline", "comment", "oldformat") for l in G.JUNK_CLASSES[k])


def _text_case(lines, aea, form="str"):
    return {"kind": "text", "lines": lines, "final_nl": True, "aea": aea, "form": form}


def enum_single():
    for form in FORMS:
        for p in range(len(ENUM_BASE) + 1):
            for j in ENUM_POOL:
                for aea in (False, True):
                    yield _text_case(ENUM_BASE[:p] + [j] + ENUM_BASE[p:], aea, form)
        for p in range(len(ENUM_BASE)):
            for j in ENUM_POOL:
                yield _text_case(ENUM_BASE[:p] + [j] + ENUM_BASE[p + 1:], False, form)


def enum_double():
    for case in enum_single():
        yield case
    for form in FORMS:
        for p in range(len(ENUM_BASE) + 1):
            for j1 in ENUM_POOL:
                if form != "str" and j1 not in ENUM_SILENT:
                    continue
                for j2 in ENUM_POOL:
                    yield _text_case(ENUM_BASE[:p] + [j1, j2] + ENUM_BASE[p:], False, form)


# ------------------------------------------------------------------------------------------
# generators


_final_nl = st.sampled_from([True, True, True, False])
_aea = st.booleans()
_forms = st.sampled_from(FORMS)


@st.composite
def gen_text(draw, free=False):
    lines = draw(G.free_lines()) if free else draw(G.mutated_lines())
    return {"kind": "text", "lines": lines, "final_nl": draw(_final_nl), "aea": draw(_aea),
            "form": draw(_forms)}


_values = {
    "package": G.packages, "version": G.versions(), "distributions": G.dist_strings,
    "urgency": G.urgencies, "author": G.authors, "date": G.full_dates,
}
_change = st.one_of(G.change_lines, G.change_lines, G.blank_lines)
_mostly = st.sampled_from([True, True, True, False])
_two_in_three = st.sampled_from([True, True, False])
_some_changes = st.lists(_change, max_size=3)
_attr = st.sampled_from(EDITABLE)
_block_index = st.integers(0, 3)
_step_kind = st.sampled_from(["new_block", "add_change", "add_change", "set", "set", "set_version", "bset", "badd"])


@st.composite
def _gen_new_block(draw):
    a = {}
    full = draw(_mostly)
    for k in ("package", "version", "distributions", "author", "date"):
        if full or draw(_aea):
            a[k] = draw(_values[k])
    if draw(_two_in_three):
        a["urgency"] = draw(G.urgencies)
        uc = draw(G.ucomments)
        if uc:
            a["urgency_comment"] = uc
    if draw(_aea):
        a["changes"] = draw(_some_changes)
    pairs = draw(G.pair_lists())
    if pairs:
        a["other_pairs"] = pairs
    if "version" in a and draw(_aea):
        a["version_object"] = True
    return ["new_block", a]


gen_new_block = _gen_new_block()


@st.composite
def _gen_step(draw):
    kind = draw(_step_kind)
    if kind == "new_block":
        return draw(gen_new_block)
    if kind == "add_change":
        return ["add_change", draw(_change)]
    if kind == "set":
        attr = draw(_attr)
        return ["set", attr, draw(_values[attr])]
    if kind == "set_version":
        return ["set_version", draw(_values["version"])]
    if kind == "bset":
        attr = draw(_attr)
        return ["bset", draw(_block_index), attr, draw(_values[attr])]
    return ["badd", draw(_block_index), draw(_change)]


gen_step = _gen_step()
_finish = st.one_of(
    st.builds(lambda v: ["set", "author", v], G.authors),
    st.builds(lambda v: ["set", "date", v], G.full_dates),
    st.builds(lambda i, v: ["bset", i, "author", v], _block_index, G.authors),
    st.builds(lambda i, v: ["bset", i, "date", v], _block_index, G.full_dates))
_base_kind = st.sampled_from(["empty", "clean", "clean", "damaged", "truncated"])
_steps_after_new_block = st.lists(gen_step, min_size=0, max_size=5)
_steps = st.lists(gen_step, min_size=1, max_size=6)
_aea_rarely = st.sampled_from([False, False, True])
_clean_base = G.structs(max_blocks=2)
_damaged_base = G.mutated_lines(max_ops=2)
_forms_mostly_str = st.sampled_from(["str"] * (len(FORMS) - 1) + FORMS)


@st.composite
def gen_history(draw):
    which = draw(_base_kind)
    if which == "empty":
        base = None
        steps = [draw(gen_new_block)] + draw(_steps_after_new_block)
    else:
        if which == "clean":
            base = G.render_lines(draw(_clean_base))
        elif which == "damaged":
            base = draw(_damaged_base)
        else:
            # a work-in-progress entry: the text stops before (or right after) the trailer
            base = G.render_lines(draw(_clean_base))
            del base[1 + draw(G._index(len(base))):]
        steps = draw(_steps)
        if which != "clean" and draw(_aea):
            steps.insert(draw(G._index(len(steps) + 1)), draw(_finish))
    case = {"kind": "history", "base": base, "aea": draw(_aea_rarely), "steps": steps}
    if base is not None:
        case["form"] = draw(_forms_mostly_str)
    return case


# ------------------------------------------------------------------------------------------
# Atheris (thorough): bytes -> text -> lines

FUZZ_SEEDS = [
    b"\x00pkg (1.0) unstable; urgency=low\n\n  * x\n\n -- A <a@b.c>  Mon, 01 Jan 2000 00:00:00 +0000\n",
    b"\x01pkg (1.0) unstable; urgency=low\n  * x\n --\n",
    b"\x04p (1) u; urgency=low, a=1, a=2\n  * x\n -- A <a> Mon, 1 Jan 2000 0:00:00 +0000\nvim: x\np (0) u;\n",
    b"\x02\n# c\n/* c */\n$Id: x $\njunk here\np (1_0) a b;urgency=!!\n  x\n -- <>  1 Jan 2000 0:00:00 -0000  \nOld Changelog:\nx\n",
]


def fuzz_phase(shard, nshards, seed, deadline, rec):
    from . import _fuzz
    _fuzz.run_atheris("vcheck.props.c15", "fuzz_bytes_to_case", shard, seed, deadline, rec,
                      runs=200000, max_len=192, corpus=FUZZ_SEEDS if shard else [])


def fuzz_bytes_to_case(data):
    if not data:
        return None
    flags = data[0]
    try:
        text = data[1:].decode("utf-8")
    except UnicodeDecodeError:
        text = data[1:].decode("latin-1")
    lines = text.split("\n")
    final_nl = False
    if len(lines) > 1 and lines[-1] == "":
        lines.pop()
        final_nl = True
    if lines == [""]:
        lines = []
    return {"kind": "text", "lines": lines, "final_nl": final_nl, "aea": bool(flags & 1),
            "form": FORMS[(flags >> 1) % len(FORMS)]}


def sources(tier):
    if tier == "quick":
        return [Enum("pool-line-at-every-position", enum_single, EXHAUSTIVE["quick"]),
                Hyp("mutated-text", gen_text(), 450, shards=8),
                Hyp("free-text", gen_text(free=True), 400, shards=2),
                Hyp("histories", gen_history(), 250, shards=4)]
    return [Enum("pool-line-pairs-at-every-position", enum_double, EXHAUSTIVE["thorough"]),
            Hyp("mutated-text", gen_text(), 6000, shards=12),
            Hyp("free-text", gen_text(free=True), 6000, shards=2),
            Hyp("histories", gen_history(), 3000, shards=6),
            Custom("atheris", fuzz_phase, shards=2)]
