"""C06 - ar members are exact, isolated, file-like views of the archive.

case = {
  "open":    "fileobj" | "filename",     one shared BytesIO  /  a file in a per-case temp dir
                                         (members re-open it lazily by name)
  "writer":  "harness" | "ar",           optional; "ar": the archive is additionally built by
                                         binutils ``ar qcD`` and must be byte-identical to ours
  "members": [{"name": str, "style": "gnu" | "pad", "data": latin-1 str,
               "mtime": int, "uid": int, "gid": int, "mode": int}, ...],
                                         instead of "data" a member may carry "gen": [piece, ...],
                                         a compact description of (big) contents, see
                                         gen/c06_archives.expand_pieces: ["lit", str],
                                         ["repeat", pattern, count], ["noise", seed, size] (arbitrary
                                         bytes), ["line", seed, size] (arbitrary bytes except \n)
  "final_pad": bool,                     optional, default true.  false: the archive file ends right after
                                         the data of its last member - the newline that pads odd-sized data
                                         to an even offset is written between members only (ar(5): "a newline
                                         is inserted between files if necessary"), not after the last one.
                                         Changes the file only when the last member has an odd size.
  "before":  [part, ...],                optional, fileobj mode only: what precedes the archive in the file
                                         object.  The archive's global header stands at offset len(before) of
                                         the BytesIO, which is positioned there when it is handed to
                                         ArFile(fileobj=...) (an archive after a preamble / the second of two
                                         concatenated archives).  part = a piece as in "gen", or
                                         ["archive", [member, ...]] / ["archive", [member, ...], final_pad]:
                                         a whole ar archive of these members written by the harness writer
  "then":    [{"members": [member, ...], "final_pad": bool, "how": "unlink" | "rename" | "rewrite"}, ...],
                                         optional, harness writer only, at most 4: other archives that take the
                                         place of the first one, one per "replace" operation, see there
  "ops":     [op, ...]                   the history; member indices are taken modulo the number of
                                         live member objects, numbered ArFile by ArFile in order of opening:
                                         the members of every ArFile opened so far (first one, reopens, replaces),
                                         in filename mode without those whose file a "replace" has taken away
}
op = ["read", i]            m.read()                 ["read", i, n]      m.read(n), n an integer other than 0
     ["readline", i]        m.readline()             ["readline", i, n]  m.readline(n), n = None or any integer
                            (the size argument of io's read / readline: n > 0 is an upper bound for the
                            bytes returned, however far beyond the rest of the member it lies; a negative n of
                            any magnitude - and None for readline - means no bound, i.e. to the member's end /
                            the line's end; |n| <= 2**63 - 1.  read(0) and read(None) are not generated, see
                            ASSUMPTIONS)
     ["readlines", i]       m.readlines()            ["tell", i]         m.tell()
     ["readlines", i, h]    m.readlines(h), h = None or an integer of either sign (the size hint of
                            io readlines: h > 0 stops after the line with which the lines read so far
                            reach h bytes; None, 0 and negative values mean all remaining lines)
     ["close", i]           m.close()
     ["reopen"]             a further ArFile on the same archive while the earlier ones stay alive and
                            in use: ArFile(filename=the same path) / ArFile(fileobj=a new BytesIO over
                            the same bytes, with the same "before" part and positioned on the global
                            header again).  Its listing is checked like the first one's, its members
                            start at position 0 and join the live member objects, each with a shadow
                            of its own.  At most 3 per history (further ones are skipped).
     ["replace"]            the next archive of "then" takes the place of the archive under test and a further
                            ArFile is opened on it, while every object made so far stays alive, members read
                            partly and not closed included.  filename mode: the file at the same path is
                            replaced ("how": "unlink" = removed and a new file written under the name, the
                            default; "rename" = the new archive is written next to it and moved over it;
                            "rewrite" = the same file is truncated and written anew) and ArFile(filename=the
                            same path) opened; the member objects of all earlier ArFiles leave the live ones -
                            their file is gone, they are not used and not asked anything any more.  fileobj mode:
                            ArFile(fileobj=a new BytesIO holding "before" + the new archive); the earlier objects
                            keep their own untouched file objects, stay live and in use next to the new ones.
                            The new listing is checked against the new archive, the new members start at 0 and
                            have shadows over the new archive's bytes; a later "reopen" opens the archive then
                            in place.  Skipped when "then" is used up.
     ["seek", i, whence, target]   m.seek(target - base, whence) with base = 0 | current position |
                                   member size: *target* >= 0 is the absolute position aimed at, so
                                   every generated seek has a non-negative target by construction.
"""
import io
import itertools
import os
import shutil
import tempfile

from hypothesis import strategies as st

from ..core import Violation, Enum, Hyp, Custom, short, s2b
from ..gen import c06_archives as A

from debian.arfile import ArFile

ID = "C06"
LEVEL = "exploration"
RULE = ("cases are (open mode, 0..5 members with name/style/binary data/metadata, final pad byte after an "
        "odd-sized last member present or absent, in fileobj mode optionally bytes / whole archives that precede "
        "the archive in the file object (which is handed over positioned on the archive's global header), "
        "history of 1..25 "
        "read/read(n)/readline/readline(n)/readlines/readlines(hint)/seek/tell/close/reopen/replace operations "
        "interleaved over all members; hint = None, 0, negative or positive; 0..4 further archives that take the "
        "place of the first one, one per replace); replace puts the next archive at the same path (unlink + "
        "write / rename over it / rewrite in place) or into a further file object and opens an ArFile on it while "
        "all earlier objects are alive (members never read, read partly and not closed, closed): the new listing "
        "and every read of the new members must show the new archive; in filename mode the earlier objects are "
        "not used after their file is gone, in fileobj mode they stay in use beside the new ones; reopen opens a further ArFile on the same archive (same path / same bytes) while the earlier "
        "ones stay in use, and its members join the history; after every step the returned value and the tell() "
        "of *every* member object of *every* ArFile are compared with an io.BytesIO shadow per member object. "
        "Enumerated: every history of <=3 operations (thorough: "
        "<=4 for four of the contents) from a 14-operation alphabet x 2 members, over 8 first-member "
        "contents, both open modes (filename mode one operation shorter); every history of <=3 steps with "
        "exactly one reopen (quick: 4 contents, filename mode without the shapes Roo/ooR); big members: for "
        "each power of two B from 4 KiB to 1 MiB, 11 first-member contents of 1..3.25 B bytes, written as "
        "lit/repeat/noise/line pieces and expanded in the check, x 14 fixed histories (2 of them readlines with size hints around B, 1 with read / readline sizes -B, -B-1, -2, 2**40, 2**63-1, 1 with the archive replaced twice) x both open modes, and, for "
        "the odd-sized ones, the big member as the last of the archive with the file ending at its last byte x 6 "
        "of the histories; no-final-pad: 15 small archives ending in an odd-sized member, written without the "
        "final pad byte, x every history of <=2 operations, with and without a second ArFile (quick, filename mode: "
        "<=1 operation before/after the second ArFile; thorough: <=3); "
        "readlines-hints: 4 archives (thorough 7) x every history of <=3 operations (quick, filename mode: <=2) "
        "from readlines(h), h in None/0/-1/1/2/3 (thorough also -2/6/11), readline, read(1) and 3 seeks on 2 "
        "members; size-arguments: 3 archives (thorough 6) x every history of <=3 operations (quick, filename mode: "
        "<=2) from read(n), n in -1/-2/-7/2**63-1, readline(n), n in None/-1/-2/2**63-1 (thorough also -2**31, "
        "-(2**63-1), 3, 2**31, 2**32+1), readline(), read(1) and 3 seeks on 2 members; archive-at-offset: 7 small preambles (1 byte, a script, a bare global header, other archives "
        "with and without pad byte / with the same member names, a mix) and 18 big ones (B, B+1 bytes for each "
        "power of two B from 4 KiB to 1 MiB) x 4 (big: 2) archives x every history of <=2 operations, with and "
        "without a second ArFile (thorough: <=3), from the 14-operation alphabet; "
        "replaced-archive: archive ['a\\nb', 'x\\ny'] x 4 replacing archives (same names and sizes with other "
        "bytes; one 1-byte member; longer first member; 3 members of other names) x every history with <=1 "
        "operation before and after the replacement from the 14-operation alphabet, both open modes; rename / "
        "rewrite-in-place and 2 operations before or after it over read(1)/readline()/close(); the chain first -> "
        "other bytes -> first again with operations between the replacements and with a second ArFile before / "
        "after the replacement (thorough: the 14 operations x all 3 ways, 2 operations before / after); "
        "big-members also has 1 history in which the archive is replaced twice (same sizes with other bytes, then "
        "the members in the other order) after the big member was read up to a block end; "
        "header-columns: mtime/uid/gid/mode at every width up to the full column; close-x-siblings: every "
        "history of 4 operations from read(1)/readline()/close() on 2 members (thorough: 4..6, and after a "
        "reopen). "
        "Generated: Hypothesis archives x histories (members <=64 bytes; the final pad byte is left out in half of "
        "the archives that end in an odd-sized member; in half of the fileobj cases the archive is preceded by 1..2 "
        "parts, each <=64 bytes or an archive of 0..2 members; readlines hints None, 0, -50..-1, 1..45; read(n) with "
        "n in 1..45 or, as often, -50..-1, +-(2**e+d) for e = 7..62, d = -2..2, +-(2**63-1); readline(n) with n in "
        "0..45 or None or these same sizes; in half of "
        "the cases 1..2 replacing archives, each drawn afresh (0..3 members) or the one before it with all names "
        "and sizes kept and every byte changed, replaced in one of the 3 ways); "
        "Hypothesis big members (1..4 pieces "
        "with sizes k*2**e+d, e = 12..20, k = 1..3, d = -3..3, <=3.5 MiB) x histories of <=12 operations whose "
        "read/readline sizes (both signs), readlines hints (both signs), seek targets and preamble sizes are drawn from the "
        "same k*2**e+d family, in half of the cases with 1..2 replacing archives (0..2 small or big members, or the "
        "same sizes with other bytes); thorough also builds "
        "the archive with binutils ar. Non-trivial = >=2 members (in the archive under test or one that replaces it) and (a readline/readlines call that "
        "has to return the unterminated last line of its member, or a read-family call that starts "
        "at a position beyond the member's end); distinct = distinct canonical JSON of the case")
ASSUMPTIONS = [
    "io.BytesIO over the member's bytes is the reference file object",
    "the harness ar writer (vcheck/gen/c06_archives.py) follows ar(5); cross-checked byte for byte "
    "against binutils ar qcD in the ar-binary source when /usr/bin/ar exists",
    "an ar file that ends right after the data of an odd-sized last member is an ar archive in the statement's "
    "sense: ar(5) inserts the newline 'between files' to align the next header, after the last member nothing "
    "needs aligning; binutils ar t/p and dpkg-deb -c/-I/-x read such files without complaint (checked by hand "
    "with GNU ar 2.40 and dpkg-deb 1.21.22; bsdtar lists every member, then warns). Every pad byte between "
    "members is always written; the binutils-built archives (writer 'ar') always carry the final one",
    "negative seek targets, next()/iteration are outside "
    "the statement and never generated; seek()'s return value is not compared (checked via tell())",
    "read(n) / readline(n) are read / readline with their documented size parameter, and the quantifier restricts "
    "target positions, not sizes: the reference is io.BytesIO.read(n) / readline(n) itself for every integer n with "
    "0 < |n| <= 2**63-1 (the C ssize_t range io.BytesIO accepts; any negative n = no bound, a positive n beyond the "
    "rest of the member = the rest), readline also for n = 0 and None. Two values are never generated: read(0), "
    "which this library documents by its default (def read(self, size=0)) as 'everything', unlike io; and "
    "read(None), because the library types read's parameter as int (readline's as Optional[int]) - the unchanged "
    "library raises TypeError for it",
    "readlines(hint) is readlines with its documented parameter: the reference is io.BytesIO.readlines(hint) "
    "itself, for hint = None, 0, negative (all remaining lines) and positive (stop after the line with which the "
    "lines read so far reach hint bytes); |hint| <= 2**31, far inside the C ssize_t io.BytesIO accepts",
    "an archive that starts at a non-zero offset of the file object given to ArFile(fileobj=...), the object being "
    "positioned on its global header (archive after a preamble, second of two concatenated archives), is an "
    "input form of 'sharing one file object': the archive under test runs from that position to the end of the "
    "file object; nothing ever follows it. The filename form always starts at offset 0",
    "a further ArFile on the same archive, opened while the first is alive, is 're-opening by file name' / "
    "another reader of the same bytes: its members are files of their own, starting at 0 (fileobj mode "
    "gives it a BytesIO of its own over the same bytes - the harness never moves a file object it has "
    "handed to the library)",
    "'re-opening by file name' includes the file name that by then holds another archive: after the file at the "
    "path has been replaced (removed and written anew, renamed over, or truncated and rewritten - with closed "
    "handles of the harness, before ArFile is called), ArFile(filename=path) and its members are views of the "
    "archive now in the file, whatever objects made from the earlier contents are still alive. Those earlier "
    "objects are views of a file that no longer exists under that name; the statement says nothing about them, "
    "so they are neither used nor asked for tell() after the replacement (only closed when the case ends). In "
    "fileobj mode a replacing archive lives in a file object of its own, the earlier file objects are untouched "
    "and their members stay under the full oracle",
    "the per-case directory of filename mode is made under /dev/shm when that exists and TMPDIR is unset "
    "(tmpfs; the disk's unlink/rmdir dominated the run time), else under tempfile's default",
    "big contents come from vcheck/gen/c06_archives.expand_pieces: hashlib.shake_256 of a small integer for "
    "'noise' (and with \\n mapped to \\r for 'line'), bytes repetition for 'repeat'; members above "
    "1 MiB occur only in the big-members sources (a few hundred enumerated and a few generated cases per run)",
    "Hypothesis 6.168 generators; sha1 for distinctness",
]
EXHAUSTIVE = {
    "quick": "all histories of 1..3 operations from a 14-operation alphabet on each of 2 members, x 8 "
             "contents of the first member (fileobj mode); histories of 1..2 operations in filename mode",
    "thorough": "all histories of 1..3 operations from a 14-operation alphabet on each of 2 members, x 8 "
                "contents of the first member, in both open modes; histories of 4 operations for the first-member "
                "contents 'a', 'ab', 'a\\n', 'a\\nb' (odd/even size x with/without final newline) in fileobj mode",
}
EXHAUSTIVE_REOPEN = {
    "quick": "all histories of the shapes R, Ro, oR, oRo (fileobj mode also Roo, ooR) - R = a second ArFile on "
             "the same archive, o = one of the 14 operations on any of the 2 (after R: 4) live member objects - "
             "x the first-member contents 'a', 'ab', 'a\\n', 'a\\nb'",
    "thorough": "all histories of the shapes R, Ro, oR, Roo, oRo, ooR (R = a second ArFile on the same archive, "
                "o = one of the 14 operations on any of the 2, after R 4, live member objects) x 8 contents of "
                "the first member, in both open modes",
}
EXHAUSTIVE_BIG = ("for every block size B = 2**12 .. 2**20: 11 contents of a first member of 1..3.25 B bytes (one "
                  "line without end, a line of 3 B inside short ones, a line of 1.25 B, arbitrary bytes, short "
                  "lines filling exactly B / 2B or ending 1..3 bytes past / 1 byte before a multiple of B) x 14 "
                  "fixed histories (readlines from the start, after a seek, after read(B+1), after readline(B+5); "
                  "read()/readline loops; a second ArFile; readlines with the size hints B, B+1, 2, -1 and 1, 2B-1, "
                  "None, 0; readline(-B), read(-B-1), readline(2**63-1), read(-2), read(2**40); read(B), then the archive replaced by one with the same sizes and other bytes, read(B+1) / "
                  "readlines there, replaced again by the members in the other order) x both open modes; for the "
                  "contents of odd size also the "
                  "archive [small member, big member] whose file ends with the big member's last byte (no final "
                  "pad byte) x 6 of these histories x both open modes")
BUDGET = {"quick": 200, "thorough": 1500}

MAX_MEMBER_SIZE = 8 << 20     # replay files only: generated members stay below 4 MiB
MAX_REOPENS = 3
MAX_REPLACES = 4              # len(case["then"])
HOWS = ("unlink", "rename", "rewrite")      # how the file of filename mode is replaced, see the docstring
MAX_HINT = 1 << 31            # readlines(h): |h| stays far inside what io.BytesIO accepts (a C ssize_t)
MAX_SIZE = (1 << 63) - 1      # read(n) / readline(n): |n| <= the largest C ssize_t, which io.BytesIO accepts



def _scratch_parent():
    """Memory-backed directory for the per-case mkdtemp() when there is one (metadata operations on
    the disk dominate the run time of the filename cases otherwise); None = tempfile's default."""
    if os.environ.get("TMPDIR"):
        return None
    d = "/dev/shm"
    return d if os.path.isdir(d) and os.access(d, os.W_OK | os.X_OK) else None


SCRATCH = _scratch_parent()

NAME_ALPHABET = "abcdefghijklmnopqrstuvwxyzABCDEFGHIJKLMNOPQRSTUVWXYZ0123456789._+-"


# ------------------------------------------------------------------------------------------
# case validation (replay files written by hand, nothing else: generators construct valid cases)


def _valid_member(m):
    try:
        name = s2b(m["name"])
        if "gen" in m:
            sizes = [A.piece_size(p) for p in m["gen"]]
            if "data" in m or None in sizes or sum(sizes) > MAX_MEMBER_SIZE:
                return False
        else:
            s2b(m["data"])
    except (UnicodeEncodeError, KeyError, TypeError, AttributeError):
        return False
    if m.get("style", "gnu") not in ("gnu", "pad"):
        return False
    if not A.ar_name_fits(name, m.get("style", "gnu")):
        return False
    if any(c not in NAME_ALPHABET for c in m["name"]):
        return False
    return (0 <= m.get("mtime", 0) < 10 ** 12 and 0 <= m.get("uid", 0) < 10 ** 6
            and 0 <= m.get("gid", 0) < 10 ** 6 and 0 <= m.get("mode", 0) < 8 ** 8)


def _valid_op(op):
    if op == ["reopen"] or op == ["replace"]:
        return True
    if not isinstance(op, list) or len(op) < 2 or not isinstance(op[1], int) or op[1] < 0:
        return False
    k, n = op[0], len(op)
    if k in ("tell", "close"):
        return n == 2
    if k == "readlines":
        return n == 2 or (n == 3 and (op[2] is None or (type(op[2]) is int and abs(op[2]) <= MAX_HINT)))
    if k == "read":
        return n == 2 or (n == 3 and type(op[2]) is int and op[2] != 0 and abs(op[2]) <= MAX_SIZE)
    if k == "readline":
        return n == 2 or (n == 3 and (op[2] is None or (type(op[2]) is int and abs(op[2]) <= MAX_SIZE)))
    if k == "seek":
        return n == 4 and op[2] in (0, 1, 2) and isinstance(op[3], int) and op[3] >= 0
    return False


def _valid_before(parts):
    """The optional "before" key: a list of pieces and ["archive", members(, final_pad)] parts."""
    if not isinstance(parts, list):
        return False
    total = 0
    for p in parts:
        if isinstance(p, list) and p and p[0] == "archive":
            if len(p) not in (2, 3) or not isinstance(p[1], list) or (len(p) == 3 and not isinstance(p[2], bool)):
                return False
            if not all(isinstance(m, dict) and _valid_member(m) for m in p[1]):
                return False
            total += sum(_member_size(m) + 61 for m in p[1])
        else:
            n = A.piece_size(p)
            if n is None:
                return False
            total += n
    return total <= MAX_MEMBER_SIZE


def _valid_then(then):
    """The optional "then" key: the archives that take the place of the first one, in this order."""
    return (isinstance(then, list) and len(then) <= MAX_REPLACES
            and all(isinstance(t, dict) and isinstance(t.get("members"), list)
                    and all(isinstance(m, dict) and _valid_member(m) for m in t["members"])
                    and isinstance(t.get("final_pad", True), bool) and t.get("how", HOWS[0]) in HOWS
                    for t in then))


def valid_case(case):
    if isinstance(case, dict) and "before" in case \
            and not (case.get("open") == "fileobj" and _valid_before(case["before"])):
        return False
    if isinstance(case, dict) and "then" in case \
            and not (case.get("writer", "harness") == "harness" and _valid_then(case["then"])):
        return False
    return (isinstance(case, dict) and case.get("open") in ("fileobj", "filename")
            and case.get("writer", "harness") in ("harness", "ar")
            and isinstance(case.get("final_pad", True), bool)
            and isinstance(case.get("members"), list) and isinstance(case.get("ops"), list)
            and all(isinstance(m, dict) and _valid_member(m) for m in case["members"])
            and all(_valid_op(op) for op in case["ops"]))


# ------------------------------------------------------------------------------------------
# oracle


def _family(kind):
    return "readline" if kind in ("readline", "readlines") else kind


def _situation(kind, start, size, exp):
    """Where, relative to the member's end, did this read-family call work?  (From the shadow only.)

    start-beyond-end        the call starts at a position past the member's end
    unterminated-last-line  a line-oriented call has to return the member's last line, which has
                            no newline (the line is ended by the member's end, not by its data)
    at-member-end           any other call whose result reaches the member's end (incl. the
                            empty result at the end; readlines runs to the end unless a positive
                            size hint stops it earlier)
    inside-member           the result ends before the member does (for readlines: stopped by its hint)
    """
    if start > size:
        return "start-beyond-end"
    pieces = exp if kind == "readlines" else [exp]
    if start + sum(map(len, pieces)) < size:
        return "inside-member"
    if kind != "read" and pieces and pieces[-1] and not pieces[-1].endswith(b"\n") \
            and start + sum(map(len, pieces)) == size:
        return "unterminated-last-line"
    return "at-member-end"


def _listing(ar, ms, labels):
    exp_names = [m["name"].decode("ascii") for m in ms]
    names = ar.getnames()
    if names != exp_names:
        raise Violation("listing-names", "getnames() = %s, archive holds %s" % (short(names), short(exp_names)))
    mem = ar.getmembers()
    if not isinstance(mem, list) or len(mem) != len(ms):
        raise Violation("listing-names", "getmembers() has %s entries, archive holds %d" % (
            len(mem) if isinstance(mem, list) else type(mem).__name__, len(ms)))
    exp = [(m["name"].decode("ascii"), len(m["data"]), m["uid"], m["gid"], m["mtime"]) for m in ms]
    got = [(x.name, x.size, x.owner, x.group, x.mtime) for x in mem]
    if got != exp:
        raise Violation("listing-metadata", "(name,size,owner,group,mtime): got %s, recorded %s" % (
            short(got), short(exp)))
    if list(ar.members) != mem or list(iter(ar)) != mem:
        raise Violation("listing-names", ".members / iter() disagree with getmembers()")
    last = {}
    for i, n in enumerate(exp_names):
        last[n] = i
    for n, i in sorted(last.items()):
        for how, fn in (("getmember", ar.getmember), ("[]", ar.__getitem__)):
            try:
                got_m = fn(n)
            except KeyError:
                raise Violation("lookup-by-name", "%s(%r) raised KeyError, member %d has that name" % (how, n, i))
            if got_m is not mem[i]:
                which = [j for j, x in enumerate(mem) if x is got_m]
                raise Violation("lookup-by-name", "%s(%r) gave member %s, the last one of that name is %d" % (
                    how, n, which or "unknown", i))
    absent = ["", "no-such-member"]
    for n in exp_names[:2]:
        absent += [n + "/", n[:-1], n.swapcase(), n + " "]
    for n in absent:
        if n in last:
            continue
        try:
            r = ar.getmember(n)
        except KeyError:
            continue
        raise Violation("lookup-missing-name", "getmember(%r) returned %s (names: %s)" % (
            n, short(getattr(r, "name", r)), short(exp_names)))
    if len(last) < len(exp_names):
        labels.add("duplicate-names")
    return mem


def _size_class(n):
    return ("<4KiB" if n < 4096 else "4KiB..64KiB" if n < 65536 else "64KiB..1MiB" if n < (1 << 20)
            else ">=1MiB")


def _brief(x):
    """short() for values that may hold megabytes: counts and both ends instead of a huge repr."""
    if isinstance(x, bytes) and len(x) > 100:
        return "<%d bytes: %r ... %r>" % (len(x), x[:20], x[-20:])
    if isinstance(x, list) and all(isinstance(e, bytes) for e in x) \
            and (len(x) > 8 or any(len(e) > 100 for e in x)):
        return "<%d lines, %d bytes in all, line lengths %s%s>" % (
            len(x), sum(map(len, x)), [len(e) for e in x[:8]], ", ..." if len(x) > 8 else "")
    return short(x, 120)


def _first_difference(got, exp):
    """' - first difference at byte N of the result' for big results of the right type, else ''."""
    if isinstance(got, list) and isinstance(exp, list) and all(isinstance(e, bytes) for e in got):
        got, exp = b"".join(got), b"".join(exp)
    if not (isinstance(got, bytes) and isinstance(exp, bytes)) or max(len(got), len(exp)) <= 100:
        return ""
    n = min(len(got), len(exp))
    k = next((k for k in range(0, n, 4096) if got[k:k + 4096] != exp[k:k + 4096]), None)
    if k is None:
        return " - the %s one is a prefix of the other" % ("shorter" if len(got) != len(exp) else "same")
    k = next(j for j in range(k, n + 1) if got[j:j + 1] != exp[j:j + 1])
    return " - as byte strings they first differ at byte %d of the result" % k


def _size_argument(n, rest):
    """Label for the size argument of read(n) / readline(n); rest = bytes from the position to the member's end."""
    if n is None or n == 0:
        return repr(n)
    if n < 0:
        return "-1" if n == -1 else "negative-other-than--1" if n > -(1 << 31) else "negative,<=-2**31"
    if n >= (1 << 31):
        return "positive,>=2**31"
    return "positive,within-the-rest" if n <= rest else "positive,beyond-the-rest"


class _Obj(object):
    """One member object handed out by the library, with its in-memory reference."""
    __slots__ = ("m", "s", "data", "arno", "k", "gen", "opened", "closed")

    def __init__(self, m, data, arno, k, gen):
        self.m, self.s, self.data = m, io.BytesIO(data), data
        self.arno, self.k, self.gen = arno, k, gen      # ArFile number (from 1), member index, archive number
        self.opened = False     # a read-family call since the object was made / last closed
        self.closed = False     # close() since the last read-family call


def _run_history(archives, ops, labels, open_ar, install):
    """Apply ops to the real members and to BytesIO shadows; compare after every step.

    archives: the member lists of the archive under test and of the ones that replace it ("then").
    open_ar(g): opens a further ArFile on archive number g (the one in place), checks its listing and
    returns its member objects.  install(g): puts archive g in the place of its predecessor and
    returns True when that took the predecessor away from the objects made from it (filename mode:
    they are then no longer used, nor asked anything).  Every member object of every ArFile has a
    shadow of its own.  Returns True when the history met the non-triviality rule's second half.
    """
    live = [_Obj(m, d["data"], 1, k, 0) for k, (m, d) in enumerate(zip(open_ar(0), archives[0]))]
    narf = 1            # ArFiles opened so far
    reopens = 0
    cur = 0             # the archive now in place
    several = False     # more than one ArFile so far?
    interesting = False
    touched_prev = None
    for step, op in enumerate(ops):
        kind = op[0]
        got = exp = None
        sit = None
        o = None
        fresh = ()
        if kind in ("reopen", "replace"):
            if kind == "reopen":
                if reopens >= MAX_REOPENS:
                    labels.add("reopen:skipped")
                    continue
                reopens += 1
                if any(x.s.tell() for x in live):
                    labels.add("reopen-while-earlier-members-are-mid-file")
                what = "step %d reopen (ArFile number %d, on the same archive)" % (step, narf + 1)
            else:
                if cur + 1 >= len(archives):
                    labels.add("replace:skipped")
                    continue
                old = [x for x in live if x.gen == cur]
                for x in old:
                    labels.add("replace:an-old-member-is:" + (
                        ("read-partly" if x.s.tell() < len(x.data) else "read-to-its-end") + ",not-closed"
                        if x.opened else "closed-after-reading" if x.closed else "never-read"))
                cur += 1
                labels.add("replace:new-archive-has-%s-members" % (
                    "as-many" if len(archives[cur]) == len(archives[cur - 1]) else "other-number-of"))
                if [len(d["data"]) for d in archives[cur]] == [len(d["data"]) for d in archives[cur - 1]]:
                    labels.add("replace:same-sizes-other-bytes"
                               if [d["data"] for d in archives[cur]] != [d["data"] for d in archives[cur - 1]]
                               else "replace:same-contents")
                if install(cur):
                    live = []       # their file is gone: not used and not asked anything from here on
                    touched_prev = None
                what = "step %d replace (ArFile number %d, on archive number %d in the same place)" % (
                    step, narf + 1, cur + 1)
            narf += 1
            several = True
            fresh = [_Obj(m, d["data"], narf, k, cur) for k, (m, d) in enumerate(zip(open_ar(cur), archives[cur]))]
            live.extend(fresh)
            labels.add("arfiles:%d" % narf)
        else:
            if not live:
                labels.add("op-skipped:no-live-member")
                continue
            o = live[op[1] % len(live)]
            m, s, size = o.m, o.s, len(o.data)
            start = s.tell()
            what = "step %d %s on member %d%s%s (%d bytes, position %d)" % (
                step, op, o.k, " of ArFile number %d" % o.arno if several else "",
                " (archive number %d in that place)" % (o.gen + 1) if o.gen else "", size, start)
        if kind == "read":
            if len(op) == 2:
                got, exp = m.read(), s.read()
            else:
                got, exp = m.read(op[2]), s.read(op[2])
                labels.add("op:read(n)")
                labels.add("read-size:" + _size_argument(op[2], size - start))
        elif kind == "readline":
            if len(op) == 2:
                got, exp = m.readline(), s.readline()
            else:
                got, exp = m.readline(op[2]), s.readline(op[2])
                labels.add("op:readline(n)")
                labels.add("readline-size:" + _size_argument(op[2], size - start))
        elif kind == "readlines":
            if len(op) == 2:
                got, exp = m.readlines(), s.readlines()
            else:
                hint = op[2]
                got, exp = m.readlines(hint), s.readlines(hint)
                labels.add("op:readlines(hint)")
                labels.add("readlines-hint:" + ("None" if hint is None else "0" if hint == 0 else
                                                "negative" if hint < 0 else "positive"))
                if hint is not None and hint > 0 and start < size:
                    stopped = start + sum(map(len, exp)) < size
                    labels.add("readlines-positive-hint:" + ("stops-before-member-end" if stopped else
                                                             "reaches-member-end"))
                    if stopped and sum(map(len, exp)) == hint:
                        labels.add("readlines-positive-hint:reached-exactly-at-a-line-end")
        elif kind == "tell":
            got, exp = m.tell(), s.tell()
        elif kind == "seek":
            whence, target = op[2], op[3]
            off = target - (0, start, size)[whence]
            m.seek(off, whence)
            s.seek(off, whence)
            labels.add("seek-whence:%d" % whence)
            if off < 0:
                labels.add("seek-negative-offset")
            if target > size:
                labels.add("seek-beyond-end")
        elif kind == "close":
            m.close()
            o.closed, o.opened = True, False
        labels.add("op:" + kind)

        if kind in ("read", "readline", "readlines"):
            sit = _situation(kind, start, size, exp)
            if o.closed:
                labels.add("read-after-close")
            o.closed, o.opened = False, True
            if o.gen:
                labels.add("read-from-an-archive-that-replaced-another")
            if sit == "start-beyond-end":
                labels.add("read-starts-beyond-end")
                interesting = True
            if sit == "unterminated-last-line":
                labels.add("readline-returns-unterminated-last-line")
                interesting = True
            if sit == "at-member-end" and start == size:
                labels.add("read-at-exact-end")
            nbytes = sum(map(len, exp)) if kind == "readlines" else len(exp)
            if nbytes >= 4096:
                labels.add("%s-returns:%s" % (kind, _size_class(nbytes)))
                longest = max(map(len, exp)) if kind == "readlines" else len(exp) if kind == "readline" else 0
                if longest >= 4096:
                    labels.add("%s-line:%s" % (kind, _size_class(longest)))
            if any(x.s.tell() != start for x in live if x is not o and x.gen == o.gen and x.k == o.k):
                labels.add("same-member-of-another-arfile-at-another-position")
            if any(x.gen != o.gen for x in live):
                labels.add("read-while-objects-of-two-archives-are-live")
            ok = (type(got) is type(exp) and got == exp
                  and (kind != "readlines" or all(type(x) is bytes for x in got)))
            if not ok:
                leak = ""
                flat = b"".join(got) if isinstance(got, list) and all(isinstance(x, bytes) for x in got) else got
                if isinstance(flat, bytes) and len(flat) > max(0, size - start):
                    leak = " - returns bytes from outside the member"
                raise Violation("%s:%s" % (_family(kind), sit), "%s returned %s, an in-memory file gives %s%s%s" % (
                    what, _brief(got), _brief(exp), _first_difference(got, exp), leak))
        elif kind == "tell":
            if type(got) is not int or got != exp:
                raise Violation("tell", "%s returned %r, expected %r" % (what, got, exp))

        for x in live:
            tj, ej = x.m.tell(), x.s.tell()
            if tj == ej:
                continue
            who = "member %d%s" % (x.k, " of ArFile number %d" % x.arno if several else "")
            if any(x is f for f in fresh):
                raise Violation("reopen:fresh-member-position", "%s: its %s starts at tell() = %r, "
                                "an in-memory file starts at 0" % (what, who, tj))
            if x is not o:
                sig = ("isolation" if o is None or x.arno == o.arno else
                       "isolation:between-arfiles" if x.gen == o.gen else "isolation:between-archives")
                raise Violation(sig, "%s moved %s: tell() = %r, expected %r" % (what, who, tj, ej))
            fam = _family(kind)
            sig = "%s:%s" % (fam, sit) if sit else fam
            raise Violation(sig, "%s left tell() = %r, an in-memory file is at %r" % (what, tj, ej))
        if o is None:
            continue
        if touched_prev is not None and touched_prev is not o and kind != "tell":
            labels.add("interleaved-members")
            if touched_prev.arno != o.arno:
                labels.add("interleaved-arfiles")
                if touched_prev.gen != o.gen:
                    labels.add("interleaved-archives")
        if kind not in ("tell",):
            touched_prev = o
    return interesting


def _members(descr):
    return [dict(name=s2b(m["name"]), style=m.get("style", "gnu"),
                 data=A.expand_pieces(m["gen"]) if "gen" in m else s2b(m["data"]),
                 mtime=m.get("mtime", 0), uid=m.get("uid", 0), gid=m.get("gid", 0),
                 mode=m.get("mode", 0o100644)) for m in descr]


def _before_bytes(parts, labels):
    """The bytes that precede the archive in the file object (case key "before")."""
    out = []
    for p in parts:
        if p[0] == "archive":
            out.append(A.ar_archive_bytes(_members(p[1]), final_pad=p[2] if len(p) == 3 else True))
            labels.add("before:another-archive" + ("" if p[1] else "-without-members"))
        else:
            out.append(A.expand_pieces([p]))
            labels.add("before:other-bytes")
    return b"".join(out)


def _archive_labels(ms, raw, padded, labels):
    if ms and len(ms[-1]["data"]) % 2:
        labels.add("last-member-odd:final-pad-" + ("present" if raw == padded else "absent"))
        if raw != padded and len(ms[-1]["data"]) >= 4096:
            labels.add("big-last-member-ends-at-end-of-file")
    for m in ms:
        d = m["data"]
        labels.add("member-size-odd" if len(d) % 2 else "member-size-even")
        if not d:
            labels.add("member-empty")
        elif d.strip(b"\n") == b"":
            labels.add("member-newlines-only")
        elif d.endswith(b"\n"):
            labels.add("member-ends-with-newline")
        else:
            labels.add("member-without-final-newline")
        if len(d) >= 4096:
            labels.add("member-size:" + _size_class(len(d)))
            labels.add("member-longest-line:" + _size_class(max(map(len, d.split(b"\n"))) + 1))
        labels.add("style:" + m["style"])
        if len(m["name"]) >= 15:
            labels.add("name-fills-field")


def check(case):
    if not valid_case(case):
        return (False, ("invalid-case-skipped",))
    ms = _members(case["members"])
    padded = A.ar_archive_bytes(ms)
    raw = A.ar_archive_bytes(ms, final_pad=case.get("final_pad", True))      # the archive under test
    labels = set(["open:" + case["open"], "members:%s" % (len(ms) if len(ms) < 3 else "3+")])
    before = _before_bytes(case.get("before", []), labels)
    if case["open"] == "fileobj":
        labels.add("archive-at-offset:" + ("0" if not before else
                                           ("odd" if len(before) % 2 else "even")
                                           + (",>=4KiB" if len(before) >= 4096 else "")))
    _archive_labels(ms, raw, padded, labels)
    archives, raws, hows = [ms], [raw], [None]      # the archive under test and those that take its place
    for t in case.get("then", []):
        tms = _members(t["members"])
        traw = A.ar_archive_bytes(tms, final_pad=t.get("final_pad", True))
        _archive_labels(tms, traw, A.ar_archive_bytes(tms), labels)
        archives.append(tms)
        raws.append(traw)
        hows.append(t.get("how", HOWS[0]))
    workdir = None
    mem = []            # every member object handed out in this case (for the cleanup)
    ars = []            # every ArFile opened in this case: all stay alive until the case ends
    try:
        if case["open"] == "filename" or case.get("writer") == "ar":
            workdir = tempfile.mkdtemp(prefix="vcheck-c06-", dir=SCRATCH)
        if case.get("writer") == "ar":
            if A.AR_BIN is None:
                labels.add("ar-binary:missing")
            else:
                built = A.ar_binary_archive(ms, workdir)
                if built is None:
                    labels.add("ar-binary:not-applicable")
                elif built == padded:      # binutils ar always writes the pad byte
                    labels.add("ar-binary:identical-to-harness-writer")
                elif built[8:24] == b"/".ljust(16):
                    # bfd took some member's bytes for an object file and ar prepended a symbol
                    # table member "/": no longer an archive of short-named members only
                    labels.add("ar-binary:added-a-symbol-table")
                else:
                    # never an alarm: the second writer only vouches for the first
                    labels.add("ar-binary:differs-from-harness-writer")
        if case["open"] == "filename":
            path = os.path.join(workdir, "case.a")
            with open(path, "wb") as f:
                f.write(raws[0])

        def install(g):
            """Archive number g takes the place of its predecessor.  True: the predecessor is gone."""
            if case["open"] != "filename":
                return False        # a file object of its own; the earlier ones are left untouched
            labels.add("replace:how:" + hows[g])
            if hows[g] == "rename":             # written next to it, then moved over the old file
                with open(path + ".new", "wb") as f:
                    f.write(raws[g])
                os.replace(path + ".new", path)
            else:
                if hows[g] == "unlink":         # the old file is removed, a new one made under its name
                    os.unlink(path)
                with open(path, "wb") as f:     # "rewrite": the same file, truncated and written anew
                    f.write(raws[g])
            return True

        fobjs = {}

        def open_and_list(g):
            if case["open"] == "filename":
                ar = ArFile(filename=path)
            else:
                # a further reader of the archive under test gets a file object of its own or - in
                # the histories with an even number of operations - the very file object the first
                # reader (and its live members) use, put back on the global header
                if g in fobjs and len(case["ops"]) % 2 == 0:
                    f = fobjs[g]
                    labels.add("reopen:second-reader-on-the-same-file-object")
                else:
                    f = io.BytesIO(before + raws[g])
                    fobjs.setdefault(g, f)
                f.seek(len(before))             # on the global header of the archive under test
                ar = ArFile(fileobj=f)
            ars.append(ar)
            new = _listing(ar, archives[g], labels)
            mem.extend(new)
            return new

        interesting = _run_history(archives, case["ops"], labels, open_and_list, install)
        return (max(map(len, archives)) >= 2 and interesting, sorted(labels))
    finally:
        for m in mem:
            try:
                m.close()       # cleanup of lazily opened handles, not part of the oracle
            except Exception:   # pylint: disable=broad-except
                pass
        if workdir is not None:
            shutil.rmtree(workdir, ignore_errors=True)


# ------------------------------------------------------------------------------------------
# bounded-exhaustive histories

ENUM_OPS = [
    ["read"], ["read", 1], ["read", 2], ["readline"], ["readline", 0], ["readline", 1], ["readlines"],
    ["seek", 0, 0], ["seek", 0, 1], ["seek", 1, 2], ["seek", 2, 1], ["seek", 0, 7], ["tell"], ["close"],
]
ENUM_FIRST = ["", "\n", "a", "a\n", "a\nb", "\n\n", "ab", "a\nbc\n"]


def _enum_member(name, data):
    return {"name": name, "style": "gnu", "data": data, "mtime": 0, "uid": 0, "gid": 0, "mode": 0o100644}


ENUM_DEEP = ["a", "ab", "a\n", "a\nb"]


def enum_cases(plan):
    """plan: list of (open mode, first-member contents, history lengths)."""
    symbols = [[o[0], i] + o[1:] for i in (0, 1) for o in ENUM_OPS]

    def gen():
        for mode, firsts, lengths in plan:
            for first in firsts:
                members = [_enum_member("a", first), _enum_member("b", "x\ny")]
                for n in lengths:
                    for seq in itertools.product(symbols, repeat=n):
                        yield {"open": mode, "members": members, "ops": [list(o) for o in seq]}
    return gen


ENUM_QUICK = [("fileobj", ENUM_FIRST, (1, 2, 3)), ("filename", ENUM_FIRST, (1, 2))]
ENUM_THOROUGH = [("fileobj", ENUM_FIRST, (1, 2, 3)), ("filename", ENUM_FIRST, (1, 2, 3)),
                 ("fileobj", ENUM_DEEP, (4,))]


def enum_reopen_cases(plan):
    """Histories with exactly one "reopen": plan = list of (open mode, first-member contents, shapes).

    A shape is a string over 'o' (one operation) and 'R' (the reopen), e.g. "oRo": every operation
    on each of the 2 members, then the reopen, then every operation on each of the 4 live member
    objects (2 per ArFile).
    """
    def gen():
        for mode, firsts, shapes in plan:
            for first in firsts:
                members = [_enum_member("a", first), _enum_member("b", "x\ny")]
                for shape in shapes:
                    live, slots = 2, []
                    for ch in shape:
                        if ch == "R":
                            slots.append([["reopen"]])
                            live += 2
                        else:
                            slots.append([[o[0], i] + o[1:] for i in range(live) for o in ENUM_OPS])
                    for seq in itertools.product(*slots):
                        yield {"open": mode, "members": members, "ops": [list(o) for o in seq]}
    return gen


REOPEN_ALL = ("R", "Ro", "oR", "Roo", "oRo", "ooR")
REOPEN_QUICK = [("filename", ENUM_DEEP, ("R", "Ro", "oR", "oRo")), ("fileobj", ENUM_DEEP, REOPEN_ALL)]
REOPEN_THOROUGH = [("filename", ENUM_FIRST, REOPEN_ALL), ("fileobj", ENUM_FIRST, REOPEN_ALL)]


def _shape_histories(shape, nmembers, alphabet):
    """Every history of a shape: 'o' = one operation of the alphabet on any live member object,
    'R' = a further ArFile on the same archive (its members join the live ones)."""
    live, slots = nmembers, []
    for ch in shape:
        if ch == "R":
            slots.append([["reopen"]])
            live += nmembers
        else:
            slots.append([[o[0], i] + o[1:] for i in range(live) for o in alphabet])
    for seq in itertools.product(*slots):
        yield [list(o) for o in seq]


# ------------------------------------------------------------------------------------------
# the end of the archive file: with and without the pad byte after an odd-sized last member

# contents of the members; every archive ends in a member of odd size
FINAL_PAD_ARCHIVES = ([[first, "x\ny"] for first in ENUM_FIRST]          # the archives of histories<=3
                      + [["\n"], ["a"], ["a\nb"], ["line1\nline2"]]      # the last member is the only one
                      + [["a\nb", "xy\n"], ["ab", "\n"], ["a", "b", "c"]])
assert all(len(a[-1]) % 2 for a in FINAL_PAD_ARCHIVES)


def enum_final_pad_cases(plan):
    """plan: list of (open mode, shapes); every archive of FINAL_PAD_ARCHIVES, written without the
    final pad byte, x every history of every shape over the 14-operation alphabet."""
    def gen():
        for mode, shapes in plan:
            for contents in FINAL_PAD_ARCHIVES:
                members = [_enum_member("abc"[k], d) for k, d in enumerate(contents)]
                for shape in shapes:
                    for ops in _shape_histories(shape, len(members), ENUM_OPS):
                        yield {"open": mode, "members": members, "final_pad": False, "ops": ops}
    return gen


FINAL_PAD_QUICK = [("fileobj", ("o", "oo", "R", "Ro", "oR")), ("filename", ("o", "R", "Ro", "oR"))]
FINAL_PAD_THOROUGH = [("fileobj", ("o", "oo", "ooo", "R", "Ro", "oR", "oRo")),
                      ("filename", ("o", "oo", "ooo", "R", "Ro", "oR", "oRo"))]
EXHAUSTIVE_FINAL_PAD = {
    "quick": "15 archives of 1..3 small members whose last member has an odd size (the 8 archives of histories<=3; "
             "4 single-member ones; last member ending in a newline / one byte long / third of three), the file "
             "ending right after the last member's data (no pad byte) x all histories of the shapes o, oo, R, Ro, oR "
             "(o = one of the 14 operations on any live member object, R = a second ArFile) in fileobj mode, of the "
             "shapes o, R, Ro, oR in filename mode",
    "thorough": "the same 15 archives without the final pad byte x all histories of the shapes o, oo, ooo, R, Ro, "
                "oR, oRo x both open modes",
}


# ------------------------------------------------------------------------------------------
# readlines with an explicit size hint: None / 0 / negative (no limit) and positive ones that end
# inside a line, exactly at a line end and beyond the member's end

HINTS_QUICK = [None, 0, -1, 1, 2, 3]
HINTS_THOROUGH = [None, 0, -1, -2, 1, 2, 3, 6, 11]
HINT_OTHER_OPS = [["readline"], ["read", 1], ["seek", 0, 0], ["seek", 0, 1], ["seek", 0, 7]]
# line lengths 2, 3, 4, 1, 1 (cumulative 2, 5, 9, 10, 11); 2 lines without / with final newline;
# empty lines only; and the second member "x\ny\nz" (cumulative 2, 4, 5)
HINT_FIRST_QUICK = ["a\nbb\nccc\n\nd", "a\nb", "ab\ncd\n", "\n\n\n"]
HINT_FIRST_THOROUGH = HINT_FIRST_QUICK + ["", "abc", "\nab"]
HINT_PLAN_QUICK = [("fileobj", HINT_FIRST_QUICK, HINTS_QUICK, ("o", "oo", "ooo")),
                   ("filename", HINT_FIRST_QUICK, HINTS_QUICK, ("o", "oo"))]
HINT_PLAN_THOROUGH = [("fileobj", HINT_FIRST_THOROUGH, HINTS_THOROUGH, ("o", "oo", "ooo", "Roo")),
                      ("filename", HINT_FIRST_THOROUGH, HINTS_THOROUGH, ("o", "oo", "ooo"))]
EXHAUSTIVE_HINTS = {
    "quick": "archives ['a\\nbb\\nccc\\n\\nd' | 'a\\nb' | 'ab\\ncd\\n' | '\\n\\n\\n', 'x\\ny\\nz'] x all histories of "
             "1..3 operations (filename mode: 1..2) from readlines(h) for h in None, 0, -1, 1, 2, 3 and readline(), "
             "read(1), seek to 0 / 1 / 7, on each of the 2 members: every hint from every reachable position, "
             "followed by every other call",
    "thorough": "the same with 3 more first-member contents ('', 'abc', '\\nab'), h in None, 0, -1, -2, 1, 2, 3, 6, "
                "11, histories of 1..3 operations in both open modes and, in fileobj mode, 2 operations on the 4 "
                "live member objects after a second ArFile",
}


def enum_hint_cases(plan):
    def gen():
        for mode, firsts, hints, shapes in plan:
            alphabet = [["readlines", h] for h in hints] + HINT_OTHER_OPS
            for first in firsts:
                members = [_enum_member("a", first), _enum_member("b", "x\ny\nz")]
                for shape in shapes:
                    for ops in _shape_histories(shape, 2, alphabet):
                        yield {"open": mode, "members": members, "ops": ops}
    return gen


# ------------------------------------------------------------------------------------------
# read(n) / readline(n) with the size argument away from the usual values: negative ones other than -1
# (io: any negative size means "no bound"), None for readline, and positive ones far beyond any member
# (up to the largest C ssize_t); judged against io.BytesIO.read(n) / readline(n) with the same argument

READ_SIZES_QUICK = [-1, -2, -7, MAX_SIZE]
READLINE_SIZES_QUICK = [None, -1, -2, MAX_SIZE]
READ_SIZES_THOROUGH = [-1, -2, -7, -(1 << 31), -MAX_SIZE, 3, 1 << 31, MAX_SIZE]
READLINE_SIZES_THOROUGH = [None, -1, -2, -7, -(1 << 31) - 1, -MAX_SIZE, 3, (1 << 32) + 1, MAX_SIZE]
SIZE_OTHER_OPS = [["readline"], ["read", 1], ["seek", 0, 0], ["seek", 0, 1], ["seek", 0, 7]]
# the first member: lines + unterminated last line, odd size (a pad byte follows) / even size, the next
# header follows at once / ends in a newline / empty; the second member "x\ny\nz" is the last of the file
SIZE_FIRST_QUICK = ["a\nbb\nccc\n\nd", "ab\ncd", "a\n"]
SIZE_FIRST_THOROUGH = SIZE_FIRST_QUICK + ["", "abc", "\n\n\n"]
SIZE_PLAN_QUICK = [("fileobj", SIZE_FIRST_QUICK, READ_SIZES_QUICK, READLINE_SIZES_QUICK, ("o", "oo", "ooo")),
                   ("filename", SIZE_FIRST_QUICK, READ_SIZES_QUICK, READLINE_SIZES_QUICK, ("o", "oo"))]
SIZE_PLAN_THOROUGH = [
    ("fileobj", SIZE_FIRST_THOROUGH, READ_SIZES_THOROUGH, READLINE_SIZES_THOROUGH, ("o", "oo", "ooo")),
    ("fileobj", SIZE_FIRST_QUICK, READ_SIZES_QUICK, READLINE_SIZES_QUICK, ("Roo",)),
    ("filename", SIZE_FIRST_THOROUGH, READ_SIZES_THOROUGH, READLINE_SIZES_THOROUGH, ("o", "oo")),
    ("filename", SIZE_FIRST_QUICK, READ_SIZES_QUICK, READLINE_SIZES_QUICK, ("ooo",))]
EXHAUSTIVE_SIZES = {
    "quick": "archives ['a\\nbb\\nccc\\n\\nd' | 'ab\\ncd' | 'a\\n', 'x\\ny\\nz'] x all histories of 1..3 operations "
             "(filename mode: 1..2) from read(n) for n in -1, -2, -7, 2**63-1, readline(n) for n in None, -1, -2, "
             "2**63-1 and readline(), read(1), seek to 0 / 1 / 7, on each of the 2 members: every such size from "
             "every reachable position (start, inside a line, at the end, beyond the end), followed by every other "
             "call on the same and on the other member",
    "thorough": "the same with 3 more first-member contents ('', 'abc', '\\n\\n\\n'), read(n) for n in -1, -2, -7, "
                "-2**31, -(2**63-1), 3, 2**31, 2**63-1 and readline(n) for n in None, -1, -2, -7, -2**31-1, "
                "-(2**63-1), 3, 2**32+1, 2**63-1, histories of 1..3 operations in fileobj mode and 1..2 in filename "
                "mode; with the quick sizes and contents also 3 operations in filename mode and 2 operations on "
                "the 4 live member objects after a second ArFile (fileobj mode)",
}


def enum_size_cases(plan):
    def gen():
        for mode, firsts, read_sizes, readline_sizes, shapes in plan:
            alphabet = ([["read", n] for n in read_sizes] + [["readline", n] for n in readline_sizes]
                        + SIZE_OTHER_OPS)
            for first in firsts:
                members = [_enum_member("a", first), _enum_member("b", "x\ny\nz")]
                for shape in shapes:
                    for ops in _shape_histories(shape, 2, alphabet):
                        yield {"open": mode, "members": members, "ops": ops}
    return gen


# ------------------------------------------------------------------------------------------
# the archive does not start at offset 0 of the file object handed to ArFile(fileobj=...)

def _before_list(blocks):
    other = [_enum_member("p", "not this one\n")]
    same = [_enum_member("a", "a\nb"), _enum_member("b", "x\ny")]
    small = [
        [["lit", "x"]],                                     # one byte: every offset of the archive is odd
        [["lit", "#!/bin/sh\nexit 0\n"]],
        [["archive", []]],                                  # a global header alone
        [["archive", other]],                               # the second of two concatenated archives
        [["archive", same]],                                # ... whose first holds members of the same names
        [["archive", [_enum_member("q", "odd")], False]],   # ... whose first ends without the pad byte
        [["lit", "junk "], ["archive", other], ["repeat", "\x00", 512]],
    ]
    big = [[["noise", 7, B + d]] for B in blocks for d in (0, 1)]
    return small, big


OFFSET_QUICK = (("o", "oo", "R", "Ro", "oR"), ENUM_DEEP, ("o", "R"))
OFFSET_THOROUGH = (("o", "oo", "ooo", "R", "Ro", "oR", "oRo"), ENUM_DEEP, ("o", "oo", "R", "Ro", "oR"))
EXHAUSTIVE_OFFSET = {
    "quick": "fileobj mode, the file object positioned on the global header of an archive ['a' | 'ab' | 'a\\n' | "
             "'a\\nb', 'x\\ny'] that is preceded by: 1 byte; a shell script; a global header alone; another "
             "archive (one member; members of the same names; ending without its pad byte); junk + archive + 512 "
             "NULs - x all histories of the shapes o, oo, R, Ro, oR over the 14-operation alphabet; preceded by B "
             "and B+1 arbitrary bytes for every B = 2**12..2**20 (first-member contents 'a', 'ab') x the shapes o, "
             "R; every one of these archives also without its own final pad byte x the shape o",
    "thorough": "the same preambles and archives x the shapes o, oo, ooo, R, Ro, oR, oRo; the big preambles x the "
                "shapes o, oo, R, Ro, oR; without the final pad byte x the shape o",
}


def enum_offset_cases(plan):
    shapes, firsts, big_shapes = plan

    def gen():
        small, big = _before_list(BIG_BLOCKS)
        for befores, shp, fst in ((small, shapes, firsts), (big, big_shapes, firsts[:2])):
            for before in befores:
                for first in fst:
                    members = [_enum_member("a", first), _enum_member("b", "x\ny")]
                    for final_pad in (True, False):
                        for shape in shp if final_pad else shp[:1]:
                            for ops in _shape_histories(shape, 2, ENUM_OPS):
                                case = {"open": "fileobj", "before": before, "members": members, "ops": ops}
                                if not final_pad:
                                    case["final_pad"] = False
                                yield case
    return gen


# ------------------------------------------------------------------------------------------
# header columns: every numeric field at every width up to its full column

HEADER_FIELDS = [("mtime", 12, 10), ("uid", 6, 10), ("gid", 6, 10), ("mode", 8, 8)]   # (key, columns, base)
HEADER_OPS = [["read", 0, 2], ["readline", 1], ["read", 0], ["readlines", 1], ["tell", 0]]


def enum_header_cases(modes):
    def metas():
        for key, width, base in HEADER_FIELDS:
            for w in range(1, width + 1):
                for value in sorted(set([base ** (w - 1), base ** w - 1])):      # smallest / largest of w digits
                    yield "gnu", "m", {key: value}
        for full in itertools.product((False, True), repeat=len(HEADER_FIELDS)):
            meta = dict((key, base ** width - 1 if f else 0) for (key, width, base), f in zip(HEADER_FIELDS, full))
            for style, name in (("gnu", "m"), ("gnu", "m" * 15), ("pad", "m"), ("pad", "m" * 16)):
                yield style, name, meta

    def gen():
        for style, name, meta in metas():
            special = dict(_enum_member(name, "a\nb"), style=style, **meta)
            plain = _enum_member("z", "x\ny")
            for members in ([special, plain], [plain, special], [special, dict(special, data="x\ny")]):
                for mode in modes:
                    yield {"open": mode, "members": members, "ops": HEADER_OPS}
    return gen


EXHAUSTIVE_HEADER = ("for each of mtime (12 columns), uid (6), gid (6), mode (8, octal): the smallest and the "
                     "largest value of every width from 1 digit to the full column, the other fields 0; all 16 "
                     "combinations of column-filling / zero values of the four fields x gnu and blank-padded "
                     "name style x a 1-character and a field-filling name; each on the first, the second and both "
                     "of 2 members x both open modes, one fixed history")


# ------------------------------------------------------------------------------------------
# close() of one member while its siblings are in use

CLOSE_OPS = [["read", 1], ["readline"], ["close"]]
CLOSE_QUICK = [("filename", ("oooo",)), ("fileobj", ("oooo",))]
CLOSE_THOROUGH = [("filename", ("oooo", "ooooo", "oooooo", "Roooo")), ("fileobj", ("oooo", "ooooo"))]
EXHAUSTIVE_CLOSE = {
    "quick": "all histories of 4 operations from read(1), readline(), close() on each of 2 members ('a\\nb', "
             "'x\\ny'), both open modes: every way of closing one member between two reads of another",
    "thorough": "all histories of 4..6 operations (fileobj mode: 4..5) from read(1), readline(), close() on each of "
                "2 members; filename mode also a second ArFile followed by every history of 4 such operations on "
                "the 4 live member objects",
}


def enum_close_cases(plan):
    def gen():
        members = [_enum_member("a", "a\nb"), _enum_member("b", "x\ny")]
        for mode, shapes in plan:
            for shape in shapes:
                for ops in _shape_histories(shape, 2, CLOSE_OPS):
                    yield {"open": mode, "members": members, "ops": ops}
    return gen


# ------------------------------------------------------------------------------------------
# another archive takes the place of the one under test (same path / a further file object) while the
# objects made from the first are alive: members never read, read partly and left open, closed

REPLACE_FIRST = [["a", "a\nb"], ["b", "x\ny"]]
REPLACE_THEN = [
    [["a", "c\nd"], ["b", "z\nw"]],                      # same names, same sizes, other bytes
    [["a", "Q"]],                                        # fewer members, smaller file
    [["a", "a longer first\nmember"], ["b", "x\ny"]],    # member b as before, at another offset
    [["c", ""], ["d", "12\n"], ["e", "x\ny"]],           # other names, more members; e = the old b, moved
]
REPLACE_BACK = [REPLACE_THEN[0], REPLACE_FIRST]          # ... and the first archive again after that


def _replace_histories(shape, sizes, retire, alphabet):
    """Every history of a shape over 'o' (one operation of the alphabet on any live member object),
    'R' (a further ArFile on the archive in place) and 'X' (the next archive takes its place and is
    opened; retire: the member objects made so far leave the live ones).  sizes: members per archive."""
    live, cur, slots = sizes[0], 0, []
    for ch in shape:
        if ch == "X":
            cur += 1
            live = sizes[cur] + (0 if retire else live)
            slots.append([["replace"]])
        elif ch == "R":
            live += sizes[cur]
            slots.append([["reopen"]])
        else:
            slots.append([[o[0], i] + o[1:] for i in range(live) for o in alphabet])
    for seq in itertools.product(*slots):
        yield [list(o) for o in seq]


def enum_replace_cases(plan):
    """plan: list of (open mode, hows, lists of replacing archives, shapes, alphabet)."""
    def gen():
        members = [_enum_member(n, d) for n, d in REPLACE_FIRST]
        for mode, hows, thens, shapes, alphabet in plan:
            for then in thens:
                then = [[_enum_member(n, d) for n, d in t] for t in then]
                sizes = [len(members)] + [len(t) for t in then]
                for how in hows:
                    for shape in shapes:
                        for ops in _replace_histories(shape, sizes, mode == "filename", alphabet):
                            yield {"open": mode, "members": members, "ops": ops,
                                   "then": [dict({"members": t}, **({"how": how} if how else {})) for t in then]}
    return gen


_ONE = [[t] for t in REPLACE_THEN]
REPLACE_QUICK = [
    ("filename", ("unlink",), _ONE, ("X", "Xo", "oX", "oXo"), ENUM_OPS),
    ("filename", ("rename", "rewrite"), _ONE, ("Xo", "oXo", "ooXo", "oXoo"), CLOSE_OPS),
    ("filename", HOWS, [REPLACE_BACK], ("XX", "XoXo", "oXoXo", "oRXo", "oXRo"), CLOSE_OPS),
    ("fileobj", (None,), _ONE, ("X", "Xo", "oX", "oXo"), ENUM_OPS),
    ("fileobj", (None,), [REPLACE_BACK], ("oXoXo", "oRXo", "oXRo"), CLOSE_OPS),
]
REPLACE_THOROUGH = [
    ("filename", HOWS, _ONE, ("X", "Xo", "oX", "oXo"), ENUM_OPS),
    ("filename", ("unlink",), _ONE[:1] + _ONE[2:3], ("ooXo", "oXoo"), ENUM_OPS),
    ("filename", ("rename", "rewrite"), _ONE, ("ooXo", "oXoo", "ooXoo"), CLOSE_OPS),
    ("filename", HOWS, [REPLACE_BACK], ("XX", "XoXo", "oXoXo", "ooXoXo", "oRXo", "oXRo", "oRoXoo"), CLOSE_OPS),
    ("fileobj", (None,), _ONE, ("X", "Xo", "oX", "oXo"), ENUM_OPS),
    ("fileobj", (None,), _ONE[:1] + _ONE[2:3], ("ooXo",), ENUM_OPS),
    ("fileobj", (None,), [REPLACE_BACK], ("oXoXo", "oRXo", "oXRo"), CLOSE_OPS),
]
EXHAUSTIVE_REPLACE = {
    "quick": "archive ['a\\nb', 'x\\ny'] replaced by each of 4 others (same names and sizes with other bytes; one "
             "1-byte member; a longer first member before the same second; 3 members of other names) x all "
             "histories of the shapes X, Xo, oX, oXo - X = the other archive is put in its place and opened, o = one "
             "of the 14 operations on any live member object (filename mode, file unlinked and written anew: the 2 "
             "of the first archive, after X the members of the new one; fileobj mode: all of them); filename mode "
             "with the file replaced by rename / rewritten in place x the shapes Xo, oXo, ooXo, oXoo over read(1), "
             "readline(), close(); the chain first -> same-sizes-other-bytes -> first again x the shapes XX, XoXo, "
             "oXoXo, oRXo, oXRo (R = a further ArFile on the archive in place) over read(1), readline(), close(), "
             "x the 3 ways of replacing the file (fileobj mode: oXoXo, oRXo, oXRo)",
    "thorough": "the same 4 replacing archives x the shapes X, Xo, oX, oXo over the 14 operations x unlink / rename / "
                "rewrite in place (filename mode) and fileobj mode; ooXo (filename, unlink: also oXoo) over the 14 "
                "operations for 2 of them; rename / rewrite x ooXo, oXoo, ooXoo over read(1), readline(), close(); "
                "the chain first -> same-sizes-other-bytes -> first x XX, XoXo, oXoXo, ooXoXo, oRXo, oXRo, oRoXoo "
                "over these 3 operations",
}


# ------------------------------------------------------------------------------------------
# big members: contents and positions around multiples of a block size B, for every power of two
# B from 4 KiB to 1 MiB (buffer and block sizes a reader may work with), x a fixed set of histories

BIG_BLOCKS = [1 << e for e in range(12, 21)]
LINE64 = "0123456789abcdefghijklmnopqrstuvwxyzABCDEFGHIJKLMNOPQRSTUVWXYZ-+\n"[-64:]
assert len(LINE64) == 64 and LINE64.endswith("\n")
LINE61 = "\r" + LINE64[4:]
assert len(LINE61) == 61


def _lines_to(pattern, total, tail="#"):
    """Pieces for exactly ``total`` bytes of the repeated pattern, the rest filled up newline-free."""
    return [["repeat", pattern, total // len(pattern)], ["lit", (tail * len(pattern))[:total % len(pattern)]]]


def big_contents(B):
    """(label, pieces) - what a block-wise or buffered reader with block size B may get wrong."""
    return [
        # no line end at all, 2.5 blocks, odd size
        ("one-line", [["line", 1, 2 * B + B // 2 + 1]]),
        # a line of more than 3 blocks between short ones, last line unterminated
        ("long-line-inside", [["lit", "head\n"], ["line", 2, 3 * B + 1], ["lit", "\nmid\n\ntail without newline"]]),
        # a line of 1.25 blocks that starts at the member's start, then a short unterminated one
        ("line-1.25-blocks-first", [["line", 3, B + B // 4], ["lit", "\nend"]]),
        # arbitrary bytes up to 5 bytes before a block end, then a line across the whole next block
        ("noise-then-line", [["noise", 4, B - 5], ["line", 5, B + 7], ["lit", "\n"]]),
        # arbitrary binary data, 2.33 blocks
        ("noise", [["noise", 6, 2 * B + B // 3]]),
        # short lines, sizes just past a block multiple, last line (unterminated) across the mark
        ("short-lines-B+3", [["repeat", "\n" + LINE64[:-1], B // 64], ["lit", "xyz"]]),
        ("short-lines-2B+1", [["repeat", "\n" + LINE64[:-1], 2 * B // 64], ["lit", "z"]]),
        ("lines-of-61-2B+2", _lines_to(LINE61, 2 * B + 2)),
        # short lines, exactly one / two blocks, with and without the final newline
        ("short-lines-exactly-B", [["repeat", LINE64, B // 64]]),
        ("short-lines-exactly-2B-unterminated", [["repeat", "\n" + LINE64[:-1], 2 * B // 64]]),
        # just below a multiple
        ("lines-of-61-3B-1", _lines_to(LINE61, 3 * B - 1)),
    ]


def big_histories(B):
    """Histories over member 0 (the big one) and member 1 (a small one); positions relative to B."""
    return [
        [["readlines", 0], ["tell", 0], ["readlines", 0]],
        [["seek", 0, 0, 7], ["readline", 1], ["readlines", 0], ["read", 1]],
        [["readline", 0], ["read", 1, 1], ["readlines", 0]],
        [["read", 0, B + 1], ["readline", 1], ["readlines", 0], ["readlines", 1]],
        [["read", 0], ["seek", 0, 0, 0], ["readline", 0], ["readline", 0], ["readline", 0], ["read", 0, 3]],
        [["readline", 0, B + 5], ["readline", 0, 3], ["readline", 0], ["readlines", 0]],
        [["seek", 0, 0, B - 3], ["read", 0, 10], ["readlines", 0]],
        [["seek", 0, 1, B + 1], ["read", 0, 2 * B], ["tell", 0], ["readline", 0], ["readlines", 0]],
        [["seek", 0, 0, B // 2], ["readlines", 0], ["seek", 0, 2, B], ["readlines", 0]],
        [["reopen"], ["read", 0, B], ["readlines", 2], ["readlines", 0], ["read", 3]],
        # size hints: a block, one byte more, one byte less than the rest, then "no limit" three ways
        [["readlines", 0, B], ["tell", 0], ["readlines", 0, B + 1], ["readlines", 1, 2], ["readlines", 0, -1]],
        [["seek", 0, 0, 3], ["readlines", 0, 1], ["readlines", 0, 2 * B - 1], ["readlines", 0, None],
         ["seek", 0, 0, B], ["readlines", 0, 0]],
        # sizes: negative ones around the block size (no bound), then bounds far beyond the member
        [["readline", 0, -B], ["seek", 0, 0, 5], ["read", 0, -B - 1], ["tell", 1], ["seek", 0, 0, B - 1],
         ["readline", 0, MAX_SIZE], ["read", 0, -2], ["seek", 0, 0, 1], ["read", 0, 1 << 40], ["readline", 1, -B]],
        # another archive in its place (case key "then"), the big member having been read up to a block end
        [["read", 0, B], ["readline", 1], ["replace"], ["read", 0, B + 1], ["readlines", 1], ["readlines", 0],
         ["replace"], ["readline", 1], ["readlines", 0]],
    ]


def big_cases(blocks, modes):
    def gen():
        for B in blocks:
            for _label, pieces in big_contents(B):
                members = [dict(_enum_member("big", ""), gen=pieces), _enum_member("b", "x\ny")]
                del members[0]["data"]
                then = [{"members": [_other_bytes(m, 0) for m in members], "how": "unlink"},
                        {"members": members[::-1], "how": "rename"}]
                for mode in modes:
                    for ops in big_histories(B):
                        case = {"open": mode, "members": members, "ops": ops}
                        if ["replace"] in ops:
                            case["then"] = then
                        yield case
                # the big member as the LAST one, the file ending with its last byte (no pad byte)
                if sum(A.piece_size(p) for p in pieces) % 2:
                    for mode in modes:
                        for k in BIG_LAST_HISTORIES:
                            ops = [op[:1] + [op[1] ^ 1] + op[2:] if len(op) > 1 else op for op in big_histories(B)[k]]
                            yield {"open": mode, "members": members[::-1], "final_pad": False, "ops": ops}
    return gen


BIG_LAST_HISTORIES = (0, 3, 4, 7, 9, 12)     # indices into big_histories()


# ------------------------------------------------------------------------------------------
# Hypothesis generators

NAME_POOL = ["a", "b", "A", "x.o", "debian-binary", "control.tar.gz", "data.tar.xz", "a.b_c+d-e",
             "-", ".", "123456789012345"]
CHUNKS = ["\n", "\n", "a", "bc", "line", "\x00", "`\n", "!<arch>\n", "\r\n", "\xff", " ", "\n\n",
          "x/              0           0     0     100644  2         `\n"]

name_st = st.one_of(st.sampled_from(NAME_POOL), st.text(alphabet=NAME_ALPHABET, min_size=1, max_size=16))
data_st = st.one_of(
    st.lists(st.sampled_from(CHUNKS), max_size=8).map(lambda l: "".join(l)[:64]),
    st.binary(max_size=40).map(lambda b: b.decode("latin-1")),
    st.sampled_from(["", "\n", "a", "a\n", "line1\nline2", "line1\nline2\n", "\n\n\n"]),
)
mtime_st = st.one_of(st.just(0), st.integers(0, 10 ** 12 - 1), st.integers(1, 2 * 10 ** 9))
id_st = st.one_of(st.just(0), st.integers(0, 999999))
mode_st = st.sampled_from([0o100644, 0o644, 0o100755, 0, 0o77777777])


def _mk_member(name, style, data, mtime, uid, gid, mode):
    if style == "gnu":
        name = name[:15]
    return {"name": name, "style": style, "data": data, "mtime": mtime, "uid": uid, "gid": gid, "mode": mode}


member_st = st.builds(_mk_member, name_st, st.sampled_from(["gnu", "pad"]), data_st, mtime_st, id_st, id_st, mode_st)
plain_member_st = st.builds(
    _mk_member, name_st.map(lambda n: "dot" if n in (".", "..") else n), st.just("gnu"), data_st,
    st.just(0), st.just(0), st.just(0), st.just(0o644))

# 0..5 reaches every member of the first ArFile (indices are taken modulo the number of live member
# objects), 0..19 those of the re-opened ones as well
idx_st = st.one_of(st.integers(0, 5), st.integers(0, 19))
hint_st = st.one_of(st.none(), st.sampled_from([0, -1]), st.integers(1, 6), st.integers(1, 45), st.integers(-50, -1))
# sizes away from the usual ones: negative (io: no bound) of every magnitude, positive ones beyond any member
odd_size_st = st.one_of(st.integers(-50, -1), st.integers(-50, -2), st.sampled_from([-1, -2, MAX_SIZE, -MAX_SIZE]),
                        st.builds(lambda e, d, sign: sign * ((1 << e) + d), st.integers(7, 62), st.integers(-2, 2),
                                  st.sampled_from([1, -1])))
op_st = st.one_of(
    st.tuples(st.just("read"), idx_st),
    st.tuples(st.just("read"), idx_st, st.integers(1, 45)),
    st.tuples(st.just("read"), idx_st, odd_size_st),
    st.tuples(st.just("readline"), idx_st),
    st.tuples(st.just("readline"), idx_st),
    st.tuples(st.just("readline"), idx_st, st.integers(0, 45)),
    st.tuples(st.just("readline"), idx_st, st.one_of(st.none(), odd_size_st)),
    st.tuples(st.just("readlines"), idx_st),
    st.tuples(st.just("readlines"), idx_st, hint_st),
    st.tuples(st.just("seek"), idx_st, st.sampled_from([0, 1, 2]), st.integers(0, 50)),
    st.tuples(st.just("seek"), idx_st, st.sampled_from([0, 1, 2]), st.integers(0, 12)),
    st.tuples(st.just("tell"), idx_st),
    st.tuples(st.just("close"), idx_st),
    st.tuples(st.just("reopen")),
    st.tuples(st.just("replace")),
)
ops_st = st.lists(op_st, min_size=1, max_size=25)


def _member_size(m):
    return sum(A.piece_size(p) for p in m["gen"]) if "gen" in m else len(m["data"])


def _settle_final_pad(case):
    """"final_pad": false only where it changes the archive (a last member of odd size).

    The drawn flag is "omit_final_pad" so that Hypothesis shrinks towards the usual, padded file.
    Likewise "before": kept only where it exists (fileobj mode) and is not empty."""
    if case.pop("omit_final_pad", False) and case["members"] and _member_size(case["members"][-1]) % 2:
        case["final_pad"] = False
    if "before" in case and (not case["before"] or case["open"] != "fileobj"):
        del case["before"]
    then = []
    for t in case.pop("then", []):
        if not isinstance(t, dict):
            # the archive before it once more, every member's bytes changed, all sizes and names kept
            prev = then[-1] if then else case
            t = {"members": [_other_bytes(m, t[1]) for m in prev["members"]], "how": t[2], "omit_final_pad": False}
            if prev.get("final_pad") is False:
                t["final_pad"] = False
        if t.pop("omit_final_pad") and t["members"] and _member_size(t["members"][-1]) % 2:
            t["final_pad"] = False
        then.append(t)
    if then:
        case["then"] = then
    return case


def _other_bytes(member, how):
    """The member with other contents of the same size (see _other_text; seeded pieces: another seed)."""
    m = dict(member)
    if "gen" in m:
        m["gen"] = [[p[0], (p[1] + 1 + how) % 10, p[2]] if p[0] in ("line", "noise") else
                    [p[0], _other_text(p[1], how)] + list(p[2:]) for p in m["gen"]]
    else:
        m["data"] = _other_text(m["data"], how)
    return m


def _other_text(text, how):
    """Every byte replaced by another one.  how 0: the newlines stay where they are and no new ones
    appear (same lines, other bytes); how 1: newlines become 'a' and 'a' newlines (other lines)."""
    if how:
        return "".join(chr(ord(c) ^ 0x6b) for c in text)
    return "".join(c if c == "\n" else "\x0b" if c == "\t" else chr((ord(c) + 1) % 256) for c in text)


# what may precede the archive in the file object: nothing (half of the draws), bytes, whole archives
before_part_st = st.one_of(
    st.tuples(st.just("lit"), data_st),
    st.tuples(st.just("archive"), st.lists(member_st, max_size=2)),
    st.tuples(st.just("archive"), st.lists(member_st, max_size=2), st.booleans()),
)
before_st = st.one_of(st.just([]), st.lists(before_part_st, min_size=1, max_size=2))


def then_st(members):
    """The archives that take the place of the first one: none (half of the draws) or 1..2, each either
    drawn afresh or the archive before it with all sizes kept and all bytes changed."""
    how = st.sampled_from(HOWS)
    entry = st.one_of(
        st.fixed_dictionaries({"members": members, "how": how, "omit_final_pad": st.booleans()}),
        st.tuples(st.just("same-sizes"), st.sampled_from([0, 1]), how))
    return st.one_of(st.just([]), st.lists(entry, min_size=1, max_size=2))


def case_st(writer="harness"):
    mst = member_st if writer == "harness" else plain_member_st
    members = st.one_of(st.lists(mst, min_size=0, max_size=5), st.lists(mst, min_size=2, max_size=5))
    fixed = {"open": st.sampled_from(["fileobj", "filename"]), "members": members, "ops": ops_st}
    if writer != "harness":
        fixed["writer"] = st.just(writer)       # binutils ar always writes the final pad byte
        return st.fixed_dictionaries(fixed)
    fixed["omit_final_pad"] = st.booleans()
    fixed["before"] = before_st
    fixed["then"] = then_st(st.lists(mst, max_size=3))
    return st.fixed_dictionaries(fixed).map(_settle_final_pad)


# big members: sizes, counts and positions k * 2**e + d around multiples of powers of two
big_int_st = st.builds(lambda e, k, d: k * 2 ** e + d, st.integers(12, 20), st.integers(1, 3), st.integers(-3, 3))
big_piece_st = st.one_of(
    st.tuples(st.just("lit"), data_st),
    st.tuples(st.just("line"), st.integers(0, 9), big_int_st),
    st.tuples(st.just("noise"), st.integers(0, 9), big_int_st),
    st.builds(lambda pat, total: ("repeat", pat, total // len(pat)),
              st.sampled_from([LINE64, "\n" + LINE64[:-1], LINE61, "ab\n", "\n", "x"]), big_int_st),
)
BIG_MAX = 7 << 19     # 3.5 MiB per member


def _fit(pieces):
    """Keep the leading pieces that fit into BIG_MAX bytes (the first one is cut down if need be)."""
    out, total = [], 0
    for p in pieces:
        p = list(p)
        n = A.piece_size(p)
        if not out and n > BIG_MAX:
            p[2] = BIG_MAX // (len(p[1]) if p[0] == "repeat" else 1)
            n = A.piece_size(p)
        if total + n > BIG_MAX:
            break
        out.append(p)
        total += n
    return out


def _mk_big_member(name, pieces):
    return {"name": name[:15], "style": "gnu", "gen": _fit(pieces), "mtime": 0, "uid": 0, "gid": 0, "mode": 0o644}


big_member_st = st.builds(_mk_big_member, name_st, st.lists(big_piece_st, min_size=1, max_size=4))
big_op_st = st.one_of(
    op_st,
    st.tuples(st.just("readlines"), idx_st),
    st.tuples(st.just("read"), idx_st, big_int_st),
    st.tuples(st.just("readline"), idx_st, big_int_st),
    st.tuples(st.just("read"), idx_st, big_int_st.map(lambda n: -n)),
    st.tuples(st.just("readline"), idx_st, big_int_st.map(lambda n: -n)),
    st.tuples(st.just("seek"), idx_st, st.sampled_from([0, 1, 2]), big_int_st),
    st.tuples(st.just("seek"), idx_st, st.just(0), st.integers(0, 12)),
    st.tuples(st.just("readlines"), idx_st, st.one_of(big_int_st, big_int_st, big_int_st.map(lambda n: -n))),
)
big_before_st = st.one_of(st.just([]), st.lists(
    st.one_of(before_part_st, st.tuples(st.just("noise"), st.integers(0, 9), big_int_st)), min_size=1, max_size=2))
big_case_st = st.fixed_dictionaries({
    "open": st.sampled_from(["fileobj", "filename"]),
    "members": st.builds(lambda before, big, after: before + [big] + after,
                         st.lists(member_st, max_size=1), big_member_st,
                         st.lists(st.one_of(member_st, big_member_st), max_size=1)),
    "ops": st.lists(big_op_st, min_size=1, max_size=12),
    "omit_final_pad": st.booleans(),
    "before": big_before_st,
    "then": then_st(st.lists(st.one_of(member_st, big_member_st), max_size=2)),
}).map(_settle_final_pad)


def externals_phase(shard, nshards, seed, deadline, rec):
    rec.note("external:ar:" + ("present" if A.AR_BIN else "missing"))


def sources(tier):
    # small sources first: the engine hands jobs to free workers in this order
    if tier == "quick":
        return [Custom("externals", externals_phase, shards=1),
                Hyp("ar-binary", case_st("ar"), 60, shards=1),
                Hyp("big-members-x-histories", big_case_st, 40, shards=2),
                Enum("big-members", big_cases(BIG_BLOCKS, ["fileobj", "filename"]), EXHAUSTIVE_BIG),
                Hyp("archives-x-histories", case_st(), 1200, shards=8),
                Enum("header-columns", enum_header_cases(["fileobj", "filename"]), EXHAUSTIVE_HEADER),
                Enum("readlines-hints", enum_hint_cases(HINT_PLAN_QUICK), EXHAUSTIVE_HINTS["quick"]),
                Enum("size-arguments", enum_size_cases(SIZE_PLAN_QUICK), EXHAUSTIVE_SIZES["quick"]),
                Enum("archive-at-offset", enum_offset_cases(OFFSET_QUICK), EXHAUSTIVE_OFFSET["quick"]),
                Enum("no-final-pad", enum_final_pad_cases(FINAL_PAD_QUICK), EXHAUSTIVE_FINAL_PAD["quick"]),
                Enum("close-x-siblings", enum_close_cases(CLOSE_QUICK), EXHAUSTIVE_CLOSE["quick"]),
                Enum("one-reopen", enum_reopen_cases(REOPEN_QUICK), EXHAUSTIVE_REOPEN["quick"]),
                Enum("replaced-archive", enum_replace_cases(REPLACE_QUICK), EXHAUSTIVE_REPLACE["quick"]),
                Enum("histories<=3", enum_cases(ENUM_QUICK), EXHAUSTIVE["quick"])]
    return [Custom("externals", externals_phase, shards=1),
            Hyp("ar-binary", case_st("ar"), 150, shards=4),
            Hyp("big-members-x-histories", big_case_st, 150, shards=8),
            Enum("big-members", big_cases(BIG_BLOCKS, ["fileobj", "filename"]), EXHAUSTIVE_BIG),
            Hyp("archives-x-histories", case_st(), 6000, shards=16),
            Enum("header-columns", enum_header_cases(["fileobj", "filename"]), EXHAUSTIVE_HEADER),
            Enum("readlines-hints", enum_hint_cases(HINT_PLAN_THOROUGH), EXHAUSTIVE_HINTS["thorough"]),
            Enum("size-arguments", enum_size_cases(SIZE_PLAN_THOROUGH), EXHAUSTIVE_SIZES["thorough"]),
            Enum("archive-at-offset", enum_offset_cases(OFFSET_THOROUGH), EXHAUSTIVE_OFFSET["thorough"]),
            Enum("no-final-pad", enum_final_pad_cases(FINAL_PAD_THOROUGH), EXHAUSTIVE_FINAL_PAD["thorough"]),
            Enum("close-x-siblings", enum_close_cases(CLOSE_THOROUGH), EXHAUSTIVE_CLOSE["thorough"]),
            Enum("one-reopen", enum_reopen_cases(REOPEN_THOROUGH), EXHAUSTIVE_REOPEN["thorough"]),
            Enum("replaced-archive", enum_replace_cases(REPLACE_THOROUGH), EXHAUSTIVE_REPLACE["thorough"]),
            Enum("histories<=4", enum_cases(ENUM_THOROUGH), EXHAUSTIVE["thorough"])]
