"""C06 - ar members are exact, isolated, file-like views of the archive.

case = {
  "open":    "fileobj" | "filename",     one shared BytesIO  /  a file in a per-case temp dir
                                         (members re-open it lazily by name)
  "writer":  "harness" | "ar",           optional; "ar": the archive is additionally built by
                                         binutils ``ar qcD`` and must be byte-identical to ours
  "members": [{"name": str, "style": "gnu" | "pad", "data": latin-1 str,
               "mtime": int, "uid": int, "gid": int, "mode": int}, ...],
  "ops":     [op, ...]                   the history; member indices are taken modulo len(members)
}
op = ["read", i]            m.read()                 ["read", i, n]      m.read(n), n >= 1
     ["readline", i]        m.readline()             ["readline", i, n]  m.readline(n), n >= 0
     ["readlines", i]       m.readlines()            ["tell", i]         m.tell()
     ["close", i]           m.close()
     ["seek", i, whence, target]   m.seek(target - base, whence) with base = 0 | current position |
                                   member size: *target* >= 0 is the absolute position aimed at, so
                                   every generated seek has a non-negative target by construction.
"""
import io
import itertools
import os
import shutil
import tempfile

from hypothesis import strategies as st

from ..core import Violation, Enum, Hyp, Custom, short, s2b
from ..gen import c06_archives as A

from debian.arfile import ArFile

ID = "C06"
LEVEL = "exploration"
RULE = ("cases are (open mode, 0..5 members with name/style/binary data/metadata, history of 1..25 "
        "read/read(n)/readline/readline(n)/readlines/seek/tell/close operations interleaved over all "
        "members); after every step the returned value and the tell() of *every* member are compared "
        "with an io.BytesIO shadow per member. Enumerated: every history of <=3 operations (thorough: "
        "<=4 for four of the contents) from a 14-operation alphabet x 2 members, over 8 first-member "
        "contents, both open modes (filename mode one operation shorter); generated: Hypothesis archives x histories; thorough also builds "
        "the archive with binutils ar. Non-trivial = >=2 members and (a readline/readlines call that "
        "has to return the unterminated last line of its member, or a read-family call that starts "
        "at a position beyond the member's end); distinct = distinct canonical JSON of the case")
ASSUMPTIONS = [
    "io.BytesIO over the member's bytes is the reference file object",
    "the harness ar writer (vcheck/gen/c06_archives.py) follows ar(5); cross-checked byte for byte "
    "against binutils ar qcD in the ar-binary source when /usr/bin/ar exists",
    "read(0)/negative sizes, readlines(hint), negative seek targets, next()/iteration are outside "
    "the statement and never generated; seek()'s return value is not compared (checked via tell())",
    "Hypothesis 6.168 generators; sha1 for distinctness",
]
EXHAUSTIVE = {
    "quick": "all histories of 1..3 operations from a 14-operation alphabet on each of 2 members, x 8 "
             "contents of the first member (fileobj mode); histories of 1..2 operations in filename mode",
    "thorough": "all histories of 1..3 operations from a 14-operation alphabet on each of 2 members, x 8 "
                "contents of the first member, in both open modes; histories of 4 operations for the first-member "
                "contents 'a', 'ab', 'a\\n', 'a\\nb' (odd/even size x with/without final newline) in fileobj mode",
}
BUDGET = {"quick": 200, "thorough": 1500}

NAME_ALPHABET = "abcdefghijklmnopqrstuvwxyzABCDEFGHIJKLMNOPQRSTUVWXYZ0123456789._+-"


# ------------------------------------------------------------------------------------------
# case validation (replay files written by hand, nothing else: generators construct valid cases)


def _valid_member(m):
    try:
        name = s2b(m["name"])
        s2b(m["data"])
    except (UnicodeEncodeError, KeyError, TypeError, AttributeError):
        return False
    if m.get("style", "gnu") not in ("gnu", "pad"):
        return False
    if not A.ar_name_fits(name, m.get("style", "gnu")):
        return False
    if any(c not in NAME_ALPHABET for c in m["name"]):
        return False
    return (0 <= m.get("mtime", 0) < 10 ** 12 and 0 <= m.get("uid", 0) < 10 ** 6
            and 0 <= m.get("gid", 0) < 10 ** 6 and 0 <= m.get("mode", 0) < 8 ** 8)


def _valid_op(op):
    if not isinstance(op, list) or len(op) < 2 or not isinstance(op[1], int) or op[1] < 0:
        return False
    k, n = op[0], len(op)
    if k in ("readlines", "tell", "close"):
        return n == 2
    if k == "read":
        return n == 2 or (n == 3 and isinstance(op[2], int) and op[2] >= 1)
    if k == "readline":
        return n == 2 or (n == 3 and isinstance(op[2], int) and op[2] >= 0)
    if k == "seek":
        return n == 4 and op[2] in (0, 1, 2) and isinstance(op[3], int) and op[3] >= 0
    return False


def valid_case(case):
    return (isinstance(case, dict) and case.get("open") in ("fileobj", "filename")
            and case.get("writer", "harness") in ("harness", "ar")
            and isinstance(case.get("members"), list) and isinstance(case.get("ops"), list)
            and all(isinstance(m, dict) and _valid_member(m) for m in case["members"])
            and all(_valid_op(op) for op in case["ops"]))


# ------------------------------------------------------------------------------------------
# oracle


def _family(kind):
    return "readline" if kind in ("readline", "readlines") else kind


def _situation(kind, start, size, exp):
    """Where, relative to the member's end, did this read-family call work?  (From the shadow only.)

    start-beyond-end        the call starts at a position past the member's end
    unterminated-last-line  a line-oriented call has to return the member's last line, which has
                            no newline (the line is ended by the member's end, not by its data)
    at-member-end           any other call whose result reaches the member's end (incl. the
                            empty result at the end, and readlines(), which always runs to the end)
    inside-member           the result ends before the member does
    """
    if start > size:
        return "start-beyond-end"
    pieces = exp if kind == "readlines" else [exp]
    reaches_end = kind == "readlines" or start + len(exp) >= size
    if not reaches_end:
        return "inside-member"
    if kind != "read" and pieces and pieces[-1] and not pieces[-1].endswith(b"\n") \
            and start + sum(map(len, pieces)) == size:
        return "unterminated-last-line"
    return "at-member-end"


def _listing(ar, ms, labels):
    exp_names = [m["name"].decode("ascii") for m in ms]
    names = ar.getnames()
    if names != exp_names:
        raise Violation("listing-names", "getnames() = %s, archive holds %s" % (short(names), short(exp_names)))
    mem = ar.getmembers()
    if not isinstance(mem, list) or len(mem) != len(ms):
        raise Violation("listing-names", "getmembers() has %s entries, archive holds %d" % (
            len(mem) if isinstance(mem, list) else type(mem).__name__, len(ms)))
    exp = [(m["name"].decode("ascii"), len(m["data"]), m["uid"], m["gid"], m["mtime"]) for m in ms]
    got = [(x.name, x.size, x.owner, x.group, x.mtime) for x in mem]
    if got != exp:
        raise Violation("listing-metadata", "(name,size,owner,group,mtime): got %s, recorded %s" % (
            short(got), short(exp)))
    if list(ar.members) != mem or list(iter(ar)) != mem:
        raise Violation("listing-names", ".members / iter() disagree with getmembers()")
    last = {}
    for i, n in enumerate(exp_names):
        last[n] = i
    for n, i in sorted(last.items()):
        for how, fn in (("getmember", ar.getmember), ("[]", ar.__getitem__)):
            try:
                got_m = fn(n)
            except KeyError:
                raise Violation("lookup-by-name", "%s(%r) raised KeyError, member %d has that name" % (how, n, i))
            if got_m is not mem[i]:
                which = [j for j, x in enumerate(mem) if x is got_m]
                raise Violation("lookup-by-name", "%s(%r) gave member %s, the last one of that name is %d" % (
                    how, n, which or "unknown", i))
    absent = ["", "no-such-member"]
    for n in exp_names[:2]:
        absent += [n + "/", n[:-1], n.swapcase(), n + " "]
    for n in absent:
        if n in last:
            continue
        try:
            r = ar.getmember(n)
        except KeyError:
            continue
        raise Violation("lookup-missing-name", "getmember(%r) returned %s (names: %s)" % (
            n, short(getattr(r, "name", r)), short(exp_names)))
    if len(last) < len(exp_names):
        labels.add("duplicate-names")
    return mem


def _run_history(mem, ms, ops, labels):
    """Apply ops to the real members and to BytesIO shadows; compare after every step.

    Returns True when the history met the non-triviality rule's second half.
    """
    datas = [m["data"] for m in ms]
    shadows = [io.BytesIO(d) for d in datas]
    interesting = False
    touched_prev = None
    closed = set()
    for step, op in enumerate(ops):
        kind = op[0]
        i = op[1] % len(mem)
        m, s, size = mem[i], shadows[i], len(datas[i])
        start = s.tell()
        got = exp = None
        sit = None
        if kind == "read":
            if len(op) == 2:
                got, exp = m.read(), s.read()
            else:
                got, exp = m.read(op[2]), s.read(op[2])
                labels.add("op:read(n)")
        elif kind == "readline":
            if len(op) == 2:
                got, exp = m.readline(), s.readline()
            else:
                got, exp = m.readline(op[2]), s.readline(op[2])
                labels.add("op:readline(n)")
        elif kind == "readlines":
            got, exp = m.readlines(), s.readlines()
        elif kind == "tell":
            got, exp = m.tell(), s.tell()
        elif kind == "seek":
            whence, target = op[2], op[3]
            off = target - (0, start, size)[whence]
            m.seek(off, whence)
            s.seek(off, whence)
            labels.add("seek-whence:%d" % whence)
            if off < 0:
                labels.add("seek-negative-offset")
            if target > size:
                labels.add("seek-beyond-end")
        elif kind == "close":
            m.close()
            closed.add(i)
        labels.add("op:" + kind)
        what = "step %d %s on member %d (%d bytes, position %d)" % (step, op, i, size, start)

        if kind in ("read", "readline", "readlines"):
            sit = _situation(kind, start, size, exp)
            if i in closed:
                labels.add("read-after-close")
                closed.discard(i)
            if sit == "start-beyond-end":
                labels.add("read-starts-beyond-end")
                interesting = True
            if sit == "unterminated-last-line":
                labels.add("readline-returns-unterminated-last-line")
                interesting = True
            if sit == "at-member-end" and start == size:
                labels.add("read-at-exact-end")
            ok = (type(got) is type(exp) and got == exp
                  and (kind != "readlines" or all(type(x) is bytes for x in got)))
            if not ok:
                leak = ""
                flat = b"".join(got) if isinstance(got, list) and all(isinstance(x, bytes) for x in got) else got
                if isinstance(flat, bytes) and len(flat) > max(0, size - start):
                    leak = " - returns bytes from outside the member"
                raise Violation("%s:%s" % (_family(kind), sit), "%s returned %s, an in-memory file gives %s%s" % (
                    what, short(got, 120), short(exp, 120), leak))
        elif kind == "tell":
            if type(got) is not int or got != exp:
                raise Violation("tell", "%s returned %r, expected %r" % (what, got, exp))

        for j, (mm, ss) in enumerate(zip(mem, shadows)):
            tj, ej = mm.tell(), ss.tell()
            if tj == ej:
                continue
            if j != i:
                raise Violation("isolation", "%s moved member %d: tell() = %r, expected %r" % (what, j, tj, ej))
            fam = _family(kind)
            sig = "%s:%s" % (fam, sit) if sit else fam
            raise Violation(sig, "%s left tell() = %r, an in-memory file is at %r" % (what, tj, ej))
        if touched_prev is not None and touched_prev != i and kind != "tell":
            labels.add("interleaved-members")
        if kind not in ("tell",):
            touched_prev = i
    return interesting


def check(case):
    if not valid_case(case):
        return (False, ("invalid-case-skipped",))
    ms = [dict(name=s2b(m["name"]), style=m.get("style", "gnu"), data=s2b(m["data"]),
               mtime=m.get("mtime", 0), uid=m.get("uid", 0), gid=m.get("gid", 0),
               mode=m.get("mode", 0o100644)) for m in case["members"]]
    raw, _ = A.ar_archive(ms)
    labels = set(["open:" + case["open"], "members:%s" % (len(ms) if len(ms) < 3 else "3+")])
    for m in ms:
        d = m["data"]
        labels.add("member-size-odd" if len(d) % 2 else "member-size-even")
        if not d:
            labels.add("member-empty")
        elif d.strip(b"\n") == b"":
            labels.add("member-newlines-only")
        elif d.endswith(b"\n"):
            labels.add("member-ends-with-newline")
        else:
            labels.add("member-without-final-newline")
        labels.add("style:" + m["style"])
        if len(m["name"]) >= 15:
            labels.add("name-fills-field")
    workdir = None
    mem = []
    try:
        if case["open"] == "filename" or case.get("writer") == "ar":
            workdir = tempfile.mkdtemp(prefix="vcheck-c06-")
        if case.get("writer") == "ar":
            if A.AR_BIN is None:
                labels.add("ar-binary:missing")
            else:
                built = A.ar_binary_archive(ms, workdir)
                if built is None:
                    labels.add("ar-binary:not-applicable")
                elif built == raw:
                    labels.add("ar-binary:identical-to-harness-writer")
                elif built[8:24] == b"/".ljust(16):
                    # bfd took some member's bytes for an object file and ar prepended a symbol
                    # table member "/": no longer an archive of short-named members only
                    labels.add("ar-binary:added-a-symbol-table")
                else:
                    # never an alarm: the second writer only vouches for the first
                    labels.add("ar-binary:differs-from-harness-writer")
        if case["open"] == "filename":
            path = os.path.join(workdir, "case.a")
            with open(path, "wb") as f:
                f.write(raw)
            ar = ArFile(filename=path)
        else:
            ar = ArFile(fileobj=io.BytesIO(raw))
        mem = _listing(ar, ms, labels)
        interesting = False
        if mem:
            interesting = _run_history(mem, ms, case["ops"], labels)
        return (len(ms) >= 2 and interesting, sorted(labels))
    finally:
        for m in mem:
            try:
                m.close()       # cleanup of lazily opened handles, not part of the oracle
            except Exception:   # pylint: disable=broad-except
                pass
        if workdir is not None:
            shutil.rmtree(workdir, ignore_errors=True)


# ------------------------------------------------------------------------------------------
# bounded-exhaustive histories

ENUM_OPS = [
    ["read"], ["read", 1], ["read", 2], ["readline"], ["readline", 0], ["readline", 1], ["readlines"],
    ["seek", 0, 0], ["seek", 0, 1], ["seek", 1, 2], ["seek", 2, 1], ["seek", 0, 7], ["tell"], ["close"],
]
ENUM_FIRST = ["", "\n", "a", "a\n", "a\nb", "\n\n", "ab", "a\nbc\n"]


def _enum_member(name, data):
    return {"name": name, "style": "gnu", "data": data, "mtime": 0, "uid": 0, "gid": 0, "mode": 0o100644}


ENUM_DEEP = ["a", "ab", "a\n", "a\nb"]


def enum_cases(plan):
    """plan: list of (open mode, first-member contents, history lengths)."""
    symbols = [[o[0], i] + o[1:] for i in (0, 1) for o in ENUM_OPS]

    def gen():
        for mode, firsts, lengths in plan:
            for first in firsts:
                members = [_enum_member("a", first), _enum_member("b", "x\ny")]
                for n in lengths:
                    for seq in itertools.product(symbols, repeat=n):
                        yield {"open": mode, "members": members, "ops": [list(o) for o in seq]}
    return gen


ENUM_QUICK = [("fileobj", ENUM_FIRST, (1, 2, 3)), ("filename", ENUM_FIRST, (1, 2))]
ENUM_THOROUGH = [("fileobj", ENUM_FIRST, (1, 2, 3)), ("filename", ENUM_FIRST, (1, 2, 3)),
                 ("fileobj", ENUM_DEEP, (4,))]


# ------------------------------------------------------------------------------------------
# Hypothesis generators

NAME_POOL = ["a", "b", "A", "x.o", "debian-binary", "control.tar.gz", "data.tar.xz", "a.b_c+d-e",
             "-", ".", "123456789012345"]
CHUNKS = ["\n", "\n", "a", "bc", "line", "\x00", "`\n", "!<arch>\n", "\r\n", "\xff", " ", "\n\n",
          "x/              0           0     0     100644  2         `\n"]

name_st = st.one_of(st.sampled_from(NAME_POOL), st.text(alphabet=NAME_ALPHABET, min_size=1, max_size=16))
data_st = st.one_of(
    st.lists(st.sampled_from(CHUNKS), max_size=8).map(lambda l: "".join(l)[:64]),
    st.binary(max_size=40).map(lambda b: b.decode("latin-1")),
    st.sampled_from(["", "\n", "a", "a\n", "line1\nline2", "line1\nline2\n", "\n\n\n"]),
)
mtime_st = st.one_of(st.just(0), st.integers(0, 10 ** 12 - 1), st.integers(1, 2 * 10 ** 9))
id_st = st.one_of(st.just(0), st.integers(0, 999999))
mode_st = st.sampled_from([0o100644, 0o644, 0o100755, 0, 0o77777777])


def _mk_member(name, style, data, mtime, uid, gid, mode):
    if style == "gnu":
        name = name[:15]
    return {"name": name, "style": style, "data": data, "mtime": mtime, "uid": uid, "gid": gid, "mode": mode}


member_st = st.builds(_mk_member, name_st, st.sampled_from(["gnu", "pad"]), data_st, mtime_st, id_st, id_st, mode_st)
plain_member_st = st.builds(
    _mk_member, name_st.map(lambda n: "dot" if n in (".", "..") else n), st.just("gnu"), data_st,
    st.just(0), st.just(0), st.just(0), st.just(0o644))

idx_st = st.integers(0, 5)
op_st = st.one_of(
    st.tuples(st.just("read"), idx_st),
    st.tuples(st.just("read"), idx_st, st.integers(1, 45)),
    st.tuples(st.just("readline"), idx_st),
    st.tuples(st.just("readline"), idx_st),
    st.tuples(st.just("readline"), idx_st, st.integers(0, 45)),
    st.tuples(st.just("readlines"), idx_st),
    st.tuples(st.just("seek"), idx_st, st.sampled_from([0, 1, 2]), st.integers(0, 50)),
    st.tuples(st.just("seek"), idx_st, st.sampled_from([0, 1, 2]), st.integers(0, 12)),
    st.tuples(st.just("tell"), idx_st),
    st.tuples(st.just("close"), idx_st),
)
ops_st = st.lists(op_st, min_size=1, max_size=25)


def case_st(writer="harness"):
    mst = member_st if writer == "harness" else plain_member_st
    members = st.one_of(st.lists(mst, min_size=0, max_size=5), st.lists(mst, min_size=2, max_size=5))
    fixed = {"open": st.sampled_from(["fileobj", "filename"]), "members": members, "ops": ops_st}
    if writer != "harness":
        fixed["writer"] = st.just(writer)
    return st.fixed_dictionaries(fixed)


def externals_phase(shard, nshards, seed, deadline, rec):
    rec.note("external:ar:" + ("present" if A.AR_BIN else "missing"))


def sources(tier):
    # small sources first: the engine hands jobs to free workers in this order
    if tier == "quick":
        return [Custom("externals", externals_phase, shards=1),
                Hyp("ar-binary", case_st("ar"), 60, shards=1),
                Hyp("archives-x-histories", case_st(), 1200, shards=8),
                Enum("histories<=3", enum_cases(ENUM_QUICK), EXHAUSTIVE["quick"])]
    return [Custom("externals", externals_phase, shards=1),
            Hyp("ar-binary", case_st("ar"), 150, shards=4),
            Hyp("archives-x-histories", case_st(), 6000, shards=16),
            Enum("histories<=4", enum_cases(ENUM_THOROUGH), EXHAUSTIVE["thorough"])]
