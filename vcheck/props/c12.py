"""C12 - structured multi-line fields round-trip as records and can always be dumped.

case = {"kind":  "build" | "parse" | "newline" | "edit",
        "cls":   "Dsc" | "Changes" | "BuildInfo" | "Release" | "PdiffIndex",
        "dak":   bool                       (Release only: size_field_behavior = "dak")
        "cfg":   [[route, value], ...]      (Release only, optional: HOW the configuration is chosen - a history of
                                             assignments through route "attr" (para.size_field_behavior = value) or
                                             "method" (para.set_size_field_behavior(value)); value "dak" |
                                             "apt-ftparchive" | any other string (must be refused); when present,
                                             "dak" is what the history leaves behind.  Absent: attribute, once)
        "fill":  "assign" | "append" | "split" | "setsub"   (build, edit from build: how the records get into the paragraph)
        "items": [ ["s", field, [[token, ...], ...], single_line], ["p", name, value], ... ]
        "pad":   int                        (parse: width the harness pads the size column to)
        "fold":  [field, ...]               (parse: fields written with their first record on the header line)
        "want":  null | [name, ...]         (parse: the documented fields= parameter, null = not passed)
        "via":   "ctor" | "iter"            (parse: cls(text, ...) or the one paragraph of cls.iter_paragraphs(text, ...))
        "nl":    [item, record, component, position]   (newline: where a "\\n" is injected)
        "ops":   [op, ...]                  (build, parse: ordinary mapping operations applied to the
                                             paragraph between building / parsing it and dumping it)
        "start": "build" | "parse", "steps": [step, ...]   (edit)
        "others": [{"how": "parse" | "build", "cls":, "dak":, "items":}, ...]   (edit, build; optional: up to four
                                             OTHER paragraphs, any class - the bystanders, see below)}

  op       ["sort"] | ["sortkey", "lower"|"reversed"|"length"] | ["first", i] | ["last", i] |
           ["before", i, j] | ["after", i, j] | ["copy"]: sort_fields(), sort_fields(key=...),
           order_first/last/before/after(field[, reference]) (i, j index the paragraph's fields modulo
           their number; i == j is skipped) and "go on with paragraph.copy()".  None of them touches a
           value, so the paragraph must dump every field it was given, each laid out exactly as
           without the operation.  WHERE the fields end up is those methods' business, not this
           property's: after an operation the dump must hold the same field names (any order).
           copy() is not asserted to succeed (it raises on the pinned tree as soon as a structured
           field is present - reported, outside the statement); when it does, the copy is dumped.
  step     ["set"|"setlower"|"inplace"|"append", item] | ["del", k] | ["setsub", k, i, j, token, size] |
           ["cfg", route, value] | op

  cfg      every route to a configuration is the same configuration: after a valid value went in through
           either route, size_field_behavior reads that value back and the dump is laid out for it
           (also when it is changed back, or changed on a paragraph that was dumped before: edit step
           "cfg"); a value other than the two documented ones is refused with ValueError and leaves
           the configuration as it was; a fresh / freshly parsed Release reads "apt-ftparchive".
  fill     "assign": para[field] = complete list (or the one dict of the single-line form);
           "append": para[field] = [] and then para[field].append(record) for each record;
           "split": the first half assigned, the rest appended through para[field];
           "setsub": records of placeholder tokens assigned, then every sub-field corrected through
           para[field][i][sub] = token (single-line form: para[field][sub] = token).
           The list / dict is always the one the PARAGRAPH hands out (asked for again before every
           change): what the library hands out is what it dumps.  Whether a list object the caller
           keeps after para[field] = L stays connected to the paragraph is not promised by the
           statement (nor by a docstring, docs/ or the README) and is NOT exercised.

  build    assign the records (lists of dicts keyed by the documented sub-field names) into an
           empty instance in the order of "items", dump, inspect the text, parse it again
  parse    the harness writes the text in the documented column order, parses it, compares the
           records, dumps (must not fail whatever subset is present), parses the dump again.
           The text is one record per continuation line under a bare "Field:" header (what dump()
           writes) or, for the fields in "fold" that have >= 2 records, the folded spelling with
           record 0 on the header line ("Files: aa 1 n0\n bb 2 n1").  With "want" the parse is
           asked for a subset of the fields that are in the text (ordinary and structured, any
           position): the result must hold exactly those fields, each with exactly its own
           records / value, and must dump like a paragraph that only ever held them.
  newline  as build, but one component contains a newline: dump must raise ValueError
  edit     one object, several dumps: after building / parsing, each step assigns a field (documented
           or lower-case spelling), changes a record list through the list object handed out by the
           paragraph ("inplace": list[:] = records; "append": list.append(record) for each record of
           the item; "setsub": record i of the k-th structured field gets sub-field j replaced, k / i / j
           modulo what is there, the size column takes "size", any other "token"), deletes a field,
           changes the Release configuration ("cfg") or applies a mapping operation; after every
           step the dump must be the one of a paragraph that holds just the current content in the
           current configuration

  bystanders   a paragraph shows exactly ITS OWN records - those of its text / of what was assigned to it -
           whatever was done before, or is done meanwhile, to another paragraph through the objects that one
           hands out.  Every edit case has a twin (the same text parsed / the same assignments made once
           more), and "others" adds paragraphs of the same or another class whose structured fields are
           empty, filled or absent.  Each of them exists once BEFORE the first step (a second live object)
           and is made once more AFTER every step (state left behind by earlier use); after every step all
           of them are read (documented sub-field names, values, order, no phantom field) and dumped (usual
           layout).  The edited paragraph itself is also read directly after every step, all of its fields,
           not only through its dump.  A build case with "others" looks at them after the paragraph was
           filled.  Violations found on a bystander carry the prefix "bystander:".  None of the other
           paragraphs is ever touched by the harness, so this demands nothing beyond the statement's
           'parsing exposes each line as a record' / 'built from any list ... re-parses to the same records'.

Empty record lists ("any list of whitespace-free records" includes the list of none): in the build
direction, in edit steps and - as the bare header 'Field:' with no line under it, which is what dump()
writes for one - in the texts of the parse direction, of parsed edit cases and of bystanders, for
every class, so that the empty lists the PARSER hands out are among the objects records are appended to /
slice-assigned into.  Demanded: the field reads as a container of length 0, dump() does not raise in any
class / configuration, the text is one paragraph (no empty line) with the bare header 'Field:', every
OTHER field is laid out as usual and re-parses to its records, the empty field re-parses to zero records,
and the re-parsed paragraph dumps to the same text again.

A structured item lists its tokens in the documented sub-field order of DOC below; "single_line"
(only for the *-Current fields of a pdiff Index) selects the one-record form written on the field's
first line, which the classes represent as a dict instead of a list of dicts.
"""
import itertools
import re

from hypothesis import strategies as st

from ..core import Violation, Enum, Hyp, short

from debian import deb822

ID = "C12"
LEVEL = "exploration"
RULE = ("cases are (class x Release size_field_behavior, ordered list of structured fields with 0..4 "
        "(newline cases: 1..4) "
        "records of whitespace-free tokens each and 0..3 ordinary fields, direction build|parse); "
        "enumerated: every subset of the four structured fields of Dsc, Changes, BuildInfo, "
        "Release(apt-ftparchive), Release(dak) and of the 14 fields of PdiffIndex (quick: subsets "
        "of size <=2 and >=12; thorough: all 2^14) x 3 deterministic record sets (one record / "
        "three records of different size widths up to 16 / sizes of 17 and 18 digits with non-ASCII "
        "tokens) x both directions; generated: Hypothesis subsets (sparse, half, dense), permuted "
        "assignment order, tokens from a 70-token pool of format meta-characters and non-ASCII "
        "letters, sizes of 1..18 digits, harness padding 0/16/20, newline injection; edit histories "
        "(1..3 assignments / in-place list changes / deletions / mapping operations on one object, a "
        "dump and a direct read of every field after each; start: built, or parsed from a text that may hold "
        "fields without records). Bystanders: every edit history is watched by the twin of the edited paragraph "
        "(same text / assignments) and, in 2 of 5 generated histories, by 1..2 more paragraphs (3 in 8 of the "
        "edited class, else any class / configuration; any non-empty subset of fields present, any subset of them "
        "without records; parsed, a third built), each alive before the first step AND made anew after every step, "
        "each read and dumped after every step: it must show exactly its own records; enumerated source "
        "bystanders-of-handed-out-objects (see its description). Mapping operations (sort_fields() with and without key=, order_first / "
        "order_last / order_before / order_after, copy()) are also an option of build and parse cases "
        "(0..3 of them between building / parsing and the dump; afterwards the dump must hold the same "
        "field names in any order, each laid out as usual) and have an enumerated source: every "
        "non-empty subset of the four-field classes, PdiffIndex all / all-but-one / one field, x "
        "{build, parse} x 11 operation lists. Empty record lists: one field (one in twelve: two) of a third of the "
        "generated build AND parse cases (hence of the paragraphs edit histories start from), a fifth of the items of "
        "edit steps; enumerated: every non-empty subset "
        "of the four-field classes x each present field (and all of them) empty, PdiffIndex all / one "
        "field, and edit histories that empty each field by assignment / in place after build / parse. "
        "Parse direction additionally: layout (bare 'Field:' header + one line per record, or the "
        "folded spelling with record 0 on the header line for any subset of the fields with >= 2 "
        "records), the documented fields= parameter (any non-empty subset of the fields in the text, "
        "ordinary and structured, any position: the result must hold exactly those fields with exactly "
        "their own records and dump like a paragraph that only held them) and the entry point "
        "(constructor | the one paragraph of iter_paragraphs); enumerated: all-folded spelling of "
        "every enumerated subset, and for the four-field classes every (present subset, wanted "
        "sub-subset, wanted ordinary fields, entry point, layout), for PdiffIndex all/all-but-one/one "
        "field present x wanted all-but-one/one/every-other. "
        "Routes to the same content and configuration: a built paragraph receives its records by assigning "
        "the complete list, by para[f] = [] + para[f].append(record), half and half, or as placeholders "
        "whose sub-fields are then set through para[f][i][sub] (generated: 3 in 5 built cases; always through "
        "the object the paragraph hands out, never through a list the caller kept); edit steps also append "
        "records and replace single sub-fields that way. The Release configuration is chosen through the "
        "attribute or through set_size_field_behavior(), once or as a history of 1..3 assignments that may "
        "include undocumented values (must raise ValueError and change nothing) - half of the generated Release "
        "cases - and is changed between two dumps by edit step cfg; after every assignment the attribute "
        "must read back the value in force, also after dump(). Both have an enumerated source (see EXHAUSTIVE). "
        "Non-trivial = a non-empty strict subset of the class's structured fields is present (in the "
        "text or, with fields=, in the result), an edit history with >= 1 applied step, or >= 1 mapping "
        "operation applied; "
        "distinct = distinct canonical JSON")
ASSUMPTIONS = [
    "sub-field names and column order are the table in the module docstring of deb822.py (copied "
    "into DOC); BuildInfo is not listed there, its names are those of deb-buildinfo(5)'s "
    "Checksums-* fields as spelt by the class at the pinned commit",
    "record lists hold 0..4 records (more after edit step append); the empty list is generated where a paragraph "
    "is built, edited or parsed (text: the bare header 'Field:', dump()'s own spelling of it); every class / "
    "configuration must read it as zero records, dump it, re-parse it to zero records and dump that again "
    "(both former deviations are fixed in the tree under test, see replays/C12)",
    "bystanders: paragraphs the harness never touches (a twin of the edited one, paragraphs of the same and of "
    "other classes with empty / filled / absent structured fields; alive during the edits, or made after them "
    "in the same process) must read and dump as what their own text / assignments say; this is the statement's "
    "parse / round-trip clause applied to a process in which other paragraphs were used before, nothing more. "
    "Cases do not depend on each other, but state a defective tree leaks from one case into the next of the "
    "same worker process is visible to the later case (only ever as a violation of that later case)",
    "Release configuration: the two documented values are 'apt-ftparchive' (documented default) and 'dak'; "
    "set_size_field_behavior(v) and assigning the attribute are the two public routes and must be "
    "indistinguishable; any other string must be refused with ValueError (what the class raises, and the "
    "only way 'dump never fails' can hold afterwards) leaving the configuration untouched",
    "records reach / are changed in a paragraph only through objects the paragraph hands out (para[f], "
    "para[f][i]); whether a list kept by the caller after para[f] = L stays aliased is not promised by the "
    "statement, a docstring, docs/ or README (only an internal comment says 'we allow mutable lists') and "
    "is neither asserted nor relied upon",
    "mapping operations: where sort_fields / order_* put the fields is not part of this property; "
    "after one the dump must hold the same set of field names and lay each one out as before. "
    "copy() may raise (it does on the pinned tree whenever a structured field is present - "
    "reported); a Release copy gets size_field_behavior set again by the harness",
    "tokens are non-empty, printable, whitespace-free strings; sizes are digit strings",
    "alignment: one blank, hash, one blank, size right-aligned in a column of width W "
    "(16 for apt-ftparchive, longest size of that field for dak and PdiffIndex); a size longer "
    "than W is printed unpadded; the single-line *-Current form is not padded",
    "the folded spelling 'Field: rec0\\n rec1' of a structured field is inside 'parsing exposes each "
    "line as a record': the format lets a folded value start on the header line and the pinned "
    "commit reads it as the records in order (one record alone on the header line is the "
    "single-line dict form, so folding needs >= 2 records)",
    "fields= names are compared with the spelling used in the text (the harness uses the documented "
    "spelling for both); a parse that wants nothing at all is not generated",
    "Hypothesis 6.168 generators; sha1 for distinctness",
]
EXHAUSTIVE = {
    "quick": "all 16 subsets of the structured fields of Dsc, Changes, BuildInfo, Release x {apt-ftparchive, dak}; "
             "all subsets of size <=2 or >=12 of the 14 PdiffIndex fields; x 3 record sets x {build, parse}; "
             "parse-layouts-and-field-filters, mapping-operations, empty-record-lists, release-configuration-routes, "
             "records-through-handed-out-objects, bystanders-of-handed-out-objects: see those sources' descriptions",
    "thorough": "all 16 subsets of the structured fields of Dsc, Changes, BuildInfo, Release x {apt-ftparchive, dak}; "
                "all 2^14 subsets of the PdiffIndex fields; x 3 record sets x {build, parse}; "
                "parse-layouts-and-field-filters, mapping-operations, empty-record-lists, release-configuration-routes, "
                "records-through-handed-out-objects, bystanders-of-handed-out-objects: see those sources' descriptions",
}
BUDGET = {"quick": 300, "thorough": 1500}

# Copied from the "Overview of deb822 Classes" section of the module docstring of deb822.py
# (field spelling, sub-field names, column order) -- deliberately NOT read from _multivalued_fields.
DOC = {
    "Dsc": [
        ["Files", ["md5sum", "size", "name"]],
        ["Checksums-Sha1", ["sha1", "size", "name"]],
        ["Checksums-Sha256", ["sha256", "size", "name"]],
        ["Checksums-Sha512", ["sha512", "size", "name"]],
    ],
    "Release": [
        ["MD5Sum", ["md5sum", "size", "name"]],
        ["SHA1", ["sha1", "size", "name"]],
        ["SHA256", ["sha256", "size", "name"]],
        ["SHA512", ["sha512", "size", "name"]],
    ],
    "Changes": [
        ["Files", ["md5sum", "size", "section", "priority", "name"]],
        ["Checksums-Sha1", ["sha1", "size", "name"]],
        ["Checksums-Sha256", ["sha256", "size", "name"]],
        ["Checksums-Sha512", ["sha512", "size", "name"]],
    ],
    "PdiffIndex": [
        ["SHA1-Current", ["SHA1", "size"]],
        ["SHA1-History", ["SHA1", "size", "date"]],
        ["SHA1-Patches", ["SHA1", "size", "date"]],
        ["SHA1-Download", ["SHA1", "size", "filename"]],
        ["X-Unmerged-SHA1-History", ["SHA1", "size", "date"]],
        ["X-Unmerged-SHA1-Patches", ["SHA1", "size", "date"]],
        ["X-Unmerged-SHA1-Download", ["SHA1", "size", "filename"]],
        ["SHA256-Current", ["SHA256", "size"]],
        ["SHA256-History", ["SHA256", "size", "date"]],
        ["SHA256-Patches", ["SHA256", "size", "date"]],
        ["SHA256-Download", ["SHA256", "size", "filename"]],
        ["X-Unmerged-SHA256-History", ["SHA256", "size", "date"]],
        ["X-Unmerged-SHA256-Patches", ["SHA256", "size", "date"]],
        ["X-Unmerged-SHA256-Download", ["SHA256", "size", "filename"]],
    ],
    # not in the module docstring; deb-buildinfo(5) Checksums-Md5/-Sha1/-Sha256 + the class's Sha512
    "BuildInfo": [
        ["Checksums-Md5", ["md5", "size", "name"]],
        ["Checksums-Sha1", ["sha1", "size", "name"]],
        ["Checksums-Sha256", ["sha256", "size", "name"]],
        ["Checksums-Sha512", ["sha512", "size", "name"]],
    ],
}
SUBFIELDS = {c: dict((f, names) for f, names in fl) for c, fl in DOC.items()}
ALIGNED = ("Release", "PdiffIndex")
PLAIN_NAMES = ["Origin", "Source", "Version", "X-Comment", "Format", "Date", "Architecture"]


def is_current(field):
    return field.endswith("-Current")


def config_tag(case):
    if case["cls"] == "Release":
        return "Release-dak" if case.get("dak") else "Release-apt"
    return case["cls"]


# ------------------------------------------------------------------------------------------
# case validation (replay files may hold anything)


def _token_ok(t):
    return isinstance(t, str) and t != "" and t.isprintable() and not any(c.isspace() for c in t)


SORT_KEYS = {"lower": lambda k: k.lower(), "reversed": lambda k: k.lower()[::-1], "length": len}
MAPOPS = ("sort", "sortkey", "first", "last", "before", "after", "copy")


OTHER_KEYS = ("how", "cls", "dak", "items")
CFG_ROUTES = ("attr", "method")
CFG_VALUES = ("apt-ftparchive", "dak")          # the two documented values; the first is the documented default
FILLS = ("assign", "append", "split", "setsub")


def valid_cfg(step):
    return isinstance(step, list) and len(step) == 2 and isinstance(step[0], str) and step[0] in CFG_ROUTES \
        and isinstance(step[1], str)


def cfg_history(case):
    """The assignments that choose the configuration of a Release, in order."""
    if case["cls"] != "Release":
        return []
    if "cfg" in case:
        return case["cfg"]
    return [["attr", "dak"]] if case.get("dak") else []


def effective_dak(case):
    v = CFG_VALUES[0]
    for _route, value in cfg_history(case):
        if value in CFG_VALUES:
            v = value
    return v == "dak"


def _index_ok(x):
    return isinstance(x, int) and not isinstance(x, bool) and x >= 0


def valid_op(op):
    if not isinstance(op, list) or not op or op[0] not in MAPOPS:
        return False
    if op[0] in ("sort", "copy"):
        return len(op) == 1
    if op[0] == "sortkey":
        return len(op) == 2 and isinstance(op[1], str) and op[1] in SORT_KEYS
    return len(op) == (3 if op[0] in ("before", "after") else 2) and all(_index_ok(x) for x in op[1:])


def valid_case(case):
    if not isinstance(case, dict) or case.get("kind") not in ("build", "parse", "newline", "edit"):
        return False
    if case.get("kind") == "edit":
        steps = case.get("steps")
        if not isinstance(steps, list) or case.get("start") not in ("build", "parse"):
            return False
        for st_ in steps:
            if isinstance(st_, list) and st_ and st_[0] in MAPOPS:
                if not valid_op(st_):
                    return False
                continue
            if not isinstance(st_, list) or not st_ or st_[0] not in ("set", "setlower", "inplace", "append", "del",
                                                                      "setsub", "cfg"):
                return False
            if st_[0] == "del":
                if len(st_) != 2 or not isinstance(st_[1], int):
                    return False
            elif st_[0] == "cfg":
                if not valid_cfg(st_[1:]):
                    return False
            elif st_[0] == "setsub":
                if len(st_) != 6 or not all(_index_ok(x) for x in st_[1:4]) or not _token_ok(st_[4]) or \
                        not (_token_ok(st_[5]) and st_[5].isascii() and st_[5].isdigit()):
                    return False
            elif len(st_) != 2 or not valid_case({"kind": "build", "cls": case.get("cls"), "items": [st_[1]]}):
                return False
    if case.get("cls") not in DOC or not isinstance(case.get("items"), list):
        return False
    if "cfg" in case and not (isinstance(case["cfg"], list) and all(valid_cfg(c) for c in case["cfg"])):
        return False
    if case.get("fill", "assign") not in FILLS:
        return False
    sub = SUBFIELDS[case["cls"]]
    seen = set()
    # an empty record list ('Field:' with nothing under it) everywhere but where a newline is to be injected
    min_records = 1 if case["kind"] == "newline" else 0
    others = case.get("others", [])
    if not isinstance(others, list) or len(others) > 4 or (others and case["kind"] not in ("build", "edit")):
        return False
    for ot in others:
        if not isinstance(ot, dict) or ot.get("how") not in ("build", "parse") or set(ot) - set(OTHER_KEYS) or \
                not isinstance(ot.get("dak", False), bool) or \
                not valid_case({"kind": ot["how"], "cls": ot.get("cls"), "items": ot.get("items")}):
            return False
    if case["kind"] in ("build", "parse"):
        ops = case.get("ops", [])
        if not isinstance(ops, list) or not all(valid_op(op) for op in ops):
            return False
    for it in case["items"]:
        if not isinstance(it, list) or not it:
            return False
        if it[0] == "p":
            if len(it) != 3 or it[1] not in PLAIN_NAMES or not isinstance(it[2], str):
                return False
            v = it[2]
            if v == "" or not v.isprintable() or v != v.strip():
                return False
            name = it[1]
        elif it[0] == "s":
            if len(it) != 4 or it[1] not in sub or not isinstance(it[2], list):
                return False
            name, recs, single = it[1], it[2], it[3]
            if not min_records <= len(recs) <= 4:
                return False
            if single and (not is_current(name) or len(recs) != 1):
                return False
            for r in recs:
                if not isinstance(r, list) or len(r) != len(sub[name]):
                    return False
                for n, t in zip(sub[name], r):
                    if not _token_ok(t) or (n == "size" and not (t.isascii() and t.isdigit())):
                        return False
        else:
            return False
        if name.lower() in seen:
            return False
        seen.add(name.lower())
    if case["kind"] == "parse":
        if not isinstance(case.get("pad", 0), int) or case.get("via", "ctor") not in ("ctor", "iter"):
            return False
        fold = case.get("fold", [])
        if not isinstance(fold, list) or not all(isinstance(f, str) and f in sub for f in fold):
            return False
        want = case.get("want")
        names = [it[1] for it in case["items"]]
        if want is not None and not (isinstance(want, list) and want and len(set(want)) == len(want)
                                     and all(w in names for w in want)):
            return False
    if case["kind"] == "newline":
        nl = case.get("nl")
        if not (isinstance(nl, list) and len(nl) == 4 and all(isinstance(x, int) and x >= 0 for x in nl)):
            return False
    return True


# ------------------------------------------------------------------------------------------
# oracle helpers


def read_config(o, phase):
    try:
        return o.size_field_behavior
    except Exception as e:  # pylint: disable=broad-except
        raise Violation("config-readback", "%s: reading size_field_behavior raised %s: %s" % (
            phase, type(e).__name__, short(str(e), 100)))


def set_config(o, route, value, expected, labels, phase):
    """One assignment of the Release configuration through one of the two routes.
    expected = the configuration the object is in; returns the one it is in afterwards."""
    how = 'set_size_field_behavior(%r)' % value if route == "method" else 'size_field_behavior = %r' % value
    got = read_config(o, phase)
    if got != expected:
        raise Violation("config-readback", "%s: size_field_behavior reads %s before %s, the paragraph is in "
                        "configuration %r" % (phase, short(got, 60), how, expected))
    try:
        if route == "method":
            o.set_size_field_behavior(value)
        else:
            o.size_field_behavior = value
    except ValueError as e:
        if value in CFG_VALUES:
            raise Violation("config-refused", "%s: %s raised ValueError: %s" % (phase, how, short(str(e), 100)))
        labels.add("config:invalid-value-refused")
    except Exception as e:  # pylint: disable=broad-except
        raise Violation("config-route-raises:" + type(e).__name__, "%s: %s raised %s: %s" % (
            phase, how, type(e).__name__, short(str(e), 100)))
    else:
        if value not in CFG_VALUES:
            raise Violation("config-invalid-accepted", "%s: %s was accepted (documented values: %s)" % (
                phase, how, " | ".join(CFG_VALUES)))
        if value != expected:
            labels.add("config:changed-by-" + route)
        expected = value
    got = read_config(o, phase)
    if got != expected:
        raise Violation("config-readback", "%s: after %s size_field_behavior reads %s, expected %r" % (
            phase, how, short(got, 60), expected))
    labels.add("config-route:" + route)
    return expected


def configure(o, case, labels=None, phase="configuring"):
    """Put a Release into the case's configuration by the case's route(s)."""
    if case["cls"] != "Release":
        return
    labels = set() if labels is None else labels
    hist = cfg_history(case)
    cur = CFG_VALUES[0]
    if not hist:
        got = read_config(o, phase)
        if got != cur:
            raise Violation("config-readback", "%s: size_field_behavior of a Release nobody configured reads %s, "
                            "documented default %r" % (phase, short(got, 60), cur))
    for route, value in hist:
        cur = set_config(o, route, value, cur, labels, phase)
    if len(hist) > 1:
        labels.add("config:history-of-%d" % min(len(hist), 3))


def make_instance(case, labels=None):
    cls = getattr(deb822, case["cls"])
    o = cls()
    configure(o, case, labels, "new instance")
    return cls, o


def has_empty(items):
    return any(it[0] == "s" and not it[3] and not it[2] for it in items)


def dump_or_violation(o, case, phase, labels=None):
    """o.dump(); any exception is the property's 'dumping never fails' clause being broken.
    (``labels`` is kept for callers; no failure is tolerated any more since the empty-list repair.)
    A Release must still be in the configuration it was put into."""
    try:
        text = o.dump()
    except Exception as e:  # pylint: disable=broad-except
        present = [it[1] for it in case["items"] if it[0] == "s"]
        raise Violation("dump-raises:%s:%s" % (config_tag(case), type(e).__name__),
                        "%s: dump() of a %s holding only %s raised %s: %s" % (
                            phase, config_tag(case), present, type(e).__name__, short(str(e), 120)))
    if not isinstance(text, str):
        raise Violation("dump-not-text", "%s: dump() returned %s" % (phase, short(text, 80)))
    if case["cls"] == "Release":
        want = CFG_VALUES[1 if case.get("dak") else 0]
        got = read_config(o, phase)
        if got != want:
            raise Violation("config-readback", "%s: after dump() size_field_behavior reads %s, the paragraph was "
                            "put into configuration %r" % (phase, short(got, 60), want))
    return text


def split_dump(text, phase):
    """[(name, rest of first line, [continuation lines])] by the two layout rules of the format."""
    if text and not text.endswith("\n"):
        raise Violation("dump-layout", "%s: dump does not end with a newline: %s" % (phase, short(text, 120)))
    out = []
    for line in text.split("\n")[:-1]:
        if line[:1] == " ":
            if not out:
                raise Violation("dump-layout", "%s: continuation line first: %s" % (phase, short(text, 120)))
            out[-1][2].append(line)
        else:
            name, colon, rest = line.partition(":")
            if line == "":
                raise Violation("dump-layout", "%s: empty line inside the dumped paragraph (re-parsing stops there): %s" % (
                    phase, short(text, 150)))
            if not colon:
                raise Violation("dump-layout", "%s: line without colon %s" % (phase, short(line, 120)))
            out.append((name, rest, []))
    return out


def width_for(case, recs_tokens, names):
    if case["cls"] == "Release" and not case.get("dak"):
        return 16
    si = names.index("size")
    return max(len(r[si]) for r in recs_tokens)


def check_layout(text, case, phase, any_order=False):
    """Column order for every class, size-column alignment for Release and PdiffIndex.
    Returns the items in the order of the dump (any_order: after a mapping operation the dump must
    hold the same names, wherever the operation put them)."""
    sub = SUBFIELDS[case["cls"]]
    fields = split_dump(text, phase)
    got_names = [f[0] for f in fields]
    exp_names = [it[1] for it in case["items"]]
    items = case["items"]
    if any_order and sorted(got_names) == sorted(exp_names):
        by_name = dict((it[1], it) for it in items)
        items = [by_name[n] for n in got_names]
    elif got_names != exp_names:
        raise Violation("dump-field-list", "%s: dump has fields %s, paragraph was given %s%s" % (
            phase, short(got_names, 150), short(exp_names, 150), " (any order)" if any_order else ""))
    for (name, rest, cont), it in zip(fields, items):
        if it[0] == "p":
            continue
        names, recs, single = sub[name], it[2], it[3]
        if single:
            if cont or rest.split() != recs[0]:
                raise Violation("dump-columns", "%s: %s single-line form dumped as %s" % (
                    phase, name, short([rest] + cont, 150)))
            continue
        if rest.strip() != "" or len(cont) != len(recs):
            raise Violation("dump-columns", "%s: %s with %d records dumped as first line %r + %d lines" % (
                phase, name, len(recs), rest, len(cont)))
        for line, r in zip(cont, recs):
            if line.split() != r:
                raise Violation("dump-columns", "%s: %s record %s dumped as %s (documented order %s)" % (
                    phase, name, short(r, 100), short(line, 100), ", ".join(names)))
        if case["cls"] in ALIGNED and recs:
            w = width_for(case, recs, names)
            si = names.index("size")
            for line, r in zip(cont, recs):
                m = re.match(r" (\S+) ( *)(\S+)(?: (\S+))?\Z", line)
                if not m or m.group(1) != r[0] or m.group(3) != r[si]:
                    raise Violation("size-alignment", "%s: %s line %r is not ' hash', ' ', padded size, rest" % (
                        phase, name, line))
                col = len(m.group(2)) + len(m.group(3))
                if col != max(w, len(r[si])):
                    raise Violation("size-alignment", "%s: %s (%s): size column of %r is %d wide, documented width %d" % (
                        phase, name, config_tag(case), line, col, w))
    return items


def compare_records(o, case, phase):
    sub = SUBFIELDS[case["cls"]]
    for it in case["items"]:
        if it[0] == "p":
            try:
                v = o[it[1]]
            except KeyError:
                raise Violation("ordinary-field-differs", "%s: %s missing" % (phase, it[1]))
            if v != it[2]:
                raise Violation("ordinary-field-differs", "%s: %s reads %s, expected %s" % (
                    phase, it[1], short(v, 100), short(it[2], 100)))
            continue
        name, recs, single = it[1], it[2], it[3]
        names = sub[name]
        try:
            v = o[name]
        except KeyError:
            raise Violation("structured-field-missing", "%s: %s not in the parsed paragraph" % (phase, name))
        if not recs:
            # 'Field:' alone: zero records, whatever container the class chooses for them
            if not hasattr(v, "__len__") or len(v) != 0:
                raise Violation("record-count", "%s: %s was given no records, reads %s" % (phase, name, short(v, 100)))
            continue
        if single:
            if not hasattr(v, "keys"):
                raise Violation("record-shape", "%s: single-line %s parsed as %s" % (phase, name, short(v, 100)))
            got = [v]
        else:
            if not isinstance(v, list):
                raise Violation("record-shape", "%s: multi-line %s parsed as %s" % (phase, name, short(v, 100)))
            got = v
        if len(got) != len(recs):
            raise Violation("record-count", "%s: %s has %d records, expected %d" % (phase, name, len(got), len(recs)))
        for g, r in zip(got, recs):
            if not hasattr(g, "keys"):
                raise Violation("record-shape", "%s: %s record is %s" % (phase, name, short(g, 100)))
            gk = list(g.keys())
            if sorted(gk) != sorted(names):
                raise Violation("subfield-names", "%s: %s %s record has sub-fields %s, documented %s" % (
                    phase, case["cls"], name, gk, names))
            vals = [g[n] for n in names]
            if vals != r:
                raise Violation("record-values", "%s: %s %s record reads %s, expected %s" % (
                    phase, case["cls"], name, short(dict(zip(names, vals)), 150), short(dict(zip(names, r)), 150)))
    present = set(it[1].lower() for it in case["items"])
    for f in sub:
        if f.lower() not in present and f in o:
            raise Violation("phantom-field", "%s: %s present though never given" % (phase, f))


def handed_out(o, field, want_list, phase):
    """para[field], asked for anew: the list of records (or the dict of the single-line form)."""
    try:
        v = o[field]
    except KeyError:
        raise Violation("structured-field-missing", "%s: %s was assigned and is not in the paragraph" % (phase, field))
    if (not isinstance(v, list)) if want_list else (not hasattr(v, "keys") or not hasattr(v, "__setitem__")):
        raise Violation("record-shape", "%s: %s holds %s, hands out %s" % (
            phase, field, "a list of records" if want_list else "one record", short(v, 100)))
    return v


def handed_out_record(o, field, single, i, phase):
    if single:
        return handed_out(o, field, False, phase)
    lst = handed_out(o, field, True, phase)
    if i >= len(lst):
        raise Violation("record-count", "%s: %s has %d records, expected more than %d" % (phase, field, len(lst), i))
    rec = lst[i]
    if not hasattr(rec, "keys") or not hasattr(rec, "__setitem__"):
        raise Violation("record-shape", "%s: %s record is %s" % (phase, field, short(rec, 100)))
    return rec


def assign_items(o, case, items):
    sub = SUBFIELDS[case["cls"]]
    fill = case.get("fill", "assign")
    for it in items:
        if it[0] == "p":
            o[it[1]] = it[2]
            continue
        field, names, single = it[1], sub[it[1]], it[3]
        dicts = [dict(zip(names, r)) for r in it[2]]
        if fill == "setsub":
            # placeholders first, every sub-field corrected through what the paragraph hands out
            blanks = [dict((n, "0") for n in names) for _ in dicts]
            o[field] = blanks[0] if single else blanks
            for i, r in enumerate(it[2]):
                for n, t in zip(names, r):
                    handed_out_record(o, field, single, i, "filling")[n] = t
        elif fill in ("append", "split") and not single:
            h = len(dicts) // 2 if fill == "split" else 0
            o[field] = dicts[:h]
            for d in dicts[h:]:
                handed_out(o, field, True, "filling").append(d)
        else:
            o[field] = dicts[0] if single else dicts


def apply_op(o, case, op, names, labels):
    """One ordinary mapping operation on the paragraph; names = its current field names.
    Returns (the object to go on with, whether anything was done)."""
    kind = op[0]
    if not names:
        return o, False
    if kind == "sort":
        o.sort_fields()
    elif kind == "sortkey":
        o.sort_fields(key=SORT_KEYS[op[1]])
    elif kind == "first":
        o.order_first(names[op[1] % len(names)])
    elif kind == "last":
        o.order_last(names[op[1] % len(names)])
    elif kind in ("before", "after"):
        i, j = op[1] % len(names), op[2] % len(names)
        if i == j:
            return o, False
        (o.order_before if kind == "before" else o.order_after)(names[i], names[j])
    else:
        try:
            c = o.copy()
        except Exception:  # pylint: disable=broad-except
            # not this property's business (and the pinned tree cannot copy a paragraph that
            # holds a structured field): the original must go on working
            labels.add("op:copy-raises(not asserted)")
            return o, False
        if case["cls"] == "Release" and case.get("dak"):
            c.size_field_behavior = "dak"
        o = c
    labels.add("op:" + (kind if kind != "sortkey" else "sortkey-" + op[1]))
    return o, True


def apply_ops(o, case, items, labels):
    """case["ops"] between building / parsing and dumping; returns (object, number applied)."""
    n = 0
    names = [it[1] for it in items]
    for op in case.get("ops", []):
        o, done = apply_op(o, case, op, names, labels)
        n += 1 if done else 0
    return o, n


def harness_text(case):
    sub = SUBFIELDS[case["cls"]]
    pad = case.get("pad", 0)
    fold = case.get("fold", []) if case["kind"] == "parse" else []
    out = []
    for it in case["items"]:
        if it[0] == "p":
            out.append("%s: %s\n" % (it[1], it[2]))
        elif it[3]:
            out.append("%s: %s\n" % (it[1], " ".join(it[2][0])))
        else:
            si = sub[it[1]].index("size")
            lines = [" ".join(t.rjust(pad) if i == si else t for i, t in enumerate(r)) for r in it[2]]
            if is_folded(it, fold):
                # folded spelling: the value starts on the header line (one record there alone
                # would be the single-line form, hence >= 2 records)
                out.append("%s: %s\n" % (it[1], lines[0]))
                lines = lines[1:]
            else:
                out.append("%s:\n" % it[1])
            for l in lines:
                out.append(" " + l + "\n")
    return "".join(out)


def is_folded(it, fold):
    return it[0] == "s" and not it[3] and len(it[2]) >= 2 and it[1] in fold


def wanted_view(case):
    """The case a parse with fields=case["want"] must be indistinguishable from."""
    want = case.get("want")
    if case["kind"] != "parse" or want is None:
        return case
    return dict(case, items=[it for it in case["items"] if it[1] in want])


class Bystanders(object):
    """The other paragraphs of a case: each one is a text (or a list of assignments) of its own and
    must show exactly its own records whatever is done to ANOTHER paragraph through the objects
    that one hands out - the one that was alive all the time, and one made afresh afterwards."""

    def __init__(self, case, labels):
        self.views = []
        self.labels = labels
        if case["kind"] == "edit":
            # the twin: the same text / the same assignments once more
            twin = dict(case, kind=case["start"])
            twin.pop("others", None)
            self.views.append(("twin", twin))
        for ot in case.get("others", []):
            self.views.append(("other", {"kind": ot["how"], "cls": ot["cls"], "dak": bool(ot.get("dak")),
                                        "items": ot["items"], "pad": 0}))
        self.live = []
        for role, view in self.views:
            self.live.append(self.spawn(view))
            same = view["cls"] == case["cls"]
            labels.add("bystander:%s-%s" % ("same-class" if same else "other-class", view["kind"]))
            sitems = [it for it in view["items"] if it[0] == "s"]
            if has_empty(view["items"]):
                labels.add("bystander:with-empty-field")
            if any(it[2] for it in sitems):
                labels.add("bystander:with-filled-field")
            if len(sitems) < len(SUBFIELDS[view["cls"]]):
                labels.add("bystander:with-absent-field")
        self.inspect_all("before the first paragraph is touched", False)

    @staticmethod
    def spawn(view):
        if view["kind"] == "build":
            _cls, o = make_instance(view)
            assign_items(o, view, view["items"])
        else:
            o = getattr(deb822, view["cls"])(harness_text(view))
            configure(o, view, None, "second paragraph")
        return o

    @staticmethod
    def inspect(o, view, phase, blame):
        try:
            compare_records(o, view, phase)
            check_layout(dump_or_violation(o, view, phase), view, phase)
        except Violation as v:
            if not blame:
                raise
            raise Violation("bystander:" + v.sig, v.msg)

    def inspect_all(self, what, blame=True):
        """Every other paragraph that is alive, and every one made anew now."""
        for (role, view), o in zip(self.views, self.live):
            who = "the same %s once more" % view["cls"] if role == "twin" else "another paragraph (%s)" % config_tag(view)
            self.inspect(o, view, "%s, made before, read %s" % (who, what), blame)
            if blame:
                self.inspect(self.spawn(view), view, "%s, %s %s" % (
                    who, "parsed" if view["kind"] == "parse" else "built", what), blame)


def labels_of(case):
    sub = SUBFIELDS[case["cls"]]
    labels = set(["kind:" + case["kind"], "class:" + config_tag(case)])
    sitems = [it for it in case["items"] if it[0] == "s"]
    n = len(sitems)
    labels.add("subset:" + ("empty" if n == 0 else "full" if n == len(sub) else
                            "singleton" if n == 1 else "all-but-one" if n == len(sub) - 1 else "strict-other"))
    lens_per_field = []
    for it in sitems:
        si = sub[it[1]].index("size")
        lens = [len(r[si]) for r in it[2]]
        if not lens:
            labels.add("empty-list")
            labels.add("empty-list:" + ("last-field" if it is case["items"][-1] else "fields-after-it"))
            continue
        lens_per_field.append(max(lens))
        for l in lens:
            labels.add("size-width:" + ("<16" if l < 16 else "=16" if l == 16 else ">16"))
        if len(set(lens)) > 1:
            labels.add("sizes-of-different-width-in-one-field")
        if is_current(it[1]):
            labels.add("current:single-line" if it[3] else "current:multi-line")
        labels.add("records:%d" % len(it[2]))
        if any(not t.isascii() for r in it[2] for t in r):
            labels.add("non-ascii-token")
        if any(t[0] in "#-:." for r in it[2] for t in r):
            labels.add("token-starting-with-meta-character")
    if len(set(lens_per_field)) > 1:
        labels.add("fields-with-different-longest-size")
    kinds = [it[0] for it in case["items"]]
    if "p" in kinds and "s" in kinds:
        if kinds.index("p") < kinds.index("s"):
            labels.add("ordinary-field-before")
        if len(kinds) - 1 - kinds[::-1].index("p") > kinds.index("s"):
            labels.add("ordinary-field-after")
    doc_order = [f for f, _ in DOC[case["cls"]]]
    idx = [doc_order.index(it[1]) for it in sitems]
    if idx != sorted(idx):
        labels.add("fields-out-of-documented-order")
    nontrivial = 0 < n < len(sub)
    if case["kind"] in ("build", "parse"):
        labels.add("ops:%d" % len(case.get("ops", [])))
    if case["kind"] == "parse":
        labels.add("harness-pad:%d" % case.get("pad", 0))
        labels.add("via:" + case.get("via", "ctor"))
        fold = case.get("fold", [])
        nf = sum(1 for it in sitems if is_folded(it, fold))
        multi = sum(1 for it in sitems if not it[3])
        labels.add("layout:" + ("canonical" if nf == 0 else "all-folded" if nf == multi else "some-folded"))
        want = case.get("want")
        if want is not None:
            labels.add("fields=")
            prev = "start"
            for it in case["items"]:
                w = "wanted" if it[1] in want else "unwanted"
                shape = "ordinary" if it[0] == "p" else "single-line" if it[3] else \
                    "folded" if is_folded(it, fold) else "bare-header"
                if w == "unwanted":
                    labels.add("fields=:unwanted-%s-after-%s" % (shape, prev))
                elif prev.startswith("unwanted"):
                    labels.add("fields=:wanted-%s-after-unwanted" % shape)
                prev = w if w == "wanted" else "unwanted"
            if prev == "unwanted":
                labels.add("fields=:unwanted-last")
            nw = sum(1 for it in sitems if it[1] in want)
            labels.add("fields=:structured-" + ("none" if nw == 0 else "all" if nw == n else "some"))
            nontrivial = nontrivial or 0 < nw < len(sub)
    return nontrivial, labels


# ------------------------------------------------------------------------------------------
# oracle


def check(case):
    if not valid_case(case):
        return (False, ("invalid-case-skipped",))
    if case["cls"] == "Release" and "cfg" in case:
        case = dict(case, dak=effective_dak(case))          # "dak" is what the history leaves behind
    nontrivial, labels = labels_of(case)
    kind = case["kind"]

    if kind == "build":
        cls, o = make_instance(case, labels)
        by = Bystanders(case, labels) if case.get("others") else None
        assign_items(o, case, case["items"])
        labels.add("fill:" + case.get("fill", "assign"))
        if by:
            by.inspect_all("after the first paragraph was filled (%s)" % case.get("fill", "assign"))
        o, nops = apply_ops(o, case, case["items"], labels)
        phase = "built, %d mapping operations" % nops if nops else "built"
        nontrivial = nontrivial or nops > 0
        text = dump_or_violation(o, case, phase, labels)
        if text is None:
            return (nontrivial, sorted(labels))
        check_layout(text, case, phase, any_order=nops > 0)
        o2 = cls(text)
        configure(o2, case, None, "dump re-parsed")
        compare_records(o2, case, "dump re-parsed")
        if has_empty(case["items"]):
            labels.add("empty-list:re-dumped")
        text2 = dump_or_violation(o2, case, "re-parsed")
        if text2 != text:
            raise Violation("redump-differs", "dump %s, dump of its parse %s" % (short(text, 150), short(text2, 150)))

    elif kind == "parse":
        cls = getattr(deb822, case["cls"])
        text = harness_text(case)
        want = case.get("want")
        kwargs = {} if want is None else {"fields": list(want)}
        phase = "parsed" if want is None else "parsed with fields=%s" % short(want, 100)
        if case.get("via", "ctor") == "iter":
            paras = list(cls.iter_paragraphs(text, **kwargs))
            if len(paras) != 1:
                raise Violation("paragraph-count", "%s: iter_paragraphs gave %d paragraphs for the one in %s" % (
                    phase, len(paras), short(text, 150)))
            o = paras[0]
            if not isinstance(o, cls):
                raise Violation("paragraph-type", "%s: iter_paragraphs of %s gave a %s" % (
                    phase, case["cls"], type(o).__name__))
        else:
            o = cls(text, **kwargs)
        configure(o, case, labels, phase)
        # what was asked for is all there is: the unwanted fields are gone, lines and all
        exp = wanted_view(case)
        if want is not None:
            got_names = [str(k) for k in o.keys()]
            exp_names = [it[1] for it in exp["items"]]
            if got_names != exp_names:
                raise Violation("fields-filter-field-list", "%s: paragraph holds %s, the text's wanted fields are %s" % (
                    phase, short(got_names, 150), short(exp_names, 150)))
        compare_records(o, exp, phase)
        o, nops = apply_ops(o, case, exp["items"], labels)
        if nops:
            phase += ", %d mapping operations" % nops
            nontrivial = True
        d = dump_or_violation(o, exp, phase)
        check_layout(d, exp, phase, any_order=nops > 0)
        o3 = cls(d)
        compare_records(o3, exp, phase + ", dumped, parsed")

    elif kind == "edit":
        # One object, several dumps: what dump() prints is a function of the current content only,
        # whatever was dumped or assigned before (stale widths, stale formatted text ...).
        sub = SUBFIELDS[case["cls"]]
        if case["start"] == "build":
            cls, o = make_instance(case, labels)
            assign_items(o, case, case["items"])
            labels.add("fill:" + case.get("fill", "assign"))
        else:
            cls = getattr(deb822, case["cls"])
            o = cls(harness_text(case))
            configure(o, case, labels, "parsed")
        cur = [list(it) for it in case["items"]]
        compare_records(o, case, "before edits")
        text = dump_or_violation(o, case, "before edits", labels)
        if text is not None:
            check_layout(text, dict(case, items=cur), "before edits")
        by = Bystanders(case, labels)
        nsteps = 0
        loose = False       # a mapping operation was applied and no dump has shown the new order yet
        for step in case["steps"]:
            op = step[0]
            if op in MAPOPS:
                o, done = apply_op(o, case, step, [c[1] for c in cur], labels)
                if not done:
                    continue
            elif op == "del":
                if len(cur) <= 1:
                    continue
                k = step[1] % len(cur)
                del o[cur[k][1]]
                del cur[k]
            elif op == "cfg":
                # another configuration on an object that was dumped before
                if case["cls"] != "Release":
                    continue
                now_cfg = set_config(o, step[1], step[2], CFG_VALUES[1 if case.get("dak") else 0], labels,
                                     "edit %d (cfg)" % (nsteps + 1))
                case = dict(case, dak=now_cfg == "dak")
                labels.add("class:" + config_tag(case))
            elif op == "setsub":
                # one sub-field of one record, through the record the paragraph hands out
                spos = [i for i, c in enumerate(cur) if c[0] == "s" and c[2]]
                if not spos:
                    continue
                k = spos[step[1] % len(spos)]
                c = cur[k]
                i, j = step[2] % len(c[2]), step[3] % len(sub[c[1]])
                n = sub[c[1]][j]
                v = step[5] if n == "size" else step[4]
                handed_out_record(o, c[1], c[3], i, "edit %d (setsub)" % (nsteps + 1))[n] = v
                recs = [list(r) for r in c[2]]
                recs[i][j] = v
                cur[k] = [c[0], c[1], recs, c[3]]
                labels.add("setsub:" + ("single-line" if c[3] else "size" if n == "size" else "hash" if j == 0 else "other"))
            elif op == "append":
                # more records through the list the paragraph hands out (asked for again each time)
                it = step[1]
                pos = [i for i, c in enumerate(cur) if c[1].lower() == it[1].lower()]
                if not pos or it[0] != "s" or it[3] or not it[2] or cur[pos[0]][0] != "s" or cur[pos[0]][3]:
                    continue
                c = cur[pos[0]]
                for r in it[2]:
                    handed_out(o, c[1], True, "edit %d (append)" % (nsteps + 1)).append(dict(zip(sub[c[1]], r)))
                cur[pos[0]] = [c[0], c[1], [list(r) for r in c[2]] + [list(r) for r in it[2]], False]
            else:
                it = list(step[1])
                if it[0] == "s" and not it[3] and not it[2]:
                    labels.add("edit:to-empty-list")
                pos = [i for i, c in enumerate(cur) if c[1].lower() == it[1].lower()]
                if op == "inplace":
                    # change the records of a multi-line field through the list object itself
                    if not pos or it[0] != "s" or it[3] or cur[pos[0]][0] != "s" or cur[pos[0]][3]:
                        continue
                    lst = o[it[1]]
                    if not isinstance(lst, list):
                        raise Violation("record-shape", "edit: %s is %s" % (it[1], short(lst, 80)))
                    lst[:] = [dict(zip(sub[it[1]], r)) for r in it[2]]
                    cur[pos[0]] = it
                else:
                    key = it[1].lower() if (op == "setlower" and pos) else it[1]
                    if it[0] == "p":
                        o[key] = it[2]
                    else:
                        dicts = [dict(zip(sub[it[1]], r)) for r in it[2]]
                        o[key] = dicts[0] if it[3] else dicts
                    if pos:
                        it[1] = cur[pos[0]][1]
                        cur[pos[0]] = it
                    else:
                        cur.append(it)
            if op not in MAPOPS:
                labels.add("edit:" + op)
            nsteps += 1
            now = dict(case, items=cur)
            phase = "after edit %d (%s)" % (nsteps, op)
            loose = loose or op in MAPOPS
            # the paragraph itself, read directly: the field that was changed and all the others
            compare_records(o, now, phase + ", read directly")
            # the documented formatting entry point asked field by field BEFORE the next dump (the
            # last dump saw the paragraph as it was before this edit) ...
            try:
                pre = ["%s:%s%s\n" % (k, "" if (not v or v[0] == "\n") else " ", v)
                       for k, v in ((k, o.get_as_string(k)) for k in o)]
            except Exception:   # pylint: disable=broad-except
                pre = None      # the dump below reports it under the 'dumping never fails' clause
            text = dump_or_violation(o, now, phase, labels)
            if text is None:
                continue
            # ... is what the dump is made of
            if pre is not None and "".join(pre) != text:
                raise Violation("get_as_string-differs-from-dump", "%s: get_as_string() of the fields, asked before "
                                "the dump, gives %s; dump() gives %s" % (phase, short("".join(pre), 300), short(text, 300)))
            # after a mapping operation: same names wherever they went; the model follows the dump
            cur = check_layout(text, now, phase, any_order=loose)
            loose = False
            now = dict(case, items=cur)
            o2 = cls(text)
            compare_records(o2, now, phase + ", re-parsed")
            # ... and everybody else
            by.inspect_all(phase)
        if nsteps:
            labels.add("edit:steps-%d" % min(nsteps, 3))
        nontrivial = nontrivial or nsteps > 0

    else:  # newline
        sitems = [i for i, it in enumerate(case["items"]) if it[0] == "s"]
        if not sitems:
            labels.add("newline:not-applicable")
            return (False, sorted(labels))
        a, b, c, p = case["nl"]
        items = [list(it) for it in case["items"]]
        it = items[sitems[a % len(sitems)]]
        recs = [list(r) for r in it[2]]
        r = recs[b % len(recs)]
        ci = c % len(r)
        pos = p % (len(r[ci]) + 1)
        r[ci] = r[ci][:pos] + "\n" + r[ci][pos:]
        it[2] = recs
        nm = SUBFIELDS[case["cls"]][it[1]][ci]
        labels.add("newline-in:" + ("hash" if ci == 0 else "size" if nm == "size" else "other"))
        cls, o = make_instance(case, labels)
        assign_items(o, case, items)
        try:
            text = o.dump()
        except ValueError:
            pass
        except Exception as e:  # pylint: disable=broad-except
            raise Violation("dump-raises:%s:%s" % (config_tag(case), type(e).__name__),
                            "newline case: dump() raised %s: %s" % (type(e).__name__, short(str(e), 120)))
        else:
            raise Violation("newline-component-accepted",
                            "%s %s component %s was dumped: %s" % (case["cls"], it[1], short(r[ci], 40), short(text, 150)))

    return (nontrivial, sorted(labels))


# ------------------------------------------------------------------------------------------
# enumeration: every subset x three deterministic record sets x both directions

HASHES = ["d41d8cd98f00b204e9800998ecf8427e", "da39a3ee5e6b4b0d3255bfef95601890afd80709", "0", "ab:cd", "#h", "-x-",
          "\u00e9\u00df", "\u6f22\U0001d4b3"]
RESTS = ["main/binary-amd64/Packages", "foo_1.0-1.dsc", "2024-01-01-0000.00", "T-2024.gz", "a", "x,y", "[z]", "(w)|v",
         "\u6f22.deb", "n\u00e9"]
SIZES_B = ["7", "42", "123", "12345", "1234567", "1234567890", "123456789012345", "1234567890123456"]


def enum_records(names, fidx, variant):
    """Deterministic record sets; they differ per field so that longest sizes differ across fields."""
    def rec(h, size, k):
        out = []
        for i, n in enumerate(names):
            if i == 0:
                out.append(h)
            elif n == "size":
                out.append(size)
            else:
                out.append(RESTS[(k + i + fidx) % (6 if variant < 2 else len(RESTS))])
        return out
    if variant == 0:
        return [rec(HASHES[fidx % 2], SIZES_B[fidx % 4], 0)]
    if variant == 1:
        return [rec(HASHES[(fidx + j) % 6], SIZES_B[(fidx * 3 + j * (fidx + 2)) % len(SIZES_B)], j) for j in range(3)]
    return [rec(HASHES[6 + (fidx + j) % 2], ("12345678901234567", "123456789012345678", "9")[(fidx + j) % 3], j)
            for j in range(2)]


def enum_case(clsname, dak, mask, variant, kind):
    items = [["p", "Origin", "Debian"]]
    for fidx, (field, names) in enumerate(DOC[clsname]):
        if mask >> fidx & 1:
            single = is_current(field) and variant == 0
            items.append(["s", field, enum_records(names, fidx, variant), single])
    if variant == 1:
        items.append(["p", "Date", "Sat, 07 Apr 2018 14:41:12 UTC"])
    case = {"kind": kind, "cls": clsname, "dak": dak, "items": items}
    if kind == "parse":
        case["pad"] = (0, 16, 20)[variant]
    return case


def pdiff_masks(full):
    n = len(DOC["PdiffIndex"])
    for mask in range(1 << n):
        k = bin(mask).count("1")
        if full or k <= 2 or k >= n - 2:
            yield mask


def enum_cases(full):
    def gen():
        for clsname, dak in (("Dsc", False), ("Changes", False), ("BuildInfo", False),
                             ("Release", False), ("Release", True)):
            for mask in range(16):
                for variant in range(3):
                    for kind in ("build", "parse"):
                        yield enum_case(clsname, dak, mask, variant, kind)
        for mask in pdiff_masks(full):
            for variant in range(3):
                for kind in ("build", "parse"):
                    yield enum_case("PdiffIndex", False, mask, variant, kind)
    return gen


def submasks(mask):
    sub = mask
    while True:
        yield sub
        if sub == 0:
            return
        sub = (sub - 1) & mask


def with_parse_options(case, fold_all, want, via):
    if fold_all:
        case["fold"] = [it[1] for it in case["items"] if it[0] == "s" and not it[3]]
    if want is not None:
        case["want"] = want
    case["via"] = via
    return case


def enum_layout_cases(full):
    """The parse direction once more: every present subset written folded, and every way of asking
    for part of what is present through fields=."""
    four = (("Dsc", False), ("Changes", False), ("BuildInfo", False), ("Release", False), ("Release", True))

    def gen():
        # (a) folded spelling of every multi-record field (variant 0 has one record per field)
        for clsname, dak in four:
            for mask in range(1, 16):
                for variant in (1, 2):
                    yield with_parse_options(enum_case(clsname, dak, mask, variant, "parse"), True, None, "ctor")
        for mask in pdiff_masks(full):
            if mask:
                for variant in (1, 2):
                    yield with_parse_options(enum_case("PdiffIndex", False, mask, variant, "parse"), True, None, "ctor")
        # (b) fields=: present subset x wanted sub-subset x which of the two ordinary fields are wanted
        for clsname, dak in four:
            names = [f for f, _ in DOC[clsname]]
            for mask in range(16):
                for wmask in submasks(mask):
                    for plain in (["Origin", "Date"], ["Origin"], ["Date"], []):
                        want = plain + [names[i] for i in range(4) if wmask >> i & 1]
                        if not want:
                            continue
                        for via in ("ctor", "iter"):
                            for fold_all in (False, True):
                                yield with_parse_options(enum_case(clsname, dak, mask, 1, "parse"), fold_all, want, via)
        # PdiffIndex: all 14 fields, each all-but-one and each singleton present; wanted: all but
        # one, just one, every other one; the *-Current fields single-line (variant 0) or not
        names = [f for f, _ in DOC["PdiffIndex"]]
        n = len(names)
        top = (1 << n) - 1
        for mask in [top] + [top & ~(1 << i) for i in range(n)] + [1 << i for i in range(n)]:
            have = [names[i] for i in range(n) if mask >> i & 1]
            wants = []
            for k in range(len(have)):
                wants.append(["Origin", "Date"] + have[:k] + have[k + 1:])
                wants.append([have[k]])
            wants.extend([["Origin"] + have[0::2], ["Date"] + have[1::2], have[0::2], have[1::2]])
            for variant in (0, 1):
                for j, want in enumerate(wants):
                    base = enum_case("PdiffIndex", False, mask, variant, "parse")
                    present = [it[1] for it in base["items"]]
                    want = [w for w in want if w in present]
                    if want:
                        yield with_parse_options(base, j % 2 == 1, want, ("ctor", "iter")[(j // 2) % 2])
    return gen


def pdiff_corner_masks():
    n = len(DOC["PdiffIndex"])
    top = (1 << n) - 1
    return [top] + [top & ~(1 << i) for i in range(n)] + [1 << i for i in range(n)]


FOUR = (("Dsc", False), ("Changes", False), ("BuildInfo", False), ("Release", False), ("Release", True))


def enum_mapop_cases():
    """Ordinary mapping operations between building / parsing and the dump (three records of
    different size widths per field, an ordinary field first and one last)."""
    def oplists(n):
        return [[["sort"]], [["sortkey", "lower"]], [["sortkey", "reversed"]], [["sortkey", "length"]],
                [["first", n - 1]], [["last", 0]], [["before", n - 1, 0]], [["after", 0, n - 1]], [["copy"]],
                [["sort"], ["sort"]], [["first", n - 1], ["sortkey", "lower"]]]

    def gen():
        todo = [(c, d, m) for c, d in FOUR for m in range(1, 16)] + \
               [("PdiffIndex", False, m) for m in pdiff_corner_masks()]
        for clsname, dak, mask in todo:
            for kind in ("build", "parse"):
                base = enum_case(clsname, dak, mask, 1, kind)
                for ops in oplists(len(base["items"])):
                    yield dict(base, ops=ops)
    return gen


MAPOPS_DESC = ("mapping operations between building / parsing and dumping: every non-empty subset of the structured "
               "fields of Dsc, Changes, BuildInfo, Release x {apt-ftparchive, dak}, PdiffIndex with all / all-but-one / "
               "one field, x {build, parse} x {sort_fields(), sort_fields(key=lower | reversed name | length), "
               "order_first(last field), order_last(first), order_before(last, first), order_after(first, last), "
               "copy(), sort twice, order_first then sort}")


def enum_empty_cases():
    """Record lists of no records: built paragraphs, and lists emptied later on one object."""
    def gen():
        for clsname, dak in FOUR:
            for mask in range(1, 16):
                base = enum_case(clsname, dak, mask, 1, "build")
                spos = [i for i, it in enumerate(base["items"]) if it[0] == "s"]
                for empty in [[i] for i in spos] + ([spos] if len(spos) > 1 else []):
                    items = [it[:2] + [[], False] if i in empty else it for i, it in enumerate(base["items"])]
                    yield dict(base, items=items)
                    if len(empty) == 1:
                        # ... the same content reached from the full one: by assignment / through the list
                        for start in ("build", "parse"):
                            for op in ("set", "inplace"):
                                yield {"kind": "edit", "cls": clsname, "dak": dak, "items": base["items"], "pad": 0,
                                       "start": start, "steps": [[op, items[empty[0]]]]}
        for mask in pdiff_corner_masks()[:1] + pdiff_corner_masks()[15:]:
            base = enum_case("PdiffIndex", False, mask, 1, "build")
            for i, it in enumerate(base["items"]):
                if it[0] == "s":
                    yield dict(base, items=base["items"][:i] + [it[:2] + [[], False]] + base["items"][i + 1:])
    return gen


EMPTY_DESC = ("empty record lists: every non-empty subset of the structured fields of Dsc, Changes, BuildInfo, Release x "
              "{apt-ftparchive, dak} x (each present field, and all of them, assigned []) in the build direction, and "
              "for each single field the same content reached by assigning [] / emptying the list in place on a built / "
              "parsed paragraph that held three records there; PdiffIndex with all 14 fields / one field, each one empty")


INVALID_CONFIGS = ["bogus", "DAK", "", "apt", "apt-ftparchive ", " dak", "Dak", "16"]


def cfg_histories():
    """Every history of one or two assignments over {attribute, method} x {"dak", "apt-ftparchive",
    a value that is neither}, and six of three; deterministic order, simplest first."""
    out = []
    k = 0
    for n in (1, 2):
        for steps in itertools.product(itertools.product(CFG_ROUTES, ("dak", "apt-ftparchive", None)), repeat=n):
            hist = []
            for route, value in steps:
                if value is None:
                    value = INVALID_CONFIGS[k % len(INVALID_CONFIGS)]
                    k += 1
                hist.append([route, value])
            out.append(hist)
    for a, b, c in (("method", "method", "method"), ("attr", "method", "attr"), ("method", "attr", "method")):
        out.append([[a, "dak"], [b, "apt-ftparchive"], [c, "dak"]])
        out.append([[a, "dak"], [b, "dak"], [c, "apt-ftparchive"]])
    return out


CFG_HISTORIES = cfg_histories()


def enum_config_cases():
    """Release: the configuration reached through every documented route and history."""
    def gen():
        for hist in CFG_HISTORIES:
            for mask in range(16):
                for kind in ("build", "parse"):
                    case = enum_case("Release", False, mask, 1, kind)
                    case["cfg"] = hist
                    case["dak"] = effective_dak(case)
                    yield case
        # ... and changed on an object that was dumped before
        singles = [["cfg", r, v] for r in CFG_ROUTES for v in ("dak", "apt-ftparchive", "bogus")]
        for start_hist in (None, [["method", "dak"]], [["attr", "dak"]]):
            for mask in range(1, 16):
                for start in ("build", "parse"):
                    base = enum_case("Release", False, mask, 1, "build")
                    seqs = [[s] for s in singles] + \
                           [[["cfg", "method", "dak"], ["cfg", "method", "apt-ftparchive"]],
                            [["cfg", "method", "apt-ftparchive"], ["cfg", "attr", "dak"]],
                            [["cfg", "attr", "dak"], ["set", base["items"][1]], ["cfg", "method", "apt-ftparchive"]],
                            [["cfg", "method", "dak"], ["sort"], ["cfg", "method", "dak"]]]
                    for steps in seqs:
                        case = {"kind": "edit", "cls": "Release", "dak": False, "items": base["items"], "pad": 0,
                                "start": start, "steps": steps}
                        if start_hist is not None:
                            case["cfg"] = start_hist
                            case["dak"] = True
                        yield case
    return gen


CONFIG_DESC = ("Release, routes to a configuration: every history of one or two assignments over {size_field_behavior = v, "
               "set_size_field_behavior(v)} x {dak, apt-ftparchive, an undocumented value} and six histories of three, x "
               "every subset of the four fields x {build, parse}; and on one object between two dumps: every non-empty "
               "subset x {built, parsed} x {unconfigured, dak by method, dak by attribute} x 10 step lists (each single "
               "assignment, there and back, with a field assignment / sort_fields() in between)")


def enum_fill_cases():
    """Records that reach the paragraph through the list / dict it hands out."""
    def gen():
        todo = [(c, d, m) for c, d in FOUR for m in range(1, 16)] + \
               [("PdiffIndex", False, m) for m in pdiff_corner_masks()]
        for clsname, dak, mask in todo:
            for variant in range(3):
                for fill in FILLS[1:]:
                    yield dict(enum_case(clsname, dak, mask, variant, "build"), fill=fill)
            # a paragraph that exists already (built or parsed): one more record, one sub-field corrected
            # (PdiffIndex also from the one-record set, where the *-Current fields are single-line dicts)
            more = enum_case(clsname, dak, mask, 2, "build")
            for variant in ((1, 0) if clsname == "PdiffIndex" else (1,)):
                base = enum_case(clsname, dak, mask, variant, "build")
                sidx = [i for i, it in enumerate(base["items"]) if it[0] == "s"]
                for start in ("build", "parse"):
                    for n, i in enumerate(sidx[:4]):
                        steps = [["append", more["items"][i]],
                                 ["setsub", n, 1, n, "n\u00e9w", "12345678901234567"[:5 + 6 * n]]]
                        for order in (steps, steps[::-1], steps[1:] + [["setsub", n, 0, 1, "x", "8"]]):
                            yield {"kind": "edit", "cls": clsname, "dak": dak, "items": base["items"], "pad": 0,
                                   "start": start, "steps": order}
    return gen


FILL_DESC = ("records through what the paragraph hands out: every non-empty subset of the structured fields of Dsc, Changes, "
             "BuildInfo, Release x {apt-ftparchive, dak}, PdiffIndex with all / all-but-one / one field, x 3 record sets x "
             "{para[f] = [] then para[f].append(rec), half assigned half appended, placeholders assigned then "
             "para[f][i][sub] = token}; and on a built / parsed paragraph that was dumped: for each of (up to four) present "
             "fields append two records and / or replace one sub-field (hash, size - up to 17 digits -, third, fourth column)")


ALL_CONFIGS = FOUR + (("PdiffIndex", False),)


def enum_bystander_cases():
    """Records filled in / changed through what ONE paragraph hands out; every other field of that
    paragraph and every other paragraph (alive before, made afterwards; same class, other class;
    fields empty, filled, absent) must show exactly its own records."""
    def witnesses(clsname, dak, k):
        """Same class: every field present and empty; the class k places further on: fields empty /
        filled / absent in turn (rotated by k), parsed, and the same thing built."""
        top = (1 << len(DOC[clsname])) - 1
        oc, od = ALL_CONFIGS[(ALL_CONFIGS.index((clsname, dak)) + 1 + k % (len(ALL_CONFIGS) - 1)) % len(ALL_CONFIGS)]
        n = len(DOC[oc])
        present = sum(1 << i for i in range(n) if (i + k) % 3 != 2)
        empty = sum(1 << i for i in range(n) if (i + k) % 3 == 0)
        return [other_paragraph(clsname, dak, top, top if k % 2 == 0 else empty, 1, "parse"),
                other_paragraph(oc, od, present, empty, 1, "build" if k % 4 == 3 else "parse")]

    def gen():
        k = 0
        for clsname, dak in ALL_CONFIGS:
            masks = range(1, 16) if clsname != "PdiffIndex" else pdiff_corner_masks()[:2] + pdiff_corner_masks()[15:]
            for mask in masks:
                base = enum_case(clsname, dak, mask, 1, "build")
                more = enum_case(clsname, dak, mask, 2, "build")
                spos = [i for i, it in enumerate(base["items"]) if it[0] == "s"]
                targets = spos[:3] + spos[-1:] if len(spos) > 4 else spos
                # which fields of the first paragraph are there without records: each one, all, none
                for empty in [[i] for i in targets] + ([spos] if len(spos) > 1 else []) + [[]]:
                    items = [it[:2] + [[], False] if i in empty else it for i, it in enumerate(base["items"])]
                    for t in targets:
                        if empty and len(empty) == 1 and t not in empty and t != targets[(targets.index(empty[0]) + 1)
                                                                                         % len(targets)]:
                            continue            # one empty field: through it and through one neighbour
                        n = spos.index(t)
                        add, put = ["append", more["items"][t]], ["inplace", more["items"][t]]
                        if t in empty:
                            seqs = [[add], [put], [add, ["setsub", n, 0, 1, "x", "8"]]]
                        else:
                            seqs = [[add], [["setsub", n, 1, n, "n\u00e9w", "123456"], ["inplace", items[t][:2] + [[], False]]]]
                        for steps in seqs:
                            for start in ("parse", "build"):
                                k += 1
                                yield {"kind": "edit", "cls": clsname, "dak": dak, "items": items, "pad": 0, "start": start,
                                       "steps": steps, "others": witnesses(clsname, dak, k)}
                    # ... and while a new paragraph is being filled
                    if not empty:
                        for fill in FILLS[1:]:
                            k += 1
                            yield dict(base, fill=fill, others=witnesses(clsname, dak, k))
    return gen


BYSTANDER_DESC = ("bystanders: Dsc, Changes, BuildInfo, Release x {apt-ftparchive, dak} with every non-empty subset of the "
                  "structured fields, PdiffIndex with all / all-but-one / one field, three records per field; x which fields "
                  "are there WITHOUT records (each one, all of them, none) x {parsed from text, built}; then through the "
                  "list the paragraph hands out for a field that is empty: two records appended | list[:] = two records | "
                  "appended and a sub-field replaced; for a field that is filled: appended | a sub-field replaced and the "
                  "list emptied in place. After every step: the paragraph read directly and dumped, its twin (same text / "
                  "assignments; one made before, one made now), a paragraph of the same class with all fields empty (or "
                  "empty / filled / absent in turn) and one of another class (every ordered pair of classes / configurations "
                  "occurs; fields empty / filled / absent in turn; parsed, every fourth built) - before and made anew - "
                  "must each show and dump exactly their own records. Also: the three ways of filling a new paragraph "
                  "through handed-out objects, with the same witnesses")


LAYOUTS_DESC = ("parse direction: every enumerated subset (three- and two-record sets) with all fields folded; "
                "fields=: Dsc, Changes, BuildInfo, Release x {apt-ftparchive, dak}: every subset present x every "
                "sub-subset wanted x every subset of the two ordinary fields wanted x {constructor, iter_paragraphs} "
                "x {canonical, folded}; PdiffIndex with all / all-but-one / one field present: wanted = all but one, "
                "just one, every other one")


# ------------------------------------------------------------------------------------------
# generated cases

# simplest first: Hypothesis shrinks sampled_from towards index 0
TOKENS = [
    "a", "Z", "9", "ab", "a1", "f00", "deadbeef", "0123abcd", ":", "#", ",", "-", ".", ";", "=", "<", ">", "(", ")",
    "[", "]", "|", "!", "~", "+", "*", "?", "\\", "a:b", "#c", "-d", ".e", "x=y", "<p>", "(1)", "[q]", "a|b", "!n", "~t",
    "1+1", "*.gz", "w?", "c\\d", "\u00e9", "\u00df", "\u6f22", "\U0001d4b3", "a\u00e9b", "-----", "Files:", "Foo:bar",
] + HASHES + RESTS
SIZES = ["1", "0", "5", "16", "1024", "45314424", "1234567890123456", "12345678901234567"]
for _l in range(1, 19):
    SIZES.extend(["1" * _l, ("9876543210" * 2)[:_l], ("0" + "5" * 17)[:_l]])
PLAIN_VALUES = ["x", "Debian", "1.0-1", "a b  c", "3.0 (quilt)", "Sat, 07 Apr 2018 14:41:12 UTC", "\u00e9 \u6f22", "k: v #w"]
CONFIGS = [("Dsc", False), ("Changes", False), ("BuildInfo", False), ("Release", False), ("Release", True),
           ("PdiffIndex", False), ("PdiffIndex", False)]
NT = len(TOKENS)


NOPCODES = 9 * 6 * 6


def decode_op(code):
    """One integer -> one mapping operation (0 = sort_fields(), the simplest)."""
    k, i, j = code % 9, code // 9 % 6, code // 54
    if k < 4:
        return [["sort"], ["sortkey", "lower"], ["sortkey", "reversed"], ["sortkey", "length"]][k]
    if k == 8:
        return ["copy"]
    return [("first", "last", "before", "after")[k - 4], i] + ([j] if k >= 6 else [])


@st.composite
def gen_case(draw):
    """Few draws per case (Hypothesis' per-draw overhead dominates the oracle's cost), all of them
    shrinking towards: no field, one record, token "a", size "1", documented order."""
    clsname, dak = draw(st.sampled_from(CONFIGS))
    fields = DOC[clsname]
    n = len(fields)
    top = (1 << n) - 1
    # subset as a bit mask; sparse / plain / dense so that singletons and all-but-one are frequent
    mask = draw(st.integers(0, top))
    density = draw(st.sampled_from(["plain", "sparse", "dense", "sparse", "dense"]))
    if density == "sparse":
        mask &= draw(st.integers(0, top))
        if n > 4:
            mask &= draw(st.integers(0, top))
    elif density == "dense":
        mask = top & ~(draw(st.integers(0, top)) & mask & (draw(st.integers(0, top)) if n > 4 else top))
    if mask == 0:
        k = draw(st.integers(0, n))           # mostly a singleton instead; k == n keeps the empty subset
        if k < n:
            mask = 1 << k
    chosen = [fields[i] for i in range(n) if mask >> i & 1]
    order = draw(st.integers(0, 2 * max(len(chosen), 1) - 1))       # rotation, then optional reversal
    if chosen:
        k = order % len(chosen)
        chosen = chosen[k:] + chosen[:k]
        if order >= len(chosen):
            chosen.reverse()
    maxrec = 3 if len(chosen) > 6 else 4
    items = []
    for field, names in chosen:
        single = is_current(field) and draw(st.booleans())
        nrec = 1 if single else draw(st.integers(1, maxrec))
        recs = []
        for _ in range(nrec):
            h, z, r = draw(st.integers(0, NT - 1)), draw(st.integers(0, len(SIZES) - 1)), draw(st.integers(0, NT - 1))
            recs.append([TOKENS[h] if i == 0 else SIZES[z] if nm == "size" else TOKENS[(r + 7 * (i - 2)) % NT]
                         for i, nm in enumerate(names)])
        items.append(["s", field, recs, single])
    nplain = draw(st.integers(0, 3)) if items else draw(st.integers(1, 3))
    for j in range(nplain):
        code = draw(st.integers(0, 8 * (len(items) + 1) - 1))
        items.insert(code // 8, ["p", PLAIN_NAMES[j], PLAIN_VALUES[code % 8]])
    kind = draw(st.sampled_from(["build", "parse", "build", "parse", "build", "parse", "newline"]))
    case = {"kind": kind, "cls": clsname, "dak": dak, "items": items}
    if clsname == "Release":
        # 0: the attribute, once (or nothing for apt-ftparchive); else one of the enumerated histories
        h = draw(st.integers(0, 2 * len(CFG_HISTORIES) - 1))
        if h % 2:
            case["cfg"] = CFG_HISTORIES[h // 2]
            case["dak"] = effective_dak(case)
    if kind == "build":
        case["fill"] = draw(st.sampled_from(FILLS + ("assign",)))
    if kind in ("build", "parse"):
        # a third of the built / parsed paragraphs hold one multi-line field with no records at all
        # (in a text: the bare header 'Field:' with no line under it), one in twelve two of them
        e = draw(st.integers(0, 3 * max(len(items), 1) - 1))
        if e >= 2 * len(items) and items[e - 2 * len(items)][0] == "s":
            items[e - 2 * len(items)][2:] = [[], False]
            if e % 4 == 0 and items[e % len(items)][0] == "s":
                items[e % len(items)][2:] = [[], False]
    if kind in ("build", "parse"):
        # ordinary mapping operations between building / parsing and the dump (none, mostly)
        case["ops"] = [decode_op(draw(st.integers(0, NOPCODES - 1)))
                       for _ in range(max(0, draw(st.integers(0, 5)) - 2))]
    if kind == "parse":
        case["pad"] = draw(st.sampled_from([0, 16, 20, 0]))
        # bit 0: some fields folded, bit 1: parse with fields=, bit 2: through iter_paragraphs
        opt = draw(st.integers(0, 7))
        if opt & 1 and items:
            fmask = draw(st.integers(0, (1 << len(items)) - 1))
            case["fold"] = [it[1] for i, it in enumerate(items) if it[0] == "s" and not it[3] and fmask >> i & 1]
        if opt & 2:
            wmask = draw(st.integers(1, (1 << len(items)) - 1))
            case["want"] = [it[1] for i, it in enumerate(items) if wmask >> i & 1]
        if opt & 4:
            case["via"] = "iter"
    if kind == "newline":
        case["nl"] = [draw(st.integers(0, 13)), draw(st.integers(0, 3)), draw(st.integers(0, 4)), draw(st.integers(0, 8))]
    return case


@st.composite
def gen_item(draw, clsname, present):
    """One item for an edit step: mostly a structured field that is already present (so that its
    records change between two dumps), sometimes a new structured field or an ordinary one."""
    fields = DOC[clsname]
    have = [f for f in fields if f[0] in present]
    pick = draw(st.integers(0, 9))
    if pick == 0:
        return ["p", PLAIN_NAMES[draw(st.integers(0, len(PLAIN_NAMES) - 1))], PLAIN_VALUES[draw(st.integers(0, 7))]]
    field, names = draw(st.sampled_from(have)) if (have and pick < 8) else draw(st.sampled_from(fields))
    single = is_current(field) and draw(st.integers(0, 3)) == 0
    nrec = 1 if single else draw(st.integers(1, 5)) % 5          # 5: the empty list
    recs = []
    for _ in range(nrec):
        h, z, r = draw(st.integers(0, NT - 1)), draw(st.integers(0, len(SIZES) - 1)), draw(st.integers(0, NT - 1))
        recs.append([TOKENS[h] if i == 0 else SIZES[z] if nm == "size" else TOKENS[(r + 7 * (i - 2)) % NT]
                     for i, nm in enumerate(names)])
    return ["s", field, recs, single]


def other_paragraph(clsname, dak, mask, empty, variant, how):
    """A bystander: the fields of ``mask`` present, those also in ``empty`` without records, an
    ordinary field first (and, variant 1, one last); records from the deterministic sets."""
    items = enum_case(clsname, dak, mask, variant, "build")["items"]
    names = [f for f, _ in DOC[clsname]]
    items = [it[:2] + [[], False] if it[0] == "s" and empty >> names.index(it[1]) & 1 else it for it in items]
    return {"how": how, "cls": clsname, "dak": dak, "items": items}


@st.composite
def gen_other(draw, clsname, dak):
    """Mostly of the class that is being edited (3 in 8), else any class / configuration."""
    c = draw(st.integers(0, 7))
    if c < 5:
        clsname, dak = FOUR[c]
    elif c == 5:
        clsname, dak = "PdiffIndex", False
    top = (1 << len(DOC[clsname])) - 1
    mask = draw(st.integers(1, top))
    empty = draw(st.integers(0, top))
    if draw(st.booleans()):
        empty &= draw(st.integers(0, top))
    v = draw(st.integers(0, 5))
    return other_paragraph(clsname, dak, mask, empty, v % 3, "build" if v >= 4 else "parse")


@st.composite
def gen_edit_case(draw):
    base = draw(gen_case())
    present = set(it[1] for it in base["items"] if it[0] == "s")
    steps = []
    choices = ["set", "set", "setlower", "inplace", "inplace", "del", "mapop", "mapop", "append", "append", "setsub", "setsub"]
    if base["cls"] == "Release":
        choices += ["cfg", "cfg", "cfg"]
    for _ in range(draw(st.integers(1, 3))):
        op = draw(st.sampled_from(choices))
        if op == "del":
            steps.append(["del", draw(st.integers(0, 5))])
        elif op == "cfg":
            # (both documented values four times as likely as a value that must be refused)
            values = ["dak", "apt-ftparchive"] * 4 + INVALID_CONFIGS
            c = draw(st.integers(0, 2 * len(values) - 1))
            steps.append(["cfg", CFG_ROUTES[c % 2], values[c // 2]])
        elif op == "setsub":
            c = draw(st.integers(0, 6 * 4 * 5 - 1))
            steps.append(["setsub", c % 6, c // 6 % 4, c // 24, TOKENS[draw(st.integers(0, NT - 1))],
                          SIZES[draw(st.integers(0, len(SIZES) - 1))]])
        elif op == "mapop":
            steps.append(decode_op(draw(st.integers(0, NOPCODES - 1))))
        else:
            steps.append([op, draw(gen_item(base["cls"], present))])
    start = draw(st.sampled_from(["build", "parse"]))
    case = {"kind": "edit", "cls": base["cls"], "dak": base["dak"], "items": base["items"],
            "start": start, "pad": 0, "steps": steps}
    # 0..2 more paragraphs that must not notice any of this (the twin of the edited one is always there)
    others = []
    for _ in range(max(0, draw(st.integers(0, 4)) - 2)):
        others.append(draw(gen_other(base["cls"], base["dak"])))
    if others:
        case["others"] = others
    for k in ("cfg", "fill"):
        if k in base:
            case[k] = base[k]
    return case


def sources(tier):
    if tier == "quick":
        return [Enum("field-subsets", enum_cases(False), EXHAUSTIVE["quick"]),
                Enum("parse-layouts-and-field-filters", enum_layout_cases(False), LAYOUTS_DESC),
                Enum("mapping-operations", enum_mapop_cases(), MAPOPS_DESC),
                Enum("empty-record-lists", enum_empty_cases(), EMPTY_DESC),
                Enum("release-configuration-routes", enum_config_cases(), CONFIG_DESC),
                Enum("records-through-handed-out-objects", enum_fill_cases(), FILL_DESC),
                Enum("bystanders-of-handed-out-objects", enum_bystander_cases(), BYSTANDER_DESC),
                Hyp("records", gen_case(), 350, shards=8),
                Hyp("edit-histories", gen_edit_case(), 250, shards=6)]
    return [Enum("field-subsets-all", enum_cases(True), EXHAUSTIVE["thorough"]),
            Enum("parse-layouts-and-field-filters", enum_layout_cases(True), LAYOUTS_DESC),
            Enum("mapping-operations", enum_mapop_cases(), MAPOPS_DESC),
            Enum("empty-record-lists", enum_empty_cases(), EMPTY_DESC),
            Enum("release-configuration-routes", enum_config_cases(), CONFIG_DESC),
            Enum("records-through-handed-out-objects", enum_fill_cases(), FILL_DESC),
            Enum("bystanders-of-handed-out-objects", enum_bystander_cases(), BYSTANDER_DESC),
            Hyp("records", gen_case(), 5000, shards=16),
            Hyp("edit-histories", gen_edit_case(), 4000, shards=12)]
