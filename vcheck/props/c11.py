"""C11 - list views of a field read the exact values and write back only what changed.

The case format, the splitting oracle and the generators live in ``gen/c11_listfields.py``
(nothing there imports the code under test).  A case is a one- or two-paragraph document with
one list field (whitespace- or comma-separated), plus a history of edits made through
``paragraph.as_interpreted_dict_view(LIST_*_INTERPRETATION)[name]`` used as a context manager.

Sizes: the quantifier puts no bound on how long an item, a line, a word or a list may be, so the
"sizes" source enumerates fields that outgrow any small fixed buffer, window or look-ahead: one
comma item on 1..40 continuation lines or of 1..40 words, runs of 1..40 comment lines, lists of 130
and 1100 values on one line / over many lines, words / blank runs / comment lines of up to 100000
characters - each read and edited once in every way.  Such a case carries a compact "layout"
([[piece, repeat], ...], see gen.expand) instead of "first"/"rest"; the oracle is the same.

White space: the statement splits on / ignores "whitespace" without naming characters, so the blanks
of a field are not only space and tab.  The reference is Unicode white space (str.isspace(), the set
`\\s` matches in a str pattern and str.split() / str.strip() work on).  gen.ODD_BLANKS (NO-BREAK SPACE,
U+3000, U+2000..U+200A, U+1680, U+202F, U+205F, U+001F) stand wherever a blank may stand - as the only
separator between two words, among ordinary blanks, after the colon, at line ends, inside a comma item
(where they are part of the value) - and such fields are read and edited like any other.  The white
space str.splitlines() also takes for a line boundary (gen.LINE_BREAKERS: CR, VT, FF, FS, GS, RS, NEL,
LS, PS) is used as the last character of lines only: whole CR LF documents (case key "eol") and
single lines ending on one of them.  Such a field is read in every way, opened and closed, handed
refused values; which edits are made on it is listed under ASSUMPTIONS.  The "white-space" source
enumerates layouts written down together with the values they were built from (case key "expect");
the splitting oracle has to find exactly those.

Besides the edits the statement names (append / remove / replace / ValueReference), a history may
contain the other public steps of the list view.  None of them changes the reference list, they
only change what surrounds the values when the next edit happens and how / whether the field is
written back:
  value_formatter(f[, force_reformat])  f = the library's formatter or one of two written here after
                      the rules of the format_field() docstring; force_reformat=True counts like
                      reformat_when_finished() (the field may be rewritten), otherwise the call is
                      no change ("By default, fields are only reformatted if they are changed")
  append_comment(text), append_newline(), append_separator() [comma lists]
                      no docstring; by the statement's own splitting rule a comment line, a line
                      break or a separator adds no value.  Nothing is demanded about them except that
                      the list stays what it was; a view they were called on is never held to
                      "closed without change => byte-identical", and a view that may end on a comment
                      line may refuse to close (ValueError, document unchanged)
  append(v) / replace(x, v) / reference.value = v with a text v that is no value of the list kind
                      ('' / blanks around it / an embedded separator / a bare line break:
                      gen.refusable_value): the value factory documents ValueError for it.  The caller
                      catches the error and goes on normally - the refused call must have left no
                      trace: the list is what it was, a view closed after nothing but refused calls
                      leaves the document byte-identical, and later edits give what they always give
  the same view object entered again ("reenter"): list, mode and references live on
  a second view of the same field that is only read (list() / references / not at all) while the
  first one edits: closing it - inside the session, in a later one, or last - must not change a byte

Signatures (root causes, not inputs):
  read-differs                     a fresh view does not yield split(field text)
  first-line-hash-read-as-comment  ... because the text right after "Name:" starts with '#'
  noop-changes-document            open/close without a successful edit changed the dump
  refused-edit-changed-document    ... and a mutator had refused its argument with ValueError in between
  non-item-value-accepted          append/replace/ref.value= took a text the splitting rule can never
                                   give back as one item (the re-parse clause cannot hold any more)
  step-view-differs                inside the ``with``, list(view) != model after an edit
  comment-leaks-into-value         ... because a comment line shows up inside a rendered value
                                   (also: an existing value is "not in list" for that reason)
  existing-value-not-found         remove/replace of a value that is in the list raised ValueError
  reference-count-differs          iter_value_references() does not yield one reference per value
  reference-reads-wrong-value      ValueReference.value != the value it refers to
  absent-value-accepted            remove/replace of a value not in the list did not raise ValueError
  emptied-list-accepted / failed-close-changed-document
  read-only-view-wrote-on-close    closing a second view that was only read changed the document
  other-fields-changed             bytes before the field (incl. its comment) or after it differ
  syntax-invalid-after-edit        new field text is not a well-formed field / error tokens /
                                   different paragraph or field-name structure
  reparse-differs                  split(new field text) != edited list
  EXC:<Type>@<frame>               (engine) an exception outside the documented contract, e.g. the
                                   KeyError of the blank-first-line defect
"""
import zlib
import re

from hypothesis import strategies as st  # noqa: F401  (strategies come from the gen module)

from ..core import Violation, Enum, Hyp, short
from ..gen import c11_listfields as G

from debian._deb822_repro import parse_deb822_file
from debian._deb822_repro.parsing import (
    LIST_SPACE_SEPARATED_INTERPRETATION, LIST_COMMA_SEPARATED_INTERPRETATION,
)
from debian._deb822_repro.formatter import one_value_per_line_trailing_separator

ID = "C11"
LEVEL = "exploration"
RULE = ("case = one list field (whitespace- or comma-separated; 1..4 lines, thorough ..6; first line "
        "empty / blanks only / with values; space or tab continuation markers; comment lines between "
        "continuation lines; blanks around separators; leading, trailing, doubled and lonely commas; "
        "comma items spanning lines, with comment lines inside) between other fields, x a history of "
        "0..5 (thorough ..8) chunks of append / remove / replace / ValueReference set+remove (fresh or "
        "captured when the view was first entered) / the same three mutators handed a text that is no "
        "value of the kind (refused: ValueError, then normal use) / absent-value / drain / reformat-mode / "
        "value_formatter(library formatter | single-line | leading-separator formatter; force_reformat "
        "omitted, False, True) / append_comment / append_newline / append_separator / read (list or "
        "references) / close-and-reopen / close-and-re-enter-the-same-view / open, read and close a "
        "second view of the field, with or without reading the view after every step (chunks: one "
        "step, comment+append, newline+append, re-enter+captured-reference assignment). Enumerated: "
        "every layout of <=2 (thorough <=3) continuation lines over a 5..9-shape line alphabet x "
        "{every single edit x {preserve, reformat}, every unobserved append;remove(i) / "
        "append;replace(i), append after comment / newline / separator, each formatter before / after "
        "/ without an edit, every remove(i) and reference assignment followed by value_formatter, "
        "every captured reference used after re-entering the view, a second view (3 ways of reading) "
        "open during an append and closed inside / after the session, a refused append ('' / separator "
        "inside / blanks around) alone, before re-entering and before a good append, a refused "
        "replace(i) or reference assignment for every i, remove of an absent value} (thorough: + every "
        "ordered pair of removals). Sizes (enumerated, compact [[piece, repeat], ...] layouts): one comma "
        "item on 1..40 continuation lines (space / tab marker, with / without comment lines, first / "
        "middle / last item) or of 1..40 words, 1..40 one-value lines of a whitespace list, runs of "
        "1..40 comment lines, 130 and 1100 values on one line / one or three per line / with comment "
        "lines, words, blank runs and comment lines of 100..100000 characters, both kinds, x {read, "
        "read through references, append, remove, replace, reference assignment, reference removal of "
        "the big value and a neighbour}. White space (enumerated; in 3 of 8 generated fields up to "
        "three blanks are swapped for other Unicode white space, 1 of 16 documents is CR LF, in 1 of 16 "
        "some field lines end on VT / FF / CR / FS / GS / RS / NEL / LS / PS): each of the 17 white-space "
        "characters that are neither space, tab nor a line boundary for str.splitlines, in 6..7 layouts "
        "per kind (alone between two words / inside a comma item, among blanks, after the colon and the "
        "continuation marker, at line ends, doubled, alone on the first line, in comment lines, around "
        "commas, as an empty item, in an item spanning lines) x {reads, no-op closes, second view, "
        "refused values holding the character, every single remove / replace / reference edit, "
        "reformat, formatter, drain, appends of every flavour}; each of the 9 line-boundary characters "
        "ending 1..3 lines of 4 layouts per kind, and 3..4 layouts in a CR LF document, x {reads, "
        "no-op closes, second view, refused values} (CR: + every single remove / replace / reference "
        "edit, reformat, formatter, drain). Non-trivial = the field has >=2 "
        "lines or a comment line, and >=1 edit was applied successfully or refused; distinct = canonical JSON")
ASSUMPTIONS = [
    "splitting oracle: drop lines 2.. that start with '#', then str.split() / split(',')+strip+drop "
    "empties (gen/c11_listfields.split_values); the model of a history is a Python list",
    "fields without any value are outside the domain (the value tokenizer asserts non-blank input)",
    "characters: space, tab, printable non-space characters and Unicode white space (str.isspace(): "
    "`\\s`, str.split(), str.strip() agree on the set; gen.all_white_space() checks the two lists "
    "against this Python). gen.ODD_BLANKS anywhere a blank may stand in the field (not as continuation "
    "marker, not in other fields, not in comment texts handed to append_comment); a continuation line "
    "of white space only is a blank line and ends the paragraph (not generated)",
    "gen.LINE_BREAKERS (CR VT FF FS GS RS NEL LS PS: white space str.splitlines() takes for a line "
    "boundary) only as the LAST character of a line of the field (comment lines: CR only) or, CR, of "
    "every line of the document. NOT covered because the unchanged library already fails there (it "
    "cuts value text with str.splitlines): such a character anywhere else in a line ('F: a\\x0cb c' "
    "reads ['a', 'c']), a comment line inside a comma item ending on one ('F: a\\n#\\x0c\\n b' reads "
    "['a\\n\\n b']), any write-back of a field holding one other than CR (ValueError 'Input is "
    "inconsistent with its line endings'), append / append_comment / append_newline / "
    "append_separator in a CR LF document (ValueError when the last line of the field ends on CR). On "
    "a field holding a line breaker other than CR no edit is made (reads, closes, refused values, "
    "absent values only); with CR alone every edit but the four appenders is made and checked",
    "sizes: the statement bounds neither the number of values, lines or comment lines nor the length "
    "of an item, word or blank run; the 'sizes' source goes up to 1100 values (thorough 5000), 40 "
    "lines per item (thorough 257) and 100000 characters (thorough 300000); bigger fields are not "
    "exercised. gen.expand (piece repetition, '@' -> running number) is part of the trusted base",
    "a new value starting with '#' may be rejected with ValueError (either outcome accepted)",
    "texts that are no value of the kind ('' / surrounding blanks / embedded separator / line break "
    "without continuation marker and text; gen.refusable_value) must be refused with ValueError by "
    "append, replace and ValueReference.value (the value factory's own messages; the setter's "
    "docstring: 'values in whitespace separated lists cannot contain spaces and would trigger an "
    "exception'); taking one is reported, since the field could never re-parse to the edited list. "
    "A refused call counts as no edit. Blank-only texts (the tokenizer asserts) and texts with a "
    "'#'-led line are not used; other invalid texts are skipped",
    "ValueReferences are only used while the value they refer to is still in the list and the view "
    "they came from is alive (it is kept across close + re-enter)",
    "the formatters written here (fmt_single_line, fmt_leading_separator) follow every rule of the "
    "format_field() docstring; no layout is demanded from any formatter, only the statement's "
    "post-conditions (edited list, other fields, validity)",
    "append_comment / append_newline / append_separator have no docstring: only 'adds no value' is "
    "assumed. Comment texts are one line and '' or contain a non-blank character (a blanks-only text "
    "yields an unterminated comment token - reported, outside the statement); append_newline may "
    "raise ValueError (accepted, no effect); append_separator is used on comma lists that still have "
    "a value (after a line break a blank separator makes a blank line; a lonely comma counts as "
    "content of an emptied list); closing a view that may end on a comment line may raise ValueError",
    "two views alive at once: only one of them is ever edited, the other one is only read",
    "sort() / sort_elements() are not used: reordering is not one of the statement's edits, and "
    "sort() itself fails on a legal layout (separator alone between a comment line and a value)",
    "the original document is parsed with parse_deb822_file (C01/C02 cover that step)",
    "LIST_UPLOADERS_INTERPRETATION is not covered: its splitting rule is stated in no docstring",
    "Hypothesis 6.168 generators; sha1 for distinctness",
]
EXHAUSTIVE = {
    "quick": "all ws/comma layouts = first-line shape (7/9) x 0..2 further lines over 5/7 line shapes "
             "(with >=1 value, not ending on a comment) x {no edit, every single append/remove/"
             "ref-remove/replace/ref-set x {preserve, reformat}, every unobserved append;remove(i) "
             "and append;replace(i), 6 append-after-comment/newline/separator histories, 3 formatters "
             "x {after append, forced alone, before append}, every remove(i) / ref-set(i) followed by "
             "value_formatter, every captured reference i assigned / removed after re-entering the "
             "same view, a second view read in 3 ways around an append (closed last / inside / in the "
             "next session), read-only sessions through references, 6 histories around a refused "
             "append / replace / absent remove, a refused replace(i) or ref-set(i) for every i, "
             "refused captured-reference assignments around a re-enter}",
    "thorough": "as quick with 0..3 further lines, plus every ordered pair remove(i); "
                "captured-reference remove(j)",
}
EXHAUSTIVE_SIZES = (
    "sizes (compact cases, 'layout' = [[piece, repeat], ...]): for k = 1..40 (thorough + 64, 100, 257), "
    "space and tab continuation markers, with and without a comment line before every continuation "
    "line: ONE comma item on k continuation lines as first / middle / last item (with and without "
    "trailing comma), k whitespace-list lines of one value; one comma item of k words on a line (2 "
    "blank shapes); a run of k comment lines between two values / inside a comma item; for n = 130, "
    "1100 (thorough + 5000) values, both kinds: all on one line (comma: with and without blanks), one "
    "per line, three per line, one per line with a comment line after each; for n = 100, 1000, 100000 "
    "(thorough + 300000) characters, both kinds: one word of n characters as first / middle / last "
    "value and inside a comma item spanning lines, runs of n blanks around a value and after the "
    "colon, a comment line of n characters; each x {no edit, read through references, append "
    "(preserve / reformat), remove / replace / reference assignment / reference removal of the big "
    "value and of a neighbour (many values: first, middle, last), remove in reformat mode}")
EXHAUSTIVE_WHITE_SPACE = (
    "white space (every case carries the values its field was built from): each of the 17 characters "
    "of gen.ODD_BLANKS in 6 whitespace-list and 7 comma-list layouts x {no edit, reads through the "
    "view and through references, re-enter, reopen, a second view (2 ways), refused append / replace / "
    "reference assignment of a text holding the character, remove of an absent value, every single "
    "remove / replace / reference assignment / reference removal, reformat + remove, forced formatter, "
    "drain, refused replace then remove, append (preserve / reformat / after newline / after comment / "
    "after a refused one / across a reopen), comma: append and replace with a value holding the "
    "character, append after a separator}; each of the 9 characters of gen.LINE_BREAKERS ending 1..3 "
    "lines of 4 layouts per kind, and 3 / 4 layouts in a CR LF document, x the histories above that "
    "write nothing back (CR: + those that append nothing); 3 surroundings (field in the middle / last "
    "and unterminated / before a second paragraph)")
EXHAUSTIVE = {tier: text + "; " + EXHAUSTIVE_SIZES + "; " + EXHAUSTIVE_WHITE_SPACE
              for tier, text in EXHAUSTIVE.items()}
BUDGET = {"quick": 240, "thorough": 2400}

INTERP = {"ws": LIST_SPACE_SEPARATED_INTERPRETATION, "comma": LIST_COMMA_SEPARATED_INTERPRETATION}


# Formatters for view.value_formatter(): the one the library ships, and two written here that follow
# the rules of the format_field() docstring (output ends on a newline; a continuation marker before
# every value that follows a newline; comment tokens only directly after a newline; values as-is and
# in order; comments may be dropped; separators are placed by the formatter).


def fmt_single_line(name, sep_token, tokens):
    """All values on the first line; comments are dropped (explicitly allowed)."""
    first = True
    for t in tokens:
        if not t.is_value:
            continue
        if first:
            yield " "
        elif sep_token.is_whitespace:
            yield " "
        else:
            yield sep_token
            yield " "
        yield t
        first = False
    yield "\n"


def fmt_leading_separator(name, sep_token, tokens):
    """Empty first line, one value per tab-marked line, separators lead, comments are kept."""
    yield "\n"
    first = True
    for t in tokens:
        if t.is_comment:
            yield t
        elif t.is_value:
            yield "\t"
            if not first and not sep_token.is_whitespace:
                yield sep_token
                yield " "
            yield t
            yield "\n"
            first = False


FORMATTERS = {"lib": one_value_per_line_trailing_separator, "line": fmt_single_line,
              "lead": fmt_leading_separator}
assert tuple(FORMATTERS) == G.FORMATTER_NAMES


# ------------------------------------------------------------------------------------------
# helpers


def structure(f):
    """[[field names] per paragraph] of a parsed file."""
    return [[str(k) for k in p.iter_keys()] for p in f]


def own_syntax_problem(name, ftext, must_end_nl):
    """Library-independent well-formedness of the text of one field (name + ':' + value)."""
    if not ftext.startswith(name + ":"):
        return "does not start with the field name"
    if must_end_nl and not ftext.endswith("\n"):
        return "not terminated although another line follows"
    lines = ftext.split("\n")
    if lines[-1] == "":
        lines.pop()
    for l in lines[1:]:
        if l.startswith("#"):
            continue
        if l[:1] not in (" ", "\t"):
            return "line %r is neither a comment nor a continuation line" % l
        if l.strip() == "":             # Unicode white space: such a line ends the paragraph
            return "blank continuation line"
    if len(lines) > 1 and lines[-1].startswith("#"):
        return "field ends on a comment line"
    return None


def read_sig(value_text, got):
    if value_text.startswith("#"):
        return "first-line-hash-read-as-comment"
    if any("\n#" in v for v in got):
        return "comment-leaks-into-value"
    return "read-differs"


def layout_labels(case, value_text, values):
    kind, first, rest = case["kind"], case["first"], case["rest"]
    out = ["kind:" + kind, "lines:%d" % min(1 + len([r for r in rest if not r.startswith("#")]), 4),
           "values:%s" % (len(values) if len(values) < 4 else "4+")]
    ncom = len([r for r in rest if r.startswith("#")])
    if ncom:
        out.append("comment-lines-in-field")
    if first == "":
        out.append("first-line-empty")
    elif first.strip() == "":
        out.append("first-line-blanks-only")
    elif not first[0].isspace():
        out.append("no-blank-after-colon")
    if any(r.startswith("\t") for r in rest):
        out.append("tab-continuation")
    if any(r[:1] in " \t" and r[1:2] in (" ", "\t") for r in rest):
        out.append("extra-indentation")
    content = [l for _, l in G.content_lines(value_text) if l != ""]
    if any(l != l.rstrip() for l in content):
        out.append("trailing-blanks")
    if any(v.startswith("#") for v in values) or any("#" in v for v in values):
        out.append("hash-in-value")
    if len(set(values)) < len(values):
        out.append("duplicate-values")
    if kind == "comma":
        flat = "\n".join(l for _, l in G.content_lines(value_text))
        squeezed = "".join(flat.split())
        if squeezed.endswith(","):
            out.append("trailing-comma")
        if squeezed.startswith(","):
            out.append("leading-comma")
        if ",," in squeezed:
            out.append("doubled-comma")
        if any(l.strip() == "," for l in content):
            out.append("comma-alone-on-line")
        if any("\n" in v for v in values):
            out.append("item-spans-lines")
        raw = value_text.split("\n")
        for no in G.comment_line_numbers(value_text):
            before = [l for l in raw[:no] if not l.startswith("#") or l is raw[0]]
            after = [l for l in raw[no + 1:] if not l.startswith("#")]
            if before and before[-1].rstrip().endswith(","):
                out.append("comma-before-comment")
            if after and after[0].lstrip().startswith(","):
                out.append("comma-after-comment")
        spans = G.value_spans(kind, value_text)
        if any(a < no < b for a, b in spans for no in G.comment_line_numbers(value_text)):
            out.append("comment-inside-item")
    else:
        if any(("," in v) for v in values):
            out.append("comma-in-ws-value")
    odd = sorted(set(c for l in [first] + list(rest) for c in l if c in G.ODD_BLANKS))
    if odd:
        out.append("odd-blank-in-field")
        out.extend("odd-blank:U+%04X" % ord(c) for c in odd)
        flat = "\n".join(l for _, l in G.content_lines(value_text))
        if any(c in G.ODD_BLANKS and not a.isspace() and not b.isspace()
               for a, c, b in zip(flat, flat[1:], flat[2:])):
            out.append("odd-blank-alone-between-words" if kind == "ws" else "odd-blank-inside-item")
        if any(c in G.ODD_BLANKS and a in " \t" and b in " \t" for a, c, b in zip(flat, flat[1:], flat[2:])):
            out.append("odd-blank-between-ordinary-blanks")
    breakers = G.line_breakers(case)
    if case.get("eol"):
        out.append("cr-lf-document")
    elif breakers:
        out.extend("line-ends-on:U+%04X" % ord(c) for c in breakers)
    if not case["tail"]:
        out.append("list-field-is-last" + ("" if case["eof_nl"] else "-unterminated"))
    if "" in case["tail"]:
        out.append("second-paragraph")
    if any(h.startswith("#") for h in case["head"][-1:]):
        out.append("field-comment")
    return out


BIG_BLANKS = re.compile(r"[ \t]{100}")


def size_labels(case, value_text, values):
    """What in the field is bigger than a small fixed buffer / window / look-ahead would hold."""
    out = []

    def grade(what, n, steps):
        hit = [s for s in steps if n >= s]
        if hit:
            out.append("size:%s>=%d" % (what, hit[-1]))

    grade("values", len(values), (20, 100, 1000))
    grade("field-lines", 1 + len(case["rest"]), (7, 20, 100, 1000))
    grade("value-chars", max(len(v) for v in values), (100, 1000, 100000))
    lines = [case["first"]] + list(case["rest"])
    grade("line-chars", max(len(l) for l in lines), (1000, 100000))
    if case["kind"] == "comma":
        grade("item-lines", max(v.count("\n") for v in values) + 1, (4, 7, 20, 40))
        grade("item-words", max(len(v.split()) for v in values), (4, 7, 20, 40))
    run = best = 0
    for l in case["rest"]:
        run = run + 1 if l.startswith("#") else 0
        best = max(best, run)
    grade("comment-run", best, (4, 7, 20, 40))
    if BIG_BLANKS.search(value_text):
        out.append("size:blank-run>=100")
    return out


def comment_adjacent(kind, value_text, idx):
    """Is there a comment line between value idx and a neighbouring value, or inside it?"""
    spans = G.value_spans(kind, value_text)
    coms = G.comment_line_numbers(value_text)
    if not (0 <= idx < len(spans)) or not coms:
        return False
    lo = spans[idx - 1][1] if idx > 0 else 0
    hi = spans[idx + 1][0] if idx + 1 < len(spans) else spans[idx][1]
    return any(lo <= c <= hi for c in coms)


# ------------------------------------------------------------------------------------------
# a second, read-only view of the same field


class _Abandoned(Exception):
    """The caller's own exception, raised inside a ``with`` block."""


class Probe(object):
    """At most one at a time; lives in check() so that it survives reopen / reenter."""

    def __init__(self, f, para, kind, name, labels):
        self.f, self.para, self.kind, self.name, self.labels = f, para, kind, name, labels
        self.view = None

    def open(self, how, doc_values, value_text):
        if self.view is not None:
            return
        view = self.para.as_interpreted_dict_view(INTERP[self.kind])[self.name]
        view.__enter__()
        self.view = view
        got = None
        if how == "iter":
            got = list(view)
        elif how == "refs":
            got = [r.value for r in view.iter_value_references()]
        if got is not None and got != doc_values:
            raise Violation(read_sig(value_text, got), "a second view (read with %s) of %s yields %s, "
                            "splitting gives %s" % (how, short(value_text), short(got), short(doc_values)))
        self.labels.add("second-view:read-" + how)

    def close(self, when):
        if self.view is None:
            return
        before = self.f.dump()
        view, self.view = self.view, None
        view.__exit__(None, None, None)
        after = self.f.dump()
        self.labels.add("second-view:closed-" + when)
        if after != before:
            raise Violation("read-only-view-wrote-on-close", "closing a second view that was only read "
                            "(%s) turned %s into %s" % (when, short(before), short(after)))


# ------------------------------------------------------------------------------------------
# one view object: one or several ``with`` sessions


EDITORS = ("remove", "replace", "ref_set", "ref_remove", "drain", "reformat", "formatter")
APPENDERS = ("append", "append_comment", "append_newline", "append_separator")


class Session(object):
    def __init__(self, case, para, value_text, values, labels, probe, capture):
        self.kind = case["kind"]
        self.name = case["name"]
        self.observe = case["observe"]
        self.para = para
        self.labels = labels
        self.probe = probe
        self.capture = capture  # take one reference per value when the view is first entered
        self.breakers = G.line_breakers(case)   # see unsupported()
        self.model = [[i, v] for i, v in enumerate(values)]     # [id, value]
        self.next_id = len(values)
        self.view = None
        self.viewobj = None
        self.captured = []
        self.entered = 0
        self.reformat = False
        # the view may end on a comment line (append_comment without a value after it); only
        # append() resets this, so it over-approximates: closing may then fail with ValueError
        self.tail_comment = False
        # steps whose effect on "is the field written back" no docstring states were made on this
        # view object: closing it without an edit need not leave the field byte-identical
        self.touched = False
        self.begin(value_text, values)

    def begin(self, value_text, doc_values):
        """A new ``with`` session starts on the document text ``value_text``."""
        self.value_text = value_text
        self.doc_values = list(doc_values)
        self.edits = 0          # successful mutating steps of this session
        self.refusals = 0       # mutators that refused their argument (ValueError) in this session

    def vals(self):
        return [v for _, v in self.model]

    def open_view(self):
        return self.para.as_interpreted_dict_view(INTERP[self.kind])[self.name]

    def compare_view(self, after):
        got = list(self.view)
        if got != self.vals():
            sig = "comment-leaks-into-value" if any("\n#" in v for v in got) else "step-view-differs"
            raise Violation(sig, "after %s the open view yields %s, edited list is %s; field text was %s"
                            % (after, short(got), short(self.vals()), short(self.value_text)))

    def not_found(self, op, v, err):
        got = list(self.view)
        sig = "comment-leaks-into-value" if any("\n#" in x for x in got) else "existing-value-not-found"
        raise Violation(sig, "%s of %r, which is in the list %s, raised ValueError(%s); the view renders %s"
                        % (op, v, short(self.vals()), short(str(err), 80), short(got)))

    def position_labels(self, pos, what):
        n = len(self.model)
        if n == 1:
            self.labels.add(what + ":only-value")
        elif pos == 0:
            self.labels.add(what + ":first-value")
        elif pos == n - 1:
            self.labels.add(what + ":last-value")
        else:
            self.labels.add(what + ":middle-value")
        if self.edits == 0 and self.entered == 1 and not self.touched and self.model[pos][0] == pos \
                and comment_adjacent(self.kind, self.value_text, pos):
            self.labels.add("comment-adjacent-to-removed")

    def set_value(self, setter, v):
        """Run a step that stores the new value ``v``; False if it was (legitimately) rejected."""
        try:
            setter()
        except ValueError as e:
            if v.startswith("#") and "not in list" not in str(e):
                self.labels.add("hash-led-new-value-rejected")
                return False
            raise
        if "\n" in v:
            self.labels.add("new-value-spans-lines")
        if v.startswith("#"):
            self.labels.add("hash-led-new-value-accepted")
        return True

    def all_refs(self):
        refs = list(self.view.iter_value_references())
        if len(refs) != len(self.model):
            raise Violation("reference-count-differs", "%d references for the list %s"
                            % (len(refs), short(self.vals())))
        return refs

    def pick_ref(self, i, fresh):
        """(position in the model, ValueReference)."""
        live_ids = [m[0] for m in self.model]
        if not fresh:
            live = [(vid, r) for vid, r in self.captured if vid in live_ids]
            if live:
                vid, ref = live[i % len(live)]
                self.labels.add("captured-reference-used")
                if self.entered > 1:
                    self.labels.add("reference-from-earlier-session-used")
                return live_ids.index(vid), ref
        refs = self.all_refs()
        pos = i % len(refs)
        return pos, refs[pos]

    def refused(self, what, call, v):
        """``call`` hands ``v`` (no value of this kind) to a mutator: ValueError, nothing else happens.

        The caller catches the error and carries on; everything checked from here on (the open view,
        closing without an edit, the post-conditions of later edits) uses the unchanged model.
        """
        try:
            call()
        except ValueError:
            self.refusals += 1
            self.labels.add("op:%s-refused" % what)
            self.labels.add("refused-value:" + ("empty" if v == "" else "line-break" if "\n" in v else
                                                "blanks-around" if v != v.strip() else
                                                "separator-inside"))
            if self.edits:
                self.labels.add("refused-after-edit")
            return
        raise Violation("non-item-value-accepted", "%s took %r, which is no single %s-list value; "
                        "list was %s" % (what, v, self.kind, short(self.vals())))

    def edited(self, label):
        self.edits += 1
        self.labels.add(label)
        if self.refusals:
            self.labels.add("edit-after-refused-value")
        if self.entered > 1:
            self.labels.add("edit-in-re-entered-view")
        if self.probe.view is not None:
            self.labels.add("edit-while-second-view-alive")

    def unsupported(self, op):
        """Would ``op`` write the field back although it holds LINE_BREAKERS (see ASSUMPTIONS)?"""
        k = op[0]
        if k in ("append", "replace", "ref_set") and \
                not G.valid_new_value(self.kind, op[1] if k == "append" else op[2]):
            return False        # refused (or skipped) anyway: nothing is written
        if self.breakers == "\r":
            return k in APPENDERS
        return k in EDITORS or k in APPENDERS

    def step(self, op):
        k, view, model = op[0], self.view, self.model
        if self.breakers and self.unsupported(op):
            self.labels.add("op-not-made:field-holds-line-breaker")
            return
        if k == "append":
            v = op[1]
            if not G.valid_new_value(self.kind, v):
                if G.refusable_value(self.kind, v):
                    self.refused("append", lambda: view.append(v), v)
                else:
                    self.labels.add("invalid-new-value-skipped")
                return
            if self.set_value(lambda: view.append(v), v):
                model.append([self.next_id, v])
                self.next_id += 1
                if self.tail_comment:
                    self.labels.add("append-after-comment")
                self.tail_comment = False
                self.edited("op:append" + ("-to-emptied-list" if len(model) == 1 else ""))
        elif k in ("remove", "replace"):
            if not model:
                return
            v = model[op[1] % len(model)][1]
            pos = self.vals().index(v)                      # the first instance is affected
            if k == "remove":
                self.position_labels(pos, "removed")
                try:
                    view.remove(v)
                except ValueError as e:
                    self.not_found("remove", v, e)
                del model[pos]
                self.edited("op:remove")
            else:
                w = op[2]
                if not G.valid_new_value(self.kind, w):
                    if G.refusable_value(self.kind, w):
                        self.refused("replace", lambda: view.replace(v, w), w)
                    else:
                        self.labels.add("invalid-new-value-skipped")
                    return
                try:
                    ok = self.set_value(lambda: view.replace(v, w), w)
                except ValueError as e:
                    self.not_found("replace", v, e)
                if ok:
                    model[pos][1] = w
                    self.edited("op:replace")
        elif k in ("ref_set", "ref_remove"):
            if not model:
                return
            pos, ref = self.pick_ref(op[1], op[-1])
            if self.observe and ref.value != model[pos][1]:
                raise Violation("reference-reads-wrong-value", "reference %d reads %r, list is %s"
                                % (pos, ref.value, short(self.vals())))
            if k == "ref_remove":
                self.position_labels(pos, "removed")
                ref.remove()
                del model[pos]
                self.edited("op:ref-remove")
            else:
                w = op[2]

                def assign():
                    ref.value = w
                if not G.valid_new_value(self.kind, w):
                    if G.refusable_value(self.kind, w):
                        self.refused("ref-set", assign, w)
                        if self.observe and ref.value != model[pos][1]:
                            raise Violation("reference-reads-wrong-value", "after the refused ref.value"
                                            " = %r the reference reads %r, list is %s"
                                            % (w, ref.value, short(self.vals())))
                    else:
                        self.labels.add("invalid-new-value-skipped")
                    return
                if self.set_value(assign, w):
                    model[pos][1] = w
                    self.edited("op:ref-set")
                    if self.observe and ref.value != w:
                        raise Violation("reference-reads-wrong-value",
                                        "after ref.value = %r the reference reads %r" % (w, ref.value))
        elif k in ("remove_absent", "replace_absent"):
            v = op[1]
            if v in self.vals():
                return
            try:
                if k == "remove_absent":
                    view.remove(v)
                else:
                    view.replace(v, op[2])
            except ValueError:
                self.labels.add("op:absent-value-rejected")
            else:
                raise Violation("absent-value-accepted", "%s(%r) did not raise ValueError; list is %s"
                                % (k.split("_")[0], v, short(self.vals())))
        elif k == "drain":
            while model:
                pos = len(model) - 1 if op[1] else 0
                v = model[pos][1]
                pos = self.vals().index(v)
                self.position_labels(pos, "removed")
                try:
                    view.remove(v)
                except ValueError as e:
                    self.not_found("remove", v, e)
                del model[pos]
                self.edits += 1
            self.labels.add("op:drain")
        elif k == "reformat":
            view.reformat_when_finished()
            self.edits += 1
            self.reformat = True
        elif k == "noreformat":
            view.no_reformatting_when_finished()
            self.reformat = False
        elif k == "formatter":
            # docstring: "force_reformat: If True, always reformat the field even if there are no
            # (other) changes performed.  By default, fields are only reformatted if they are changed."
            fmt, force = FORMATTERS[op[1]], op[2]
            when = "after-edit" if self.edits else "before-any-edit"
            if force is None:
                view.value_formatter(fmt)
            elif op[1] == "line":
                view.value_formatter(fmt, force)
            else:
                view.value_formatter(fmt, force_reformat=force)
            if force:
                self.edits += 1         # like reformat_when_finished(): the field may be rewritten
            self.reformat = True
            self.labels.add("op:formatter-" + op[1])
            self.labels.add("formatter:%s,%s" % ("forced" if force else "not-forced", when))
        elif k == "append_comment":
            text = op[1]
            if text != "" and text.strip(" \t") == "":
                self.labels.add("blank-only-comment-skipped")       # see ASSUMPTIONS
                return
            view.append_comment(text)
            self.tail_comment = True
            self.touched = True
            self.labels.add("op:append-comment")
        elif k == "append_newline":
            try:
                view.append_newline()
            except ValueError:
                # "Cannot add a newline after a token that ends on a newline": no docstring, the
                # message states the precondition; whether it holds is not modelled
                self.labels.add("op:append-newline-rejected")
                return
            self.touched = True
            self.labels.add("op:append-newline")
        elif k == "append_separator":
            if self.kind != "comma" or not model:
                return          # ws: a blank after a line break would be a blank line; emptied list:
                                # a lonely comma is "content", the field would be written without value
            view.append_separator(space_after_separator=op[1])
            self.touched = True
            self.labels.add("op:append-separator")
        elif k == "read":
            if op[1] == "iter":
                self.compare_view("read")
            else:
                got = [r.value for r in self.all_refs()]
                if got != self.vals():
                    raise Violation("reference-reads-wrong-value", "the references read %s, list is %s"
                                    % (short(got), short(self.vals())))
            self.labels.add("op:read-" + op[1])
        elif k == "probe_open":
            self.probe.open(op[1], self.doc_values, self.value_text)
        elif k == "probe_close":
            self.probe.close("inside-the-session")

    def run(self, ops):
        """Apply ``ops`` inside one ``with``; returns True when the close raised ValueError."""
        closing = False
        if self.viewobj is None:
            self.viewobj = self.open_view()
        self.entered += 1
        try:
            with self.viewobj as view:
                self.view = view
                if self.capture and self.entered == 1:
                    self.captured = [(m[0], r) for m, r in zip(self.model, self.all_refs())]
                if self.observe:
                    self.compare_view("opening")
                for op in ops:
                    self.step(op)
                    if self.observe:
                        self.compare_view(op[0])
                closing = True
        except ValueError:
            if not closing or (self.model and not self.tail_comment):
                raise          # outside the contract: classified by the engine (EXC:ValueError@frame)
            return True
        finally:
            self.view = None
        if self.reformat and self.edits:
            self.labels.add("closed-in-reformat-mode")
        return False


def uses_captured(ops):
    return any(op[0] in ("ref_set", "ref_remove") and not op[-1] for op in ops)


def check(case):
    if G.invalid(case) is not None:
        return (False, ("invalid-case-skipped",))
    compact = "layout" in case
    case = G.expand(case)               # a compact "layout" is spelled out as first / rest
    kind, name = case["kind"], case["name"]
    prefix, ftext, suffix = G.doc_parts(case)
    doc = prefix + ftext + suffix
    value_text = ftext[len(name) + 1:]
    values = G.split_values(kind, value_text)
    if "expect" in case and case["expect"] != values:
        # the generator built the field from these values: the splitting oracle must find them again
        raise AssertionError("harness: the field %r was built from %r, split_values() gives %r"
                             % (value_text, case["expect"], values))
    labels = set(layout_labels(case, value_text, values))
    labels.update(size_labels(case, value_text, values))
    if compact:
        labels.add("compact-layout")
    labels.add("observe:" + ("after-every-step" if case["observe"] else "never"))

    f = parse_deb822_file(iter(G.text_to_lines(doc)))
    if f.find_first_error_element() is not None:
        return (False, ("original-has-error-tokens",))       # C01/C02 territory, never expected
    shape = structure(f)
    para = next(iter(f))
    if f.dump() != doc:
        return (False, ("original-does-not-round-trip",))    # C01 territory

    segments = [["open", []]]
    for op in case["history"]:
        if op[0] in ("reopen", "reenter"):
            segments.append([op[0], []])
        else:
            segments[-1][1].append(op)
    if any(how == "reopen" for how, _ in segments):
        labels.add("reopened")

    # Every documented way to a view of the field must show the same thing at any time.
    def fresh_reads(p):
        yield "as_interpreted_dict_view()[name]", list(p.as_interpreted_dict_view(INTERP[kind])[name])
        yield "get_kvpair_element(name).interpret_as()", list(p.get_kvpair_element(name).interpret_as(INTERP[kind]))
        yield "interpretation.interpret(kvpair)", list(INTERP[kind].interpret(p.get_kvpair_element(name)))

    # An edit that is abandoned - the ``with`` block is left by the caller's own exception, so
    # nothing is written back - made first on the same field through each route, in about half of
    # the cases: the document is unchanged, and every later view shows the field's text.
    if values and not G.line_breakers(case) and zlib.crc32(doc.encode("utf-8")) & 1:
        for route in (lambda: para.as_interpreted_dict_view(INTERP[kind])[name],
                      lambda: para.get_kvpair_element(name).interpret_as(INTERP[kind])):
            try:
                with route() as view:
                    view.append(values[-1])
                    view.remove(values[0])
                    raise _Abandoned()
            except _Abandoned:
                pass
        labels.add("abandoned-edit-before")
        if f.dump() != doc:
            raise Violation("abandoned-edit-changed-document", "views left by an exception after append(%r) and "
                            "remove(%r) turned %s into %s" % (values[-1], values[0], short(doc), short(f.dump())))
        for what, got in fresh_reads(para):
            if got != values:
                raise Violation(read_sig(value_text, got), "after an abandoned edit a fresh view (%s) of %s yields "
                                "%s, splitting gives %s" % (what, short(name + ":" + value_text), short(got), short(values)))
            if f.dump() != doc:
                raise Violation("noop-changes-document", "after an abandoned edit, reading a fresh view (%s) "
                                "turned %s into %s" % (what, short(doc), short(f.dump())))

    probe = Probe(f, para, kind, name, labels)
    total_edits = total_refusals = 0
    s = None
    for no, (how, ops) in enumerate(segments):
        if s is None or how != "reenter":
            # (1) a fresh view reads exactly the split values
            for what, got in fresh_reads(para):
                if got != values:
                    raise Violation(read_sig(value_text, got), "view (%s) of %s yields %s, splitting gives %s"
                                    % (what, short(name + ":" + value_text), short(got), short(values)))
            same_view = list(ops)
            for how2, ops2 in segments[no + 1:]:
                if how2 != "reenter":
                    break
                same_view += ops2
            s = Session(case, para, value_text, values, labels, probe, uses_captured(same_view))
        else:
            s.begin(value_text, values)
            labels.add("same-view-re-entered")
        close_failed = s.run(ops)
        dump = f.dump()
        if close_failed:
            # the list was emptied, or the view may end on a comment line
            labels.add("list-emptied" if not s.model else "close-rejected-after-append-comment")
            if dump != doc:
                raise Violation("failed-close-changed-document", "%s became %s" % (short(doc), short(dump)))
            s = None                      # document unchanged: the next session starts from it
            continue
        if not s.model:
            labels.add("list-emptied")
            raise Violation("emptied-list-accepted", "closing a view whose last value was removed "
                            "did not raise ValueError; dump is %s" % short(dump))
        if s.edits == 0 and not s.touched:
            labels.add("closed-without-change")
            if s.refusals:
                labels.add("closed-after-refused-values-only")
                total_refusals += s.refusals
            if dump != doc:
                if s.refusals:
                    raise Violation("refused-edit-changed-document", "a view on which every mutator "
                                    "call was refused with ValueError turned %s into %s when closed "
                                    "(steps: %s)" % (short(doc), short(dump), short(ops)))
                raise Violation("noop-changes-document", "open/close without a successful edit turned "
                                "%s into %s (steps: %s)" % (short(doc), short(dump), short(ops)))
            continue
        total_edits += s.edits
        total_refusals += s.refusals
        # (3) locality, validity, read-back
        if not (dump.startswith(prefix + name + ":") and dump.endswith(suffix)
                and len(dump) >= len(prefix) + len(name) + 1 + len(suffix)):
            raise Violation("other-fields-changed", "%s became %s after %s"
                            % (short(doc), short(dump), short(ops)))
        new_ftext = dump[len(prefix):len(dump) - len(suffix)]
        problem = own_syntax_problem(name, new_ftext, bool(suffix))
        if problem:
            raise Violation("syntax-invalid-after-edit", "%s: %s (from %s by %s)"
                            % (problem, short(new_ftext), short(ftext), short(ops)))
        f2 = parse_deb822_file(iter(G.text_to_lines(dump)))
        if f2.find_first_error_element() is not None or structure(f2) != shape:
            raise Violation("syntax-invalid-after-edit", "re-parsing %s gives error tokens or the "
                            "fields %s (was %s)" % (short(dump), short(structure(f2)), short(shape)))
        new_value_text = new_ftext[len(name) + 1:]
        want = s.vals()
        got = G.split_values(kind, new_value_text)
        if got != want:
            raise Violation("reparse-differs", "new text %s splits into %s, edited list is %s (from %s by %s)"
                            % (short(new_ftext), short(got), short(want), short(ftext), short(ops)))
        for what, p in (("same paragraph", para), ("re-parsed dump", next(iter(f2)))):
            for route, got in fresh_reads(p):
                if got != want:
                    raise Violation(read_sig(new_value_text, got), "fresh view (%s, %s) of %s yields %s, edited "
                                    "list is %s" % (what, route, short(new_ftext), short(got), short(want)))
        if not suffix and not doc.endswith("\n"):
            labels.add("edited-unterminated-last-field")
        doc, ftext, value_text, values = dump, new_ftext, new_value_text, want

    # a second view that is still alive is closed last: nothing may happen to the document
    probe.close("after-the-edited-view")

    multi = bool(case["rest"])
    return (multi and (total_edits > 0 or total_refusals > 0), sorted(labels))


# ------------------------------------------------------------------------------------------


def sources(tier):
    if tier == "quick":
        return [Enum("layouts<=2-single-edits", G.enum_cases(2, False), EXHAUSTIVE["quick"]),
                Enum("sizes", G.enum_sizes("quick"), EXHAUSTIVE_SIZES),
                Enum("white-space", G.enum_odd_blanks(), EXHAUSTIVE_WHITE_SPACE),
                Hyp("fields-x-histories", G.gen_case(5, 4), 700, shards=16)]
    return [Enum("layouts<=3-single-edits+removal-pairs", G.enum_cases(3, True), EXHAUSTIVE["thorough"]),
            Enum("sizes", G.enum_sizes("thorough"), EXHAUSTIVE_SIZES),
            Enum("white-space", G.enum_odd_blanks(), EXHAUSTIVE_WHITE_SPACE),
            Hyp("fields-x-histories", G.gen_case(5, 4), 15000, shards=10),
            Hyp("long-fields-x-histories", G.gen_case(8, 6), 10000, shards=6)]
