"""Atheris campaigns (thorough tier): run in a child process because libFuzzer never returns.

The child (``python -m vcheck.fuzzchild``) instruments ``debian`` on import, decodes the bytes
into a case with the property module's decoder and sends it through the same oracle as every
other source; it never crashes on a Violation (it records the smallest case per signature and
goes on), so one campaign can surface several root causes.  Its recorder is dumped to a pickle
every few thousand executions; the parent merges the last dump.
"""
import os
import pickle
import shutil
import subprocess
import sys
import tempfile

from .. import boot


def run_atheris(module, decoder, shard, seed, deadline, rec, runs, max_len, corpus):
    import time
    try:
        boot.ensure_pkg("atheris")
    except Exception as e:  # pylint: disable=broad-except
        rec.note("atheris-unavailable")
        return
    tmp = tempfile.mkdtemp(prefix="vcheck-fuzz-")
    try:
        cdir = os.path.join(tmp, "corpus")
        os.mkdir(cdir)
        for i, c in enumerate(corpus):
            with open(os.path.join(cdir, "seed%d" % i), "wb") as f:
                f.write(c)
        out = os.path.join(tmp, "rec.pickle")
        env = dict(os.environ, PYTHONHASHSEED="0")
        env["PYTHONPATH"] = os.pathsep.join([boot.ROOT, boot.DEPS] + env.get("PYTHONPATH", "").split(os.pathsep))
        left = max(5, int(deadline - time.time()))
        cmd = [sys.executable, "-m", "vcheck.fuzzchild", module, decoder, out, str(deadline),
               "-runs=%d" % runs, "-seed=%d" % (seed % (2 ** 31 - 1) + 1), "-max_len=%d" % max_len,
               "-max_total_time=%d" % left, "-verbosity=0", "-print_final_stats=0", cdir]
        r = subprocess.run(cmd, env=env, cwd=boot.ROOT, stdout=subprocess.PIPE,
                           stderr=subprocess.STDOUT, timeout=left + 120)
        if not os.path.exists(out):
            raise RuntimeError("atheris child produced nothing (rc=%s): %s" % (
                r.returncode, r.stdout.decode("utf-8", "replace")[-800:]))
        with open(out, "rb") as f:
            ex = pickle.load(f)
        rec.evals += ex["evals"]
        rec.hashes.update(ex["hashes"])
        rec.labels.update(ex["labels"])
        for c in ex["first"]:
            if len(rec.first) < 3:
                rec.first.append(c)
        rec.low.extend(tuple(x) for x in ex["low"])
        rec.low.sort(key=lambda t: t[0])
        for sig, (cnt, msg, case) in ex["failures"].items():
            from ..core import canon
            rec.failures.setdefault(sig, [cnt, msg, case, len(canon(case))])
        rec.note("fuzz_execs", ex["notes"].get("fuzz_execs", 0))
        rec.note("fuzz_undecodable", ex["notes"].get("fuzz_undecodable", 0))
        rec.note("fuzz_corpus:" + ("seeded" if corpus else "empty"), 1)
    finally:
        shutil.rmtree(tmp, ignore_errors=True)
