"""C20 - the debtags database keeps its two indexes mutually inverse.

case = {"kind": "history",
        "init":   [[packages, tags, style], ...],   text lines for the first database's read()
        "filter": null | [tags the tag_filter lets through],
        "ops":    [[op, target, args...], ...]}

The history runs over a *pool* of databases; ``target`` is an index modulo the number of live
pool members.  Operations (an inapplicable one is skipped):

  ["insert", i, pkg, tags]                       only a package name the target does not have
  ["reverse"|"reverse_copy"|"copy"|"facet", i]   derivation, result appended to the pool
  ["choose"|"choose_copy"|"filter_packages"|"filter_packages_copy", i, pkgs]
  ["filter_packages_tags"|"filter_packages_tags_copy", i, pkgs, tags]   keeps (p, ts) with p in pkgs or ts & tags
  ["filter_tags"|"filter_tags_copy", i, tags]
  ["read", lines, filter]                        a new database read from text
  ["reread", i, lines, filter]                   read() into a database that already holds a collection
  ["mquery", i, names]                           packages_of_tags / tags_of_packages / ideal_tagset, each with
                                                 every rotation of the non-empty name list (see do_mquery)
  ["qio", i, [j, k], "fresh"|"reuse"|"into"]     qwrite() of members i, j, k one after another into one
                                                 in-memory file, qread() back in the same order (see do_qio)

After every step every live database is compared with its reference state (model/c20_relation.py)
through the public query methods.  A derivation documented as *sharing* sets with its source joins
the source's sharing class; an insert into one member retires all other members of the class (their
consistency is not promised).  A derivation documented as a *copy* starts a class of its own and
must stay exact whatever happens to its source afterwards, and vice versa.  A database obtained
through qread() is compared with the state its writer had at qwrite() time and is independent of
everything.  A query (mquery) and a write-out (qwrite) must leave *every* database of the pool
exactly as it was; the value a multi-name query returns is only required to lie between the
intersection and the union of the single-name answers (docstring "all" vs. computed union).

Known finding "insert-chars" (known_findings.json): dual model, see check_step().
"""
import io
import os
import re

from hypothesis import strategies as st

from .. import findings
from ..core import Violation, Enum, Hyp, Custom, short
from ..model import c20_relation as rel

from debian.debtags import DB

ID = "C20"
LEVEL = "exploration"
RULE = ("cases are histories [init lines, tag filter, op list] over a pool of databases, compared "
        "with a reference relation after every step; enumerated: every op sequence of length 1..3 "
        "over a 19-operation alphabet (each derivation kind + 4 inserts + read() into an existing "
        "database + the multi-name queries with a 5-name list in every rotation + a qwrite/qread "
        "round trip of three pool members through one file) and, thorough only, of length 1..4 over "
        "the first 17 of them x "
        "target index 0..position on one fixed 5-package collection; generated: 0..8 initial packages "
        "in single- and multi-package lines (distinct names of 1..6 characters; one-character names in "
        "about half of the positions and exclusively in a quarter of the histories), 14 facet::tag "
        "names sharing 6 facets, optional tag_filter, 1..12 operations (thorough: 1..20) = inserts, "
        "all 12 derivations, further read()s into the pool and into existing members, multi-name "
        "queries (1..4 names, existing and absent, as drawn and rotated), qwrite/qread of 1..3 "
        "members through one in-memory file into fresh DBs / one reused DB / an existing member; "
        "thorough adds a RuleBasedStateMachine "
        "with a Bundle of databases driving the same interpreter. "
        "Non-trivial = at least one executed insert after at least one executed derivation, in a "
        "history where some database had a tag listing >= 2 packages; distinct = canonical JSON")
ASSUMPTIONS = [
    "reference relation vcheck/model/c20_relation.py (dict-of-sets semantics written from the docstrings)",
    "filter predicates are given as explicit sets; filter_packages_tags keeps (p, ts) with p in pkgs or ts & tags",
    "facet of a tag = text before its first ':'; facet_collection is exercised only when every tag has one",
    "M' (known finding insert-chars) replays facet_collection in the order iter_packages() yields",
    "packages_of_tags/tags_of_packages: only 'between intersection and union of the single-name answers' "
    "is demanded of the value (docstring says all, code unites); ideal_tagset: the set of a non-empty prefix "
    "of its argument; all three must leave every database unchanged",
    "qwrite/qread use io.BytesIO; a database read back must show exactly the writer's state (keys with empty "
    "sets included: both indexes are stored)",
    "Hypothesis 6.168 generators and stateful testing; sha1 for distinctness",
]
EXHAUSTIVE = {
    "quick": "all op sequences of length 1..3 over the 19-op alphabet (incl. multi-name queries and the pickle "
             "round trip) x target index 0..position on the fixed collection",
    "thorough": "all op sequences of length 1..3 over the 19-op alphabet and of length 1..4 over its first 17 ops "
                "(no multi-name queries / pickle round trip) x target index 0..position on the fixed collection",
}
BUDGET = {"quick": 200, "thorough": 1500}

KNOWN_ID = "insert-chars"
KNOWN_SIG = "insert-stores-name-characters"

SHARING = {"reverse": "reverse", "choose": "choose_packages", "filter_packages": "filter_packages",
           "filter_packages_tags": "filter_packages_tags", "filter_tags": "filter_tags"}
COPYING = {"reverse_copy": "reverse_copy", "copy": "copy", "facet": "facet_collection",
           "choose_copy": "choose_packages_copy", "filter_packages_copy": "filter_packages_copy",
           "filter_packages_tags_copy": "filter_packages_tags_copy",
           "filter_tags_copy": "filter_tags_copy"}
NAME_OK = re.compile(r"[^\s,:]+\Z")      # what a line of the text format can carry as a package
TAG_OK = re.compile(r"[^\s,]+\Z")
ABSENT = ["zz-absent", "a", "f::a"]


def strs(x):
    return [s for s in x if isinstance(s, str) and s] if isinstance(x, list) else []


# ------------------------------------------------------------------------------------------
# text form


def line_of(pkgs, tags, style):
    head = ", ".join(pkgs)
    if not pkgs:
        return "\n"
    if tags:
        if style % 4 == 3:
            return "%s:  %s  \n" % (head, ", ".join(tags))
        return "%s: %s\n" % (head, ", ".join(tags))
    return head + ("", ":", ": ", ":\t")[style % 4] + "\n"


def clean_lines(entries, labels):
    """Sanitise [[pkgs, tags, style]] (Hypothesis may shrink to anything): names must be
    representable in the text format, and every package occurs once in the whole text."""
    out, seen = [], set()
    for ent in entries if isinstance(entries, list) else []:
        if not (isinstance(ent, list) and len(ent) >= 2):
            continue
        pkgs = []
        for p in strs(ent[0]):
            if NAME_OK.match(p) and p not in seen:
                seen.add(p)
                pkgs.append(p)
            else:
                labels.add("note:init-name-dropped")
        tags = [t for t in strs(ent[1]) if TAG_OK.match(t)]
        style = ent[2] if len(ent) > 2 and isinstance(ent[2], int) else 0
        out.append((pkgs, tags, style))
    return out


# ------------------------------------------------------------------------------------------
# observing the implementation (public API only)


def observe(db, who):
    items = list(db.iter_packages_tags())
    ritems = list(db.iter_tags_packages())
    s = rel.State()
    for side, pairs, name in ((s.fwd, items, "iter_packages_tags"), (s.rev, ritems, "iter_tags_packages")):
        for pair in pairs:
            if not (isinstance(pair, tuple) and len(pair) == 2 and isinstance(pair[0], str)
                    and isinstance(pair[1], (set, frozenset))
                    and all(isinstance(x, str) for x in pair[1])):
                raise Violation("query:" + name, "%s yields %s" % (who, short(pair, 120)))
            if pair[0] in side:
                raise Violation("query:" + name, "%s yields key %r twice" % (who, pair[0]))
            side[pair[0]] = set(pair[1])
    return s


def check_queries(db, s, who):
    """Every query method agrees with the observed (and already model-checked) content ``s``."""
    def bad(method, arg, got, want):
        raise Violation("query:" + method, "%s: %s(%s) = %s, the relation says %s" % (
            who, method, "" if arg is None else repr(arg), short(got, 120), short(want, 120)))
    n, nt = len(s.fwd), len(s.rev)
    if db.package_count() != n:
        bad("package_count", None, db.package_count(), n)
    if db.tag_count() != nt:
        bad("tag_count", None, db.tag_count(), nt)
    for method, want in (("iter_packages", s.fwd), ("iter_tags", s.rev)):
        got = list(getattr(db, method)())
        if sorted(got, key=repr) != sorted(want, key=repr):
            bad(method, None, got, sorted(want))
    probes = set(s.fwd) | set(s.rev) | set(ABSENT)
    for k in sorted(probes):
        if db.has_package(k) != (k in s.fwd):
            bad("has_package", k, db.has_package(k), k in s.fwd)
        if db.tags_of_package(k) != s.fwd.get(k, set()):
            bad("tags_of_package", k, db.tags_of_package(k), s.fwd.get(k, set()))
        if db.has_tag(k) != (k in s.rev):
            bad("has_tag", k, db.has_tag(k), k in s.rev)
        want = s.rev.get(k, set())
        if db.packages_of_tag(k) != want:
            bad("packages_of_tag", k, db.packages_of_tag(k), want)
        if db.card(k) != len(want):
            bad("card", k, db.card(k), len(want))
        if db.discriminance(k) != min(len(want), n - len(want)):
            bad("discriminance", k, db.discriminance(k), min(len(want), n - len(want)))


# ------------------------------------------------------------------------------------------
# the interpreter


class Entry(object):
    def __init__(self, eid, db, origin, parent):
        self.id, self.db, self.origin, self.parent = eid, db, origin, parent
        self.S = None        # agreed observable state (M, or M' after a known-finding hit)
        self.T = None        # what M alone says (differs from S only downstream of a hit)
        self.cls = self
        self.live = True

    def find(self):
        e = self
        while e.cls is not e:
            e.cls = e.cls.cls
            e = e.cls
        return e

    def name(self):
        return "#%d(%s)" % (self.id, self.origin)


def _value_ids(db):
    ids = set()
    for attr in ("db", "rdb"):
        d = getattr(db, attr, None)
        if isinstance(d, dict):
            ids.update(id(v) for v in d.values())
    return ids


class Interp(object):
    def __init__(self):
        self.allowed = findings.allowed(ID)
        self.pool = []
        self.labels = set()
        self.hits = 0
        self.derived = False
        self.insert_after_derivation = False
        self.shared_tag = False
        self.steps = 0

    # -- pool -------------------------------------------------------------------------------

    def live(self):
        return [e for e in self.pool if e.live]

    def target(self, i):
        lv = self.live()
        return lv[(i if isinstance(i, int) and not isinstance(i, bool) else 0) % len(lv)]

    def add(self, db, origin, parent, share):
        e = Entry(len(self.pool), db, origin, parent)
        if share:
            e.cls = parent.find()
        self.pool.append(e)
        return e

    # -- the dual-model comparison ----------------------------------------------------------

    def settle(self, e, spec, dev, truth, opname, opt_fwd=(), opt_rev=()):
        """Compare database ``e`` after ``opname`` with M (``spec``); failing that, and only while
        the known finding is listed, with M' (``dev``).  Fitting neither is a Violation."""
        obs = observe(e.db, e.name())
        if rel.agrees(obs, spec, opt_fwd, opt_rev):
            pass
        elif dev is not None and rel.agrees(obs, dev, opt_fwd, opt_rev):
            if KNOWN_ID not in self.allowed:
                raise Violation(KNOWN_SIG, "%s on %s: %s  (specified: %s)" % (
                    opname, e.name(), rel.diff(obs, spec), spec.show()))
            self.hits += 1
            self.labels.add("hit-via:" + opname)
        else:
            raise Violation(opname + "-result", "%s gives %s: %s" % (
                opname, e.name(), rel.diff(obs, spec)))
        e.S = obs
        # optional keys the implementation chose to keep are part of what M says, too
        for k in obs.fwd:
            if k in opt_fwd and k not in truth.fwd:
                truth.fwd[k] = set()
        for k in obs.rev:
            if k in opt_rev and k not in truth.rev:
                truth.rev[k] = set()
        e.T = truth
        if e.S != e.T:
            self.labels.add("state-downstream-of-known-finding")
        elif not e.S.is_relation():
            raise AssertionError("model M produced a non-relation")
        check_queries(e.db, obs, e.name())
        if obs.max_card() >= 2:
            self.shared_tag = True

    def verify_others(self, actor, opname):
        """No live database other than ``actor`` may have changed."""
        for e in self.live():
            if e is actor:
                continue
            obs = observe(e.db, e.name())
            if obs != e.S:
                raise Violation(self.blame(actor, e, opname), "%s on %s changed %s: %s" % (
                    opname, actor.name(), e.name(), rel.diff(obs, e.S)))

    def blame(self, actor, victim, opname):
        """Name the copy-documented derivation between the two that shares set objects."""
        def chain(e):
            out = []
            while e is not None:
                out.append(e)
                e = e.parent
            return out
        ca, cv = chain(actor), chain(victim)
        common = [e for e in ca if e in cv]
        if common:
            lca = common[0]
            edges = cv[:cv.index(lca)] + ca[:ca.index(lca)]
            culprits = [e for e in edges if e.origin in COPYING.values()
                        and _value_ids(e.db) & _value_ids(e.parent.db)]
            if culprits:       # every such edge is needed for the damage; name the one nearest the victim
                return culprits[0].origin + "-shares-sets"
            named = sorted({e.origin for e in edges if e.origin in COPYING.values()})
            if named:
                return "+".join(named) + "-not-independent"
        return "%s-changes-unrelated-db" % opname

    # -- operations -------------------------------------------------------------------------

    def do_read(self, entries, flt, origin="read"):
        lines = clean_lines(entries, self.labels)
        allowed = None if flt is None else set(strs(flt))
        db = DB()
        text = [line_of(p, t, s) for p, t, s in lines]
        if allowed is None:
            db.read(iter(text))
        else:
            db.read(iter(text), lambda t: t in allowed)
            self.labels.add("read-with-tag-filter")
        if any(len(p) > 1 for p, _, _ in lines):
            self.labels.add("multi-package-line")
        if any(p and not t for p, t, _ in lines):
            self.labels.add("package-without-tags")
        e = self.add(db, origin, None, False)
        model_lines = [(p, t) for p, t, _ in lines if p]    # a line without packages is a blank line
        self.settle(e, rel.read(model_lines, allowed), None, rel.read(model_lines, allowed), "read")
        return e

    def do_reread(self, e, entries, flt):
        """read() into a database that already holds a collection: "Read the database from a file"
        - afterwards it holds what the text says (that is also what the code does: both indexes are
        rebound).  Views that shared sets with the old content are retired; whatever is derived
        from the database from now on must reflect the new content."""
        lines = clean_lines(entries, self.labels)
        allowed = None if flt is None else set(strs(flt))
        text = [line_of(p, t, s) for p, t, s in lines]
        if allowed is None:
            e.db.read(iter(text))
        else:
            e.db.read(iter(text), lambda t: t in allowed)
        for o in self.live():
            if o is not e and o.find() is e.find():
                o.live = False
        model_lines = [(p, t) for p, t, _ in lines if p]
        self.settle(e, rel.read(model_lines, allowed), None, rel.read(model_lines, allowed), "reread")
        self.labels.add("op:read-into-existing-db")
        return e

    def verify_all(self, actor, opname, sig):
        """A query / a write-out changes nothing: every live database still shows its state."""
        for o in self.live():
            obs = observe(o.db, o.name())
            if obs != o.S:
                raise Violation(sig, "%s on %s changed %s: %s" % (
                    opname, actor.name(), "itself" if o is actor else o.name(), rel.diff(obs, o.S)))

    def do_mquery(self, e, names):
        """The multi-name queries packages_of_tags / tags_of_packages / ideal_tagset, each called
        with every rotation of the (non-empty, duplicate-free) name list, so that every name is the
        first argument once.  What is demanded: they are *queries* - afterwards every database of
        the pool is unchanged - and the answer lies between the intersection and the union of the
        single-name answers (the docstrings say "all", the code takes the union: either reading
        passes); ideal_tagset returns the set of a non-empty prefix of its argument ("taken in
        consecutive sequence from the beginning", "always at least the first tag")."""
        names = [n for i, n in enumerate(strs(names)) if n not in strs(names)[:i]][:6]
        if not names:
            self.labels.add("note:mquery-skipped-empty-list")
            return None
        S = e.S
        for side, key in ((S.rev, "tags"), (S.fwd, "packages")):
            present = [n for n in names if n in side]
            if len(present) >= 2:
                self.labels.add("mquery:2+-existing-%s" % key)
                if any(side[n] - side[present[0]] for n in present[1:]):
                    self.labels.add("mquery:later-%s-add-to-the-first" % key)
            if present and len(present) < len(names):
                self.labels.add("mquery:existing-and-absent-%s" % key)
        for r in range(len(names)):
            arg = names[r:] + names[:r]
            for method, side in (("packages_of_tags", S.rev), ("tags_of_packages", S.fwd)):
                given = list(arg)
                got = getattr(e.db, method)(given)
                if not (isinstance(got, (set, frozenset)) and all(isinstance(x, str) for x in got)):
                    raise Violation("query:" + method, "%s: %s(%s) = %s" % (
                        e.name(), method, arg, short(got, 120)))
                parts = [side.get(n, set()) for n in arg]
                lo, hi = set.intersection(*parts), set().union(*parts)
                if not (lo <= set(got) <= hi):
                    raise Violation("query:" + method, "%s: %s(%s) = %s, not between the common "
                                    "members %s and all members %s of the single answers" % (
                                        e.name(), method, arg, short(sorted(got), 120),
                                        sorted(lo), sorted(hi)))
                if given != arg:
                    raise Violation("query:" + method, "%s(%s) left its argument as %s" % (
                        method, arg, short(given, 120)))
                self.verify_all(e, "%s(%s)" % (method, arg), method + "-changes-collection")
            given = list(arg)
            got = e.db.ideal_tagset(given)
            if not (isinstance(got, (set, frozenset))
                    and any(set(got) == set(arg[:k]) for k in range(1, len(arg) + 1))):
                raise Violation("query:ideal_tagset", "%s: ideal_tagset(%s) = %s, not a non-empty "
                                "prefix of the argument" % (e.name(), arg, short(got, 120)))
            if given != arg:
                raise Violation("query:ideal_tagset", "ideal_tagset(%s) left its argument as %s" % (
                    arg, short(given, 120)))
            self.verify_all(e, "ideal_tagset(%s)" % arg, "ideal_tagset-changes-collection")
        check_queries(e.db, e.S, e.name())
        self.labels.add("op:multi-name-queries")
        return None

    def do_qio(self, e, extras, mode):
        """qwrite()/qread(): the target and up to two more pool members are written one after
        another into ONE in-memory file, which is then read back in the same order

          "fresh"  into one new DB() per collection (all join the pool),
          "reuse"  all into one new DB() (checked after each qread; it joins the pool),
          "into"   all into the target itself, a database that already holds a collection
                   (views sharing sets with its old content are retired, as for reread).

        "Quickly write the data" / "Quickly read the data": after the k-th qread the database is
        exactly what the k-th writer showed when it was written (both indexes are stored, so this
        also holds downstream of the known finding); writing changes nothing."""
        mode = mode if mode in ("fresh", "reuse", "into") else "fresh"
        extras = [x for x in extras if isinstance(x, int) and not isinstance(x, bool)][:2] \
            if isinstance(extras, list) else []
        srcs = [e] + [self.target(x) for x in extras]
        if len(self.pool) + (len(srcs) if mode == "fresh" else 1) > 24:
            return None
        buf = io.BytesIO()
        for s in srcs:
            s.db.qwrite(buf)
            self.verify_all(s, "qwrite", "qwrite-changes-collection")
        written = [(s, s.S.copy(), s.T.copy()) for s in srcs]
        buf.seek(0)
        out = []
        holder = None
        if mode == "into":
            for o in self.live():
                if o is not e and o.find() is e.find():
                    o.live = False
            holder = e
            self.labels.add("qread-into-existing-db")
        for s, spec, truth in written:
            if holder is None:
                holder = self.add(DB(), "qread", s, False)
                out.append(holder)
            holder.db.qread(buf)
            self.settle(holder, spec, None, truth, "qread")
            self.verify_others(holder, "qread")
            if mode == "fresh":
                holder = None
        self.labels.add("op:qwrite/qread")
        if len(written) >= 2:
            self.labels.add("qio:2+-collections-in-one-file/" + mode)
            if any(a[1] != b[1] for a, b in zip(written, written[1:])):
                self.labels.add("qio:different-collections-in-one-file")
        if any(sp.fwd != sp.rev for _, sp, _ in written):
            self.labels.add("qio:collection-differs-from-its-reverse")
        if mode == "reuse":
            self.labels.add("qread-twice-into-one-db" if len(written) >= 2 else "qread-into-new-db")
        return out or None

    def do_insert(self, e, pkg, tags):
        if not isinstance(pkg, str) or not pkg or pkg in e.S.fwd or pkg in e.T.fwd:
            self.labels.add("note:insert-skipped-existing-name")
            return False
        tags = set(strs(tags))
        arg = set(tags)
        e.db.insert(pkg, arg)
        if arg != tags:
            raise Violation("insert-mutates-argument", "insert(%r, %s) left the argument as %s" % (
                pkg, sorted(tags), sorted(arg)))
        retired = 0
        for o in self.live():
            if o is not e and o.find() is e.find():
                o.live = False
                retired += 1
        self.labels.add("insert:1-char-name" if len(pkg) == 1 else "insert:multi-char-name")
        if any(t not in e.S.rev for t in tags):
            self.labels.add("insert:new-tag/1-char" if len(pkg) == 1 else "insert:new-tag/multi-char")
        if any(t in e.S.rev for t in tags):
            self.labels.add("insert:existing-tag")
        if retired:
            self.labels.add("insert-retires-sharing-views")
        if e.origin in COPYING.values():
            self.labels.add("insert-into-copy")
        if e.origin in SHARING.values():
            self.labels.add("insert-into-sharing-view")
        if any(o.live and o.parent is e and o.origin in COPYING.values() for o in self.pool):
            self.labels.add("insert-into-source-of-live-copy")
        if self.derived:
            self.insert_after_derivation = True
        self.settle(e, rel.insert(e.S, pkg, tags), rel.insert(e.S, pkg, tags, deviant=True),
                    rel.insert(e.T, pkg, tags), "insert")
        self.verify_others(e, "insert")
        return True

    def do_derive(self, op, e, a, b):
        S, T = e.S, e.T
        opt_fwd = opt_rev = ()
        dev = None
        if op in ("reverse", "reverse_copy"):
            nd = e.db.reverse() if op == "reverse" else e.db.reverse_copy()
            spec, truth = rel.swapped(S), rel.swapped(T)
        elif op == "copy":
            nd = e.db.copy()
            spec, truth = S.copy(), T.copy()
        elif op == "facet":
            tags = set(S.rev) | set(T.rev)
            for ts in S.fwd.values():
                tags |= ts
            if not all(rel.facetable(t) for t in tags):
                self.labels.add("note:facet-skipped-tag-without-facet")
                return None
            order = list(e.db.iter_packages())
            nd = e.db.facet_collection()
            spec, dev, truth = rel.facet(S), rel.facet(S, order, deviant=True), rel.facet(T)
            if len({rel.facet_of(t) for t in tags}) < len(tags):
                self.labels.add("facet-merges-tags")
        elif op in ("choose", "choose_copy", "filter_packages", "filter_packages_copy"):
            sel = set(strs(a))
            if op == "choose":
                nd = e.db.choose_packages(sorted(sel))
                if sel - set(S.fwd):
                    self.labels.add("choose-with-missing-package")
            elif op == "choose_copy":
                # choose_packages_copy is given existing packages only (it does not skip others)
                nd = e.db.choose_packages_copy(sorted(sel & set(S.fwd)))
            elif op == "filter_packages":
                nd = e.db.filter_packages(lambda p: p in sel)
            else:
                nd = e.db.filter_packages_copy(lambda p: p in sel)
            (spec, opt_rev), (truth, _) = (rel.restrict_packages(S, lambda p, ts: p in sel),
                                           rel.restrict_packages(T, lambda p, ts: p in sel))
        elif op in ("filter_packages_tags", "filter_packages_tags_copy"):
            sel, tsel = set(strs(a)), set(strs(b))
            pred = lambda pt: pt[0] in sel or bool(pt[1] & tsel)   # noqa: E731
            nd = (e.db.filter_packages_tags(pred) if op == "filter_packages_tags"
                  else e.db.filter_packages_tags_copy(pred))
            keep = lambda p, ts: p in sel or bool(ts & tsel)       # noqa: E731
            (spec, opt_rev), (truth, _) = rel.restrict_packages(S, keep), rel.restrict_packages(T, keep)
        elif op in ("filter_tags", "filter_tags_copy"):
            tsel = set(strs(a))
            nd = (e.db.filter_tags(lambda t: t in tsel) if op == "filter_tags"
                  else e.db.filter_tags_copy(lambda t: t in tsel))
            (spec, opt_fwd), (truth, _) = (rel.restrict_tags(S, lambda t: t in tsel),
                                           rel.restrict_tags(T, lambda t: t in tsel))
            if opt_fwd:
                self.labels.add("filter_tags-leaves-package-without-tags")
        else:
            return None
        if not isinstance(nd, DB):
            raise Violation(op + "-result", "%s returned %s" % (op, short(nd, 80)))
        share = op in SHARING
        origin = SHARING[op] if share else COPYING[op]
        if e.origin != "read":
            self.labels.add("derivation-of-derivation")
            if share and e.find() is not e:
                self.labels.add("transitive-sharing")
        n = self.add(nd, origin, e, share)
        self.labels.add("op:" + origin)
        if S != T:
            self.labels.add("derivation-from-state-downstream-of-known-finding")
        self.settle(n, spec, dev, truth, origin, opt_fwd, opt_rev)
        if len(spec.fwd) not in (0, len(S.fwd)) or len(spec.rev) not in (0, len(S.rev)):
            self.labels.add("proper-restriction")
        self.derived = True
        self.verify_others(n, origin)
        return n

    def step(self, op):
        """Apply one op; returns the Entry created, True for an executed insert, else None."""
        if not (isinstance(op, list) and op and isinstance(op[0], str)):
            self.labels.add("note:malformed-op-skipped")
            return None
        self.steps += 1
        name = op[0]
        arg = lambda k: op[k] if len(op) > k else None   # noqa: E731
        if name == "read":
            if len(self.pool) >= 24:
                return None
            e = self.do_read(arg(1), arg(2))
            self.labels.add("op:read-into-pool")
            self.verify_others(e, "read")
            return e
        if name == "reread":
            e = self.do_reread(self.target(arg(1)), arg(2), arg(3))
            self.verify_others(e, "reread")
            return e
        if name == "insert":
            return self.do_insert(self.target(arg(1)), arg(2), arg(3)) or None
        if name == "mquery":
            return self.do_mquery(self.target(arg(1)), arg(2))
        if name == "qio":
            return self.do_qio(self.target(arg(1)), arg(2), arg(3))
        if name in SHARING or name in COPYING:
            if len(self.pool) >= 24:
                return None
            return self.do_derive(name, self.target(arg(1)), arg(2), arg(3))
        self.labels.add("note:malformed-op-skipped")
        return None

    def result(self):
        labels = sorted(self.labels)
        labels += ["known-finding-hit"] * self.hits
        if self.hits:
            labels.append("history-with-known-finding-hit")
        else:
            labels.append("history-within-M")
            if "insert:multi-char-name" not in self.labels and (
                    "insert:1-char-name" in self.labels):
                labels.append("history-within-M/only-1-char-inserts")
        if self.insert_after_derivation:
            labels.append("insert-after-derivation")
        if self.shared_tag:
            labels.append("tag-with-2+-packages")
        labels.append("pool-size:%s" % ("1" if len(self.pool) == 1 else
                                        "2-4" if len(self.pool) <= 4 else "5+"))
        return (self.insert_after_derivation and self.shared_tag, labels)


def check(case):
    if not isinstance(case, dict):
        return (False, ("note:invalid-case-skipped",))
    it = Interp()
    it.do_read(case.get("init"), case.get("filter"))
    ops = case.get("ops")
    for op in ops if isinstance(ops, list) else []:
        it.step(op)
    return it.result()


# ------------------------------------------------------------------------------------------
# bounded-exhaustive enumeration


ENUM_INIT = [[["p"], ["f::a", "g::b"], 0], [["q"], ["f::a"], 0], [["rr"], [], 0],
             [["s", "t"], ["g::b", "h::c"], 0]]     # one line naming two packages
ENUM_OPS = [
    ["reverse"], ["reverse_copy"], ["copy"], ["facet"],
    ["choose", ["p", "f::a", "zz"]], ["choose_copy", ["p", "f::a"]],
    ["filter_packages", ["p", "f::a"]], ["filter_packages_copy", ["p", "f::a"]],
    ["filter_packages_tags", ["q", "g::b"], ["g::b", "p"]],
    ["filter_packages_tags_copy", ["q", "g::b"], ["g::b", "p"]],
    ["filter_tags", ["f::a", "p"]], ["filter_tags_copy", ["f::a", "p"]],
    ["insert", "n", ["f::a"]], ["insert", "nn", ["g::b", "h::c"]], ["insert", "f::n", ["p"]],
    ["insert", "g::n", ["s"]],      # in a reversed view: a new item under one of the two packages of a line
    ["reread", [[["p"], ["h::c"], 0], [["u"], ["f::a"], 0]], None],   # read() into a database that holds something
]
ENUM_OPS_IO = ENUM_OPS + [
    ["mquery", ["f::a", "p", "zz", "g::b", "s"]],   # two tags, two packages, one absent name; every rotation
    ["qio", [0, 1], "fresh"],                       # target + members 0 and 1 through one pickle file
]


def enum_cases(maxlen, alphabet):
    def gen():
        def rec(prefix, pos):
            if prefix:
                yield {"kind": "history", "init": ENUM_INIT, "filter": None, "ops": list(prefix)}
            if pos == maxlen:
                return
            for o in alphabet:
                for i in range(pos + 1):
                    prefix.append([o[0], i] + o[1:])
                    for c in rec(prefix, pos + 1):
                        yield c
                    prefix.pop()
        return rec([], 0)
    return gen


# ------------------------------------------------------------------------------------------
# Hypothesis generators
#
# All strategies are static (built once); package names are drawn as references into a per-case
# list of distinct names ("@j" any name, "+j" a name not used by the initial collection) and
# resolved after drawing, so the case that reaches the oracle holds plain strings only.


ONE = list("abcdepqxyz019é")
MULTI = "abpx1-é"
TAGS = ["f::a", "f::b", "f::c", "g::a", "g::b", "h::x::y", "h::x::z", "role::p", "role::q", "u::a"]
HOT = TAGS[:4]
EXTRA_TAGS = ["f::n", "g::n", "k::a", "role::n::m"]
name1 = st.sampled_from(ONE)
nameN = st.text(alphabet=st.sampled_from(MULTI), min_size=2, max_size=6)
NAMES = {"single": st.lists(name1, unique=True, min_size=3, max_size=14),
         "multi": st.lists(nameN, unique=True, min_size=3, max_size=14),
         "mixed": st.lists(st.one_of(name1, nameN), unique=True, min_size=3, max_size=14)}
IDX = st.integers(0, 7)
ANY = st.integers(0, 13).map(lambda j: "@%d" % j)
FRESH = st.integers(0, 9).map(lambda j: "+%d" % j)


def subset(pool, max_size, min_size=0):
    return st.lists(st.sampled_from(pool), unique=True, min_size=min_size, max_size=max_size)


line_tags = st.one_of(st.just([]), subset(HOT, 3, 1), subset(HOT, 3, 1), subset(HOT, 2, 1),
                      subset(TAGS, 4), subset(TAGS, 4, 1))
tag_filter = st.one_of(st.none(), st.none(), st.none(), subset(TAGS, 7), subset(HOT, 3, 1))
init_lines = st.lists(st.tuples(st.sampled_from([1, 1, 1, 1, 2, 3]), line_tags, st.integers(0, 3)),
                      max_size=8)
read_lines = st.lists(st.tuples(st.lists(ANY, min_size=1, max_size=3), line_tags, st.integers(0, 3)),
                      max_size=5)
ins_pkg = st.one_of(FRESH, FRESH, FRESH, FRESH, name1, nameN, st.sampled_from(EXTRA_TAGS + TAGS[:3]))
ins_tags = st.one_of(subset(HOT, 2, 1), subset(HOT, 2, 1), subset(HOT, 3, 1),
                     subset(TAGS + EXTRA_TAGS, 3), subset(TAGS + EXTRA_TAGS, 3, 1),
                     st.lists(st.one_of(ANY, ANY, st.sampled_from(HOT)), min_size=1, max_size=2),
                     st.just([]))
psel = st.one_of(st.lists(ANY, max_size=8), st.lists(ANY, min_size=1, max_size=4),
                 st.lists(st.one_of(ANY, st.sampled_from(TAGS)), max_size=8), subset(TAGS, 5))
tsel = st.one_of(subset(TAGS, 6), subset(HOT, 3, 1), subset(TAGS, 8, 2),
                 st.lists(st.one_of(ANY, st.sampled_from(TAGS)), max_size=8))
op_insert = st.tuples(st.just("insert"), IDX, ins_pkg, ins_tags)
op_d0 = st.tuples(st.sampled_from(["reverse", "reverse_copy", "copy"]), IDX)
op_facet = st.tuples(st.just("facet"), IDX)
op_d1 = st.tuples(st.sampled_from(["choose", "choose_copy", "filter_packages", "filter_packages_copy"]),
                  IDX, psel)
op_d2 = st.tuples(st.sampled_from(["filter_packages_tags", "filter_packages_tags_copy"]), IDX,
                  st.lists(st.one_of(ANY, st.sampled_from(TAGS)), max_size=3), tsel)
op_d3 = st.tuples(st.sampled_from(["filter_tags", "filter_tags_copy"]), IDX, tsel)
op_read = st.tuples(st.just("read"), read_lines, tag_filter)
op_reread = st.tuples(st.just("reread"), IDX, read_lines, tag_filter)
op_mquery = st.tuples(st.just("mquery"), IDX,
                      st.lists(st.one_of(ANY, ANY, st.sampled_from(HOT), st.sampled_from(TAGS + EXTRA_TAGS)),
                               min_size=1, max_size=4))
op_qio = st.tuples(st.just("qio"), IDX, st.lists(IDX, max_size=2),
                   st.sampled_from(["fresh", "fresh", "reuse", "into"]))
any_op = st.one_of(op_insert, op_insert, op_insert, op_insert, op_insert, op_insert, op_insert,
                   op_d0, op_d0, op_d0, op_d0, op_facet, op_d1, op_d1, op_d2, op_d3, op_d3, op_read, op_reread,
                   op_mquery, op_mquery, op_qio)


def resolve_case(mode, names, init, flt, ops):
    """Turn the drawn references into strings (see the comment at the top of this section)."""
    k = 0
    lines = []
    for cnt, tags, style in init:
        if k >= len(names):
            break
        lines.append([names[k:k + cnt], sorted(tags), style])
        k += len(lines[-1][0])

    def ref(x):
        if x[:1] == "@" and x[1:].isdigit():
            return names[int(x[1:]) % len(names)]
        if x[:1] == "+" and x[1:].isdigit():
            j = k + int(x[1:])
            if j < len(names):
                return names[j]
            unused = [c for c in ONE if c not in names]
            if mode == "single" or (mode == "mixed" and j % 2):
                return unused[j % len(unused)] if unused else names[j % len(names)]
            return "%s%d" % (MULTI[j % 4], j)
        return x

    def refs(xs):
        out = []
        for x in xs:
            x = ref(x)
            if x not in out:
                out.append(x)
        return sorted(out)

    out = []
    for op in ops:
        op = list(op)
        if op[0] == "insert":
            pkg = ref(op[2])
            if mode == "single" and len(pkg) > 1:
                pkg = ONE[sum(map(ord, pkg)) % len(ONE)]
            op = ["insert", op[1], pkg, refs(op[3])]
        elif op[0] == "read":
            seen, rl = set(), []
            for pk, tags, style in op[1]:
                pk = [p for p in refs(pk) if p not in seen]
                seen.update(pk)
                rl.append([pk, sorted(tags), style])
            op = ["read", rl, None if op[2] is None else sorted(op[2])]
        elif op[0] == "reread":
            seen, rl = set(), []
            for pk, tags, style in op[2]:
                pk = [p for p in refs(pk) if p not in seen]
                seen.update(pk)
                rl.append([pk, sorted(tags), style])
            op = ["reread", op[1], rl, None if op[3] is None else sorted(op[3])]
        elif op[0] == "mquery":
            names_ = []
            for x in op[2]:                  # the order of the names is part of the case
                x = ref(x)
                if x not in names_:
                    names_.append(x)
            op = ["mquery", op[1], names_]
        elif op[0] == "qio":
            op = ["qio", op[1], list(op[2]), op[3]]
        elif len(op) == 3:
            op = [op[0], op[1], refs(op[2])]
        elif len(op) == 4:
            op = [op[0], op[1], refs(op[2]), refs(op[3])]
        out.append(op)
    return {"kind": "history", "init": lines, "filter": None if flt is None else sorted(flt), "ops": out}


def gen_case(max_ops=12):
    ops = st.one_of(st.lists(any_op, min_size=1, max_size=4),
                    st.lists(any_op, min_size=5, max_size=max_ops),
                    st.lists(any_op, min_size=max_ops // 2 + 2, max_size=max_ops))
    return st.sampled_from(["mixed", "mixed", "single", "multi"]).flatmap(
        lambda mode: st.builds(resolve_case, st.just(mode), NAMES[mode], init_lines, tag_filter, ops))


# ------------------------------------------------------------------------------------------
# RuleBasedStateMachine (thorough): rules = operations, Bundle of databases, same interpreter


def fails_with(case, sig):
    try:
        check(case)
    except Violation as v:
        return v.sig == sig
    return False


def minimise(case, sig):
    """Greedy reduction of a failing trace through the plain oracle (rule-based shrinking cannot
    drop a rule that created a Bundle value other rules refer to; an op list can)."""
    if not fails_with(case, sig):
        return case
    best = case
    progress = True
    while progress:
        progress = False
        for key in ("ops", "init"):
            i = len(best[key]) - 1
            while i >= 0:
                cand = dict(best, **{key: best[key][:i] + best[key][i + 1:]})
                if fails_with(cand, sig):
                    best, progress = cand, True
                i -= 1
        for i, op in enumerate(best["ops"]):
            if len(op) > 1 and isinstance(op[1], int) and op[1] > 0:
                for j in range(op[1]):
                    cand = dict(best, ops=best["ops"][:i] + [[op[0], j] + op[2:]] + best["ops"][i + 1:])
                    if fails_with(cand, sig):
                        best, progress = cand, True
                        break
    return best


MACHINE_POOL_NAMES = ONE + ["ab", "pa", "xx", "b-1", "apé", "1x", "abp", "p-p", "x1a", "bb"]


def machine_phase(shard, nshards, seed, deadline, rec):
    import hypothesis
    from hypothesis import settings, HealthCheck, Phase, Verbosity
    from hypothesis.stateful import (RuleBasedStateMachine, Bundle, rule, initialize, multiple,
                                     run_state_machine_as_test)

    runs = 400
    state = {"excluded": set(), "fail": None}
    mname = st.sampled_from(MACHINE_POOL_NAMES)
    universe = sorted(set(MACHINE_POOL_NAMES) | set(TAGS))
    m_tags = st.one_of(subset(HOT, 2, 1), subset(HOT, 3, 1), subset(TAGS + EXTRA_TAGS, 3),
                       st.lists(st.one_of(mname, st.sampled_from(HOT)), unique=True, min_size=1,
                                max_size=2), st.just([])).map(sorted)
    m_psel = st.one_of(subset(MACHINE_POOL_NAMES, 8), subset(universe, 8), subset(TAGS, 5)).map(sorted)
    m_tsel = st.one_of(subset(TAGS, 6), subset(HOT, 3, 1), subset(universe, 8)).map(sorted)
    m_filter = st.one_of(st.none(), st.none(), subset(TAGS, 7).map(sorted))
    def distinct(lines):
        seen, out = set(), []
        for pk, tags, style in lines:
            pk = [p for p in sorted(set(pk)) if p not in seen]
            seen.update(pk)
            out.append([pk, sorted(tags), style])
        return out
    m_lines = st.lists(st.tuples(st.lists(mname, min_size=1, max_size=3), line_tags,
                                 st.integers(0, 3)), max_size=8).map(distinct)

    class Machine(RuleBasedStateMachine):
        dbs = Bundle("dbs")

        def __init__(self):
            RuleBasedStateMachine.__init__(self)
            self.it = None
            self.case = None
            self.stopped = False

        def guard(self, fn):
            """Run one interpreter step; a Violation whose signature was already reported in this
            shard ends the history quietly (so that the next root cause can surface)."""
            if self.stopped or rec.budget_exhausted or rec.expired():
                self.stopped = True
                return None
            try:
                return fn()
            except Violation as v:
                self.stopped = True
                if v.sig in state["excluded"]:
                    rec.excluded_hits += 1
                    return None
                state["fail"] = (v, dict(self.case, ops=list(self.case["ops"])))
                raise

        def index_of(self, entry):
            lv = self.it.live()
            return lv.index(entry) if entry in lv else entry.id

        def apply(self, op_tail_builder, entry):
            if self.it is None or self.stopped:
                return multiple()
            op = op_tail_builder(self.index_of(entry) if entry is not None else None)
            self.case["ops"].append(op)
            res = self.guard(lambda: self.it.step(op))
            if isinstance(res, list):
                return multiple(*[r for r in res if isinstance(r, Entry)])
            return res if isinstance(res, Entry) else multiple()

        @initialize(target=dbs, lines=m_lines, flt=m_filter)
        def start(self, lines, flt):
            self.case = {"kind": "history", "init": lines, "filter": flt, "ops": []}
            self.it = Interp()
            res = self.guard(lambda: self.it.do_read(lines, flt))
            return res if isinstance(res, Entry) else multiple()

        @rule(target=dbs, lines=m_lines, flt=m_filter)
        def read_new(self, lines, flt):
            return self.apply(lambda i: ["read", lines, flt], None)

        @rule(e=dbs, pkg=st.one_of(mname, mname, st.sampled_from(EXTRA_TAGS)), tags=m_tags)
        def insert(self, e, pkg, tags):
            self.apply(lambda i: ["insert", i, pkg, tags], e)

        @rule(e=dbs, pkg=st.one_of(mname, mname, st.sampled_from(EXTRA_TAGS)), tags=m_tags)
        def insert_again(self, e, pkg, tags):
            self.apply(lambda i: ["insert", i, pkg, tags], e)

        @rule(target=dbs, e=dbs, op=st.sampled_from(["reverse", "reverse_copy", "copy", "facet"]))
        def derive(self, e, op):
            return self.apply(lambda i: [op, i], e)

        @rule(target=dbs, e=dbs, sel=m_psel,
              op=st.sampled_from(["choose", "choose_copy", "filter_packages", "filter_packages_copy"]))
        def select_packages(self, e, op, sel):
            return self.apply(lambda i: [op, i, sel], e)

        @rule(target=dbs, e=dbs, sel=subset(universe, 4).map(sorted), tsel=m_tsel,
              op=st.sampled_from(["filter_packages_tags", "filter_packages_tags_copy"]))
        def select_packages_tags(self, e, op, sel, tsel):
            return self.apply(lambda i: [op, i, sel, tsel], e)

        @rule(target=dbs, e=dbs, tsel=m_tsel, op=st.sampled_from(["filter_tags", "filter_tags_copy"]))
        def select_tags(self, e, op, tsel):
            return self.apply(lambda i: [op, i, tsel], e)

        @rule(e=dbs, names=st.lists(st.sampled_from(universe), unique=True, min_size=1, max_size=4))
        def multi_name_queries(self, e, names):
            self.apply(lambda i: ["mquery", i, names], e)

        @rule(target=dbs, e=dbs, extras=st.lists(st.integers(0, 7), max_size=2),
              mode=st.sampled_from(["fresh", "fresh", "reuse", "into"]))
        def pickle_round_trip(self, e, extras, mode):
            return self.apply(lambda i: ["qio", i, extras, mode], e)

        def teardown(self):
            if self.it is not None and not self.stopped and self.case["ops"]:
                rec.ok(self.case, self.it.result())

    phases = [Phase.generate] if os.environ.get("VERIF_NO_SHRINK") else [Phase.generate, Phase.shrink]
    cfg = settings(max_examples=runs, stateful_step_count=16, database=None, deadline=None,
                   derandomize=False, report_multiple_bugs=False, phases=phases, print_blob=False,
                   verbosity=Verbosity.quiet,
                   suppress_health_check=[HealthCheck.too_slow, HealthCheck.data_too_large,
                                          HealthCheck.large_base_example, HealthCheck.filter_too_much])
    for _ in range(4):
        state["fail"] = None
        try:
            run_state_machine_as_test(hypothesis.seed(seed)(Machine), settings=cfg)
        except Violation:
            v, case = state["fail"]
            # the saved trace is an ordinary history: it must fail the plain oracle the same way
            case = minimise(case, v.sig)
            ok = rec.case(case)
            if ok or v.sig not in rec.failures:
                raise RuntimeError("state-machine trace does not replay as %s: %s" % (v.sig, short(case)))
            rec.note("machine_failures")
            state["excluded"].add(v.sig)
            continue
        break
    rec.note("machine_runs:state-machine", rec.evals)


def sources(tier):
    if tier == "quick":
        return [Enum("op-alphabet<=3", enum_cases(3, ENUM_OPS_IO), EXHAUSTIVE["quick"]),
                Hyp("pool-histories", gen_case(12), 400, shards=8)]
    return [Enum("op-alphabet<=3", enum_cases(3, ENUM_OPS_IO), EXHAUSTIVE["quick"]),
            Enum("op-alphabet17<=4", enum_cases(4, ENUM_OPS), EXHAUSTIVE["thorough"]),
            Hyp("pool-histories", gen_case(20), 5000, shards=16),
            Custom("state-machine", machine_phase, shards=8)]
