"""C20 - the debtags database keeps its two indexes mutually inverse.

case = {"kind": "history",
        "init":   [[packages, tags, style], ...],   text lines for the first database's read() (a package: a name,
                  or {"long": [prefix, unit, n, suffix]} = prefix + unit * n + suffix, see long_name), or
                  {"big": {"chars": n, "block": B, "off": d}}   a long text written out by big_entries()
        "form":   "iter" | "list" | "stringio" | "file"   how read() gets the text (default "iter"):
                  iterator over the lines, list of lines, io.StringIO, real text file opened for reading
        "final_newline": false                      the last line of the initial text has no newline
        "filter": null | [tags the tag_filter lets through],
        "ops":    [[op, target, args...], ...]}

The history runs over a *pool* of databases; ``target`` is an index modulo the number of live
pool members.  Operations (an inapplicable one is skipped):

  ["insert", i, pkg, tags]                       only a package name the target does not have
  ["reverse"|"reverse_copy"|"copy"|"facet", i]   derivation, result appended to the pool
  ["choose"|"choose_copy"|"filter_packages"|"filter_packages_copy", i, pkgs]
                                                 choose*: pkgs may name packages the target does not
                                                 have (choose_copy: see Interp.choose_copy)
  ["choose"|"choose_copy", i, pkgs, [kind, r]]   the names handed over as ``kind`` says: list | tuple | set |
                                                 frozenset | dictkeys | gen | iter | map (package_iter is an
                                                 Iterable[str]; the last three can be walked once), in sorted
                                                 order rotated by r, backwards for r < 0 (Interp.handing);
                                                 without the element: a sorted list
  ["filter_packages_tags"|"filter_packages_tags_copy", i, pkgs, tags]   keeps (p, ts) with p in pkgs or ts & tags
  ["filter_tags"|"filter_tags_copy", i, tags]
                                                 every pkgs / tags above: a list of names, or - relative to what
                                                 the target holds when the operation runs - {"keep": "all"} |
                                                 {"keep": "none"} | {"keep": "all-but", "j": n} (Interp.selection)
  ["read", lines, filter, form]                  a new database read from text
  ["reread", i, lines, filter, form]             read() into a database that already holds a collection
  ["failread", i | null, lines, filter, form, k, "input" | "filter"]
                                                 a read() that FAILS midway - its input raises at line k or its
                                                 tag_filter raises on call k+1 (see Interp.feed) - into member i
                                                 or (null) into a new DB() that joins the pool; ``lines`` may be
                                                 {"big": ...} as for init; the history then goes on using it
  ["mquery", i, names]                           packages_of_tags / tags_of_packages / ideal_tagset, each with
                                                 every rotation of the non-empty name list (see do_mquery)
  ["mquery", i, names, kind]                     ... the two Iterable[str] queries handed each rotation as ``kind``
                                                 (as above), ideal_tagset a tuple for "tuple", else a list
  ["qio", i, [j, k], "fresh"|"reuse"|"into"]     qwrite() of members i, j, k one after another into one
                                                 in-memory file, qread() back in the same order (see do_qio)

An op name prefixed with "old:" runs the whole step through the deprecated camelCase aliases
(ALIAS: every derivation except reverse/copy, every query except card/discriminance, the three
multi-name queries): the operation itself and the examination of the database it produced or
changed.  An alias is documented as "use <method> instead", so exactly the same is demanded of it;
DeprecationWarning is silenced for the duration of the case; a tree without some alias is asked
under the snake_case name (label note:alias-missing-...).

After every step EVERY live database of the pool - not only the one operated on - is compared with
its reference state (model/c20_relation.py) through the public query methods.  Which sets two
databases share is tracked from the docstrings alone (Interp.bind): reverse() "sharing tagsets"
(the view's tagsets are the source's package sets and vice versa), choose_packages /
filter_packages / filter_packages_tags "sharing tagsets" (the forward sets; the reverse index is
the view's own), filter_tags "sharing package sets" (the reverse sets; the forward index is its
own); every *copy* derivation, read() and qread() produce sets of their own.  An insert of a new
package adds its name to the package sets of its tags and to nothing else, so after an insert every
database that does not hold one of those very sets (and is not a reverse() view of the target)
must show exactly what it showed before - a copy and its source whatever happens to either, and
also a filter_packages / choose_packages view and its source, whatever the filter kept.  A database
that does hold one of them (a filter_tags view, a reverse() view, their sources) may show the
inserted name - its indexes are then not promised to be inverse - but nothing else may change
(Interp.after_insert).  More is demanded of a reverse() pair: reverse is one of the derivations the
statement lists and the view has no index of its own that could lag behind, so when the database
inserted into has inverse indexes after the insert, the other one of the pair (inverse before)
either does not show the insert or shows it in both indexes - whatever the size of either index,
an empty one included.  Such a database stays in the pool in the state it shows, and everything
derived from it later must reflect that state: a derivation asked again of the same object after its data changed
through another route (a sharing view, qread(), read(), the deprecated alias) is checked against the
current data like the first one.  A database obtained through qread() is compared with the state
its writer had at qwrite() time and is independent of everything.  A read()/qread() INTO a database
retires the views that shared sets with its old content (what becomes of them is not documented).
A query (mquery) and a write-out (qwrite) must leave *every* database of the pool
exactly as it was; the value a multi-name query returns is only required to lie between the
intersection and the union of the single-name answers (docstring "all" vs. computed union).
The same holds for the single-name queries, which are asked with every name the database has and
with names it does not have, and for a choose_packages_copy() that fails with KeyError because
it was given a name the collection does not have.

A read() that raises has not happened: the database it was called on, its sharing views and every
other database show exactly what they showed before (both indexes still inverse, every query
method), and later operations on it are checked as usual (do_reread).

facet_collection(): the facet of a tag is defined for the documented shape facet::name only (text
before the '::', which is its first colon).  A collection in which some tag has another shape (f:x,
f:sub::y, special, :x - nothing says what their facet is) is still derived from, and of the result
only this is demanded: same packages, the facets of the well-formed tags present, at most one name
per other tag, and the reverse index exactly inverse to the forward one (Interp.loose_facets).

Package names: the quantifier says "distinct package names of any length" and excludes no
character, so a read() text carries names of every shape its line format can hold (NAME_OK: no
white space, no comma, no colon in the last place - the package list of a line ends at the first
colon followed by white space or the end of the line): colons and double colons inside a name
(libc6:amd64, x:y:z, a::b), a leading colon, dots, plus signs, digits only, names of up to 80000
characters - in single-package and multi-package lines, with and without tags.  The reference
relation is built from the [packages, tags] structure the text was written from, never by parsing.
Not generated: names ending in a colon ("a:" alone on a line is the package a followed by a bare
colon in the unchanged reader), names with white space or commas (the separators of the format).

Known finding "insert-chars" (known_findings.json): dual model, see Interp.settle().
"""
import io
import os
import re
import shutil
import tempfile
import warnings

from hypothesis import strategies as st

from .. import findings
from ..core import Violation, Enum, Hyp, Custom, short
from ..model import c20_relation as rel

from debian.debtags import DB

ID = "C20"
LEVEL = "exploration"
RULE = ("cases are histories [init lines, tag filter, op list] over a pool of databases, compared "
        "with a reference relation after every step; enumerated: every op sequence of length 1..3 "
        "over a 19-operation alphabet (each derivation kind, choose_packages(_copy) with a name the "
        "collection lacks + 4 inserts + read() into an existing "
        "database + the multi-name queries with a 5-name list in every rotation + a qwrite/qread "
        "round trip of three pool members through one file), once with the snake_case methods and "
        "once with every step through the deprecated camelCase aliases, and, thorough only, of length "
        "1..4 over the first 17 of them (snake_case) x "
        "target index 0..position on one fixed 5-package collection; enumerated long texts: 72 read()s of "
        "3000/70000/140000 characters with the line ends aligned on every multiple of 512/4096/65536 "
        "characters (offset -1, 0, +1) from an iterator, a list, an io.StringIO and a real file, last line "
        "with and without newline, and 24 long read()s that fail close to their end followed by normal use; "
        "enumerated failed reads: 7424 histories [none|reverse|copy|insert] + a read() whose input or tag_filter "
        "raises (iterator / real file with an undecodable byte; at once / after two lines or tags; into an existing "
        "database / a new one) + every op of the alphabet x 3 targets, both spellings; enumerated odd tags: every "
        "op sequence of length 1..2 (21 ops, both spellings) on a collection with tags that are not facet::name "
        "(f:x, f:sub::y, special, g, :lead) and one with a colon after the '::' (w::i:r); "
        "enumerated repeats: 4752 histories [derivation D of member 0; one of 11 routes to its data - nothing, "
        "insert, insert into D's answer, insert through a reverse() / filter_tags / filter_packages view, "
        "qread() or read() of another collection, a failing read(); D of member 0 again; nothing / insert into the "
        "second answer / insert into member 0] for 36 derivations (the 4 plain ones; each of the 8 choices / filters "
        "keeping everything, nothing, all but the first, all but the last key) x 4 spellings of the two calls; "
        "enumerated argument forms: 5920 histories [choose_packages(_copy) of the collection / a reverse() view / "
        "after an insert / a filter_packages view, the names (all, all but one, some absent, none) as list, tuple, "
        "set, frozenset, dict keys view, generator, iter(list), map in 3 orders, then nothing / an insert; the "
        "multi-name queries in each form], both spellings; "
        "enumerated boundary filters: 32256 histories [one of those 32 choices / filters + every op sequence of "
        "length 1..2 over 4 inserts, reverse, copy, facet_collection, filter_tags / filter_packages keeping "
        "everything x targets], both spellings; after every insert every live database is looked at "
        "(unchanged unless it documentedly shares a package set the insert adds to); "
        "enumerated degenerate starts: 46312 histories from a collection with no package at all / a blank line / "
        "packages but no tag at all / one package with or without a tag / every tag rejected by the tag_filter / the "
        "untagged package kept by filter_packages_tags(_copy) or choose_packages / nothing kept by filter_packages, "
        "choose_packages_copy, filter_tags(_copy) + every op sequence of length 1..2 over 14 ops (both spellings) and "
        "[reverse | copy | filter_packages | filter_tags] + any op + an insert, with inserts through the views and "
        "into their sources (a one-character name, a name under an existing package of a reverse() view, a package "
        "without tags) and every live database re-examined; "
        "enumerated package names: 7920 read()s of a two-line text in which one line holds a name of one of 33 "
        "shapes (libc6:amd64, x:y:z, a::b, :a, a:::b, 1.2.3, ., c++, +, 0, 007, non-ASCII, 300 / 5000 / 70000 / "
        "75000 / 80000 characters with and without colons) alone, first, in the middle, last or next to another such "
        "name x two tags / one tag / no tag in the four line styles x 4 input forms x last line with / without "
        "newline, each followed by choose_packages_copy, an insert, reverse() and the multi-name queries; "
        "generated: 0..8 initial packages (a fifth of the histories start from no package at all, from 1..5 lines "
        "without any tag, or from a single line; a seventh of the tag_filters reject every tag) "
        "in single- and multi-package lines (distinct names of 1..6 characters; one-character names in "
        "about half of the positions and exclusively in a fifth of the histories; in another fifth names of 1..9 "
        "characters over a b 1 0 : . + not ending in a colon and fixed ones such as libc6:amd64, x:y:z, a::b, :a, 1.2, "
        "c++, 42, f::a - also as inserted names, selections and query arguments), 14 facet::tag "
        "names sharing 6 facets (+ w::i:r and, in about a tenth of the lines and inserts, the odd tags), "
        "optional tag_filter, 1..12 operations (thorough: 1..20) = inserts, "
        "all 12 derivations (choose_packages_copy also with names the collection lacks; about a fifth of the "
        "selections relative to the target: every key, none, all but one; choose_packages(_copy) given its names "
        "in one of the 8 forms and 7 orders, the multi-name queries in one of the 8 forms), every read() "
        "in one of the four input forms, a third of the steps through the deprecated aliases, "
        "further read()s into the pool and into existing members, read()s that fail midway (input or tag_filter "
        "raises at position 0..7; into a member or a new DB) with the history going on afterwards, multi-name "
        "queries (1..4 names, existing and absent, as drawn and rotated), qwrite/qread of 1..3 "
        "members through one in-memory file into fresh DBs / one reused DB / an existing member; "
        "thorough adds a RuleBasedStateMachine "
        "with a Bundle of databases driving the same interpreter. "
        "Non-trivial = at least one executed insert after at least one executed derivation, in a "
        "history where some database had a tag listing >= 2 packages; distinct = canonical JSON")
ASSUMPTIONS = [
    "reference relation vcheck/model/c20_relation.py (dict-of-sets semantics written from the docstrings)",
    "filter predicates are given as explicit sets; filter_packages_tags keeps (p, ts) with p in pkgs or ts & tags",
    "sharing is what the docstrings say and no more: reverse() shares the tagsets of both indexes (the pair "
    "is also allowed to share the dictionaries), choose_packages / filter_packages / filter_packages_tags share "
    "the forward (tag) sets only, filter_tags the reverse (package) sets only, every *_copy / copy / "
    "facet_collection / read / qread nothing; insert(new package, tags) adds the name to the package sets of the "
    "tags (in place or not) and creates a new tagset - so a database holding none of those package sets must be "
    "unchanged after it, one holding some may gain the inserted name / the given tags as keys or members (while "
    "the known finding is listed also characters of the name) and nothing else; such a database is then taken in "
    "the state it shows (checked through every query method) and later derivations from it follow the "
    "'restrict one index, re-derive the other' reading of model/c20_relation.py",
    "the reverse() pair is the one case of sharing in which more is demanded after an insert: if the database "
    "inserted into is inverse afterwards and its reverse() view / source was inverse before, the latter is either "
    "unchanged or inverse again (the statement names reverse among the derivations after which the indexes are "
    "inverse; the view owns no index of its own that could lag behind) - not demanded while either of them is already "
    "non-inverse (known finding, or an earlier insert through a filter_tags view)",
    "a read()/qread() into a database: views documented as sharing sets with its old content are not examined "
    "any further (nothing says what becomes of them); every other database must be unchanged",
    "facet of a tag of the documented shape facet::name = the text before the '::' (= before its first colon); "
    "for any other tag text (f:x, f:sub::y, special, :x) the documentation defines no facet: facet_collection "
    "on a collection holding one is checked for same packages, facets of the well-formed tags, at most one "
    "name per other tag, reverse index = inverse of the forward index (or M' of it); skipped downstream of "
    "the known finding",
    "a read() that raises (input iterator raising InputFailure, UnicodeDecodeError from a real file with a "
    "0xFF byte, tag_filter raising InputFailure) counts as not having happened: the reference keeps the "
    "pairs from before - DB.read binds both indexes in one assignment after the input is consumed - and "
    "sharing views stay live; only these two exception types are caught, and only in a failread step",
    "M' (known finding insert-chars) replays facet_collection in the order iter_packages() yields",
    "packages_of_tags/tags_of_packages: only 'between intersection and union of the single-name answers' "
    "is demanded of the value (docstring says all, code unites); ideal_tagset: the set of a non-empty prefix "
    "of its argument; all three must leave every database unchanged",
    "qwrite/qread use io.BytesIO; a database read back must show exactly the writer's state (keys with empty "
    "sets included: both indexes are stored)",
    "a deprecated alias must behave exactly like the method it names (function_deprecated_by: 'Use <method> "
    "instead'); warnings.catch_warnings silences DeprecationWarning per case; reverse, copy, insert, read, "
    "qwrite, qread, card, discriminance have no alias and are called as they are in an 'old:' step",
    "choose_packages_copy given a name the collection lacks: KeyError (then nothing was derived) or the "
    "restriction to the names it has are both accepted; in either case every database is unchanged",
    "an argument documented as Iterable[str] (choose_packages, choose_packages_copy, packages_of_tags, "
    "tags_of_packages and their aliases) may be any of list, tuple, set, frozenset, dict keys view, generator, "
    "iter(list), map(str, list) in any order, and the answer does not depend on which (an object that can be "
    "walked again still holds its names afterwards; nothing is demanded about how far a one-shot iterator was "
    "walked); NOT varied: insert's tags (documented Set[str]: the method calls tags.copy(); a list / dict would be "
    "stored as it is, a frozenset breaks a later insert through a reverse() view, views and iterators have no "
    "copy()) - always a set; ideal_tagset (documented List[str], sliced and measured) - list or tuple only; the "
    "filter_* methods take predicates, not collections",
    "text format as the unchanged reader defines it: one line = package names joined by ', ', then nothing / "
    "':' / ':' + white space [+ tags joined by ', ']; the package list ends at the first colon followed by white "
    "space or the end of the line, so a generated name holds no white space, no comma and does not end in a colon "
    "(NAME_OK) but may hold colons elsewhere; the reference is built from the generated [packages, tags] lists; names "
    "ending in a colon, or holding commas / white space, are not generated (their reading is not fixed by any text)",
    "read() input forms: iterator of lines, list of lines, io.StringIO, text file written with "
    "encoding utf-8/newline='' into a per-read mkdtemp() (under /dev/shm when available) and opened with "
    "open(path, 'r', encoding='utf-8'); each element/line ends with '\\n' except optionally the last",
    "Hypothesis 6.168 generators and stateful testing; sha1 for distinctness",
]
EXHAUSTIVE = {
    "quick": "all op sequences of length 1..3 over the 19-op alphabet (incl. multi-name queries and the pickle "
             "round trip) x target index 0..position on the fixed collection x spelling (all steps snake_case / "
             "all steps through the deprecated aliases); 72 read()s of long texts: (3000 chars, block 512) / "
             "(70000, 4096) / (140000, 65536) with a newline on every multiple of the block x offset -1/0/+1 x "
             "4 input forms x last line with/without newline; 24 long failing read()s; 7424 failed-read "
             "histories (prefix x failure kind x position x target x follow-up op x spelling, see FAIL_DESC); "
             "1806 op sequences of length 1..2 on the odd-tag collection (ODD_DESC); 4752 repeated derivations "
             "(36 derivations x 11 routes to the data in between x 4 spellings x 3 follow-ups, REPEAT_DESC); 32256 "
             "histories after a choice / filter keeping everything / nothing / all but one (KEEP_DESC); 5920 "
             "histories handing choose_packages(_copy) and the multi-name queries their names in 8 forms x 3 orders "
             "(FORM_DESC); 7920 read()s of a text holding a package name with colons / '::' / dots / plus signs / "
             "digits only / 300..80000 characters in every position of a tagged or untagged line x input form x "
             "final newline (NAME_DESC); 46312 histories from 14 degenerate starting points (an index empty or of "
             "size one, read or obtained through a filter) x op sequences of length 1..2 over 14 ops x targets x "
             "spelling, and of length 3 [reverse | copy | filter_packages | filter_tags] + op + insert (DEGEN_DESC)",
    "thorough": "all op sequences of length 1..3 over the 19-op alphabet x both spellings and of length 1..4 over "
                "its first 17 ops "
                "(snake_case; no multi-name queries / pickle round trip) x target index 0..position on the fixed "
                "collection; the 72 long-text read()s of the quick tier; the failed-read, odd-tag, repeated-derivation, "
                "boundary-filter, argument-form, package-name-shape and degenerate-start enumerations of the quick tier",
}
BUDGET = {"quick": 200, "thorough": 1500}

KNOWN_ID = "insert-chars"
KNOWN_SIG = "insert-stores-name-characters"

SHARING = {"reverse": "reverse", "choose": "choose_packages", "filter_packages": "filter_packages",
           "filter_packages_tags": "filter_packages_tags", "filter_tags": "filter_tags"}
COPYING = {"reverse_copy": "reverse_copy", "copy": "copy", "facet": "facet_collection",
           "choose_copy": "choose_packages_copy", "filter_packages_copy": "filter_packages_copy",
           "filter_packages_tags_copy": "filter_packages_tags_copy",
           "filter_tags_copy": "filter_tags_copy"}
# the deprecated camelCase spelling every method of DB that has one is documented by
ALIAS = {"facet_collection": "facetCollection", "reverse_copy": "reverseCopy",
         "choose_packages": "choosePackages", "choose_packages_copy": "choosePackagesCopy",
         "filter_packages": "filterPackages", "filter_packages_copy": "filterPackagesCopy",
         "filter_packages_tags": "filterPackagesTags",
         "filter_packages_tags_copy": "filterPackagesTagsCopy",
         "filter_tags": "filterTags", "filter_tags_copy": "filterTagsCopy",
         "has_package": "hasPackage", "has_tag": "hasTag", "tags_of_package": "tagsOfPackage",
         "packages_of_tag": "packagesOfTag", "tags_of_packages": "tagsOfPackages",
         "packages_of_tags": "packagesOfTags", "iter_packages": "iterPackages",
         "iter_tags": "iterTags", "iter_packages_tags": "iterPackagesTags",
         "iter_tags_packages": "iterTagsPackages", "package_count": "packageCount",
         "tag_count": "tagCount", "ideal_tagset": "idealTagset"}
OLD = "old:"                             # op-name prefix: this step goes through the deprecated aliases
FORMS = ("iter", "list", "stringio", "file")     # how read() is handed its text
# What a line of the text format can carry as a package name.  The reader ends the package list of a
# line at the first colon that is followed by white space or by the end of the line, and cuts the
# list at ", " - so a name may hold any character except white space, and colons anywhere but at its
# end (libc6:amd64, x:y:z, a::b, :a; "a:" alone on a line is the package a with a bare colon).  Commas
# are left out: they are the separator, and nothing says whether "a,b" is one name or two.
NAME_OK = re.compile(r"[^\s,]*[^\s,:]\Z")
TAG_OK = re.compile(r"[^\s,]+\Z")
ABSENT = ["zz-absent", "a", "f::a"]
# how a method that takes a collection of names (Iterable[str]) is handed them; the last three can
# be walked once only
ARG_FORMS = ("list", "tuple", "set", "frozenset", "dictkeys", "gen", "iter", "map")
ONE_SHOT = ("gen", "iter", "map")
HOWS = ("input", "filter")               # what makes a read() fail: its input / its tag_filter raises
TAGS = ["f::a", "f::b", "f::c", "g::a", "g::b", "h::x::y", "h::x::z", "role::p", "role::q", "u::a"]
HOT = TAGS[:4]
# tag texts that are not of the documented shape facet::name (no '::' at all, a lone colon before
# it, a leading colon): legal in the text format and for insert(); what facet_collection() makes of
# them is not documented (model/c20_relation.facetable), everything else is demanded as for any tag
ODD_TAGS = ["f:x", "f:sub::y", "special", "g", ":lead"]


class InputFailure(Exception):
    """Raised by the harness's own line iterator / tag_filter to make a read() fail midway."""


def _scratch_parent():
    """Memory-backed directory for the per-read mkdtemp() of the "file" input form when there is
    one (directory operations on the disk dominate the run time otherwise); None = tempfile's default."""
    if os.environ.get("TMPDIR"):
        return None
    d = "/dev/shm"
    return d if os.path.isdir(d) and os.access(d, os.W_OK | os.X_OK) else None


SCRATCH = _scratch_parent()


def strs(x):
    return [s for s in x if isinstance(s, str) and s] if isinstance(x, list) else []


def argform(x):
    """(kind, r) of the optional argument-form element of an op: a kind of ARG_FORMS or [kind, r];
    anything else = (None, 0), the sorted list every such call was given before."""
    kind, r = (x[0], x[1]) if isinstance(x, list) and len(x) == 2 else (x, 0)
    if not (isinstance(kind, str) and kind in ARG_FORMS):
        kind = None
    return kind, (r if isinstance(r, int) and not isinstance(r, bool) else 0)


def arranged(names, r):
    """The order the names are presented in: sorted, for r < 0 backwards, rotated by r (-r-1) places."""
    seq = sorted(names)
    if seq and r:
        if r < 0:
            seq.reverse()
            r = -r - 1
        r %= len(seq)
        seq = seq[r:] + seq[:r]
    return seq


def as_form(seq, kind):
    """A new object of the given kind holding the names of ``seq`` (in that order where the kind
    has one)."""
    if kind == "tuple":
        return tuple(seq)
    if kind == "set":
        return set(seq)
    if kind == "frozenset":
        return frozenset(seq)
    if kind == "dictkeys":
        return dict.fromkeys(seq).keys()
    if kind == "gen":
        return (x for x in list(seq))
    if kind == "iter":
        return iter(list(seq))
    if kind == "map":
        return map(str, list(seq))
    return list(seq)


def still_holds(given, seq, kind):
    """A collection handed to a method still holds what it held (nothing is said about how far
    a one-shot iterator has been walked)."""
    if kind in ONE_SHOT:
        return True
    if kind in ("set", "frozenset"):
        return len(given) == len(set(seq)) and set(given) == set(seq)
    return list(given) == list(seq)


# ------------------------------------------------------------------------------------------
# text form


def line_of(pkgs, tags, style):
    head = ", ".join(pkgs)
    if not pkgs:
        return "\n"
    if tags:
        if style % 4 == 3:
            return "%s:  %s  \n" % (head, ", ".join(tags))
        return "%s: %s\n" % (head, ", ".join(tags))
    return head + ("", ":", ": ", ":\t")[style % 4] + "\n"


def long_name(spec):
    """A very long package name written out from [prefix, unit, n, suffix] = prefix + unit * n +
    suffix (the case stays small); None when the spec is not of that form."""
    if not (isinstance(spec, list) and len(spec) == 4 and isinstance(spec[0], str) and isinstance(spec[1], str)
            and isinstance(spec[2], int) and not isinstance(spec[2], bool) and isinstance(spec[3], str)):
        return None
    return spec[0] + spec[1] * max(0, min(spec[2], 200000)) + spec[3]


def pkg_names(x):
    """The package names of one line: strings, or {"long": [prefix, unit, n, suffix]} (long_name)."""
    out = []
    for p in x if isinstance(x, list) else []:
        if isinstance(p, dict):
            p = long_name(p.get("long"))
        if isinstance(p, str) and p:
            out.append(p)
    return out


def name_shapes(name):
    """What is unusual about a package name (labels; the oracle treats every name alike)."""
    out = []
    if ":" in name:
        out.append("double-colon" if "::" in name else "colon")
        if name[0] == ":":
            out.append("leading-colon")
    if "." in name:
        out.append("dot")
    if "+" in name:
        out.append("plus")
    if name.isdigit():
        out.append("digits-only")
    if len(name) > 65536:
        out.append("longer-than-64KiB")
    elif len(name) >= 256:
        out.append("256+-characters")
    return out


def clean_lines(entries, labels):
    """Sanitise [[pkgs, tags, style]] (Hypothesis may shrink to anything): names must be
    representable in the text format, and every package occurs once in the whole text."""
    out, seen = [], set()
    for ent in entries if isinstance(entries, list) else []:
        if not (isinstance(ent, list) and len(ent) >= 2):
            continue
        pkgs = []
        for p in pkg_names(ent[0]):
            if NAME_OK.match(p) and p not in seen:
                seen.add(p)
                pkgs.append(p)
            else:
                labels.add("note:init-name-dropped")
        tags = [t for t in strs(ent[1]) if TAG_OK.match(t)]
        style = ent[2] if len(ent) > 2 and isinstance(ent[2], int) else 0
        out.append((pkgs, tags, style))
    return out


def entries_of(x):
    """The [[packages, tags, style]] list of a read: given as it is, or as {"big": spec}."""
    return big_entries(x.get("big")) if isinstance(x, dict) else x


# ------------------------------------------------------------------------------------------
# observing the implementation (public API only)


def meth(db, name, old=False, labels=None):
    """The bound method ``name`` of ``db`` - through its deprecated camelCase alias when ``old``
    is set and the method has one (a tree without that alias is asked under the snake_case name)."""
    if old and name in ALIAS:
        f = getattr(db, ALIAS[name], None)
        if callable(f):
            return f
        if labels is not None:
            labels.add("note:alias-missing-snake_case-used:" + ALIAS[name])
    return getattr(db, name)


class quiet(warnings.catch_warnings):
    """DeprecationWarning silenced for the duration of one case (the aliases warn on every call)."""

    def __enter__(self):
        r = warnings.catch_warnings.__enter__(self)
        warnings.simplefilter("ignore", DeprecationWarning)
        return r


def observe(db, who, old=False):
    items = list(meth(db, "iter_packages_tags", old)())
    ritems = list(meth(db, "iter_tags_packages", old)())
    s = rel.State()
    for side, pairs, name in ((s.fwd, items, "iter_packages_tags"), (s.rev, ritems, "iter_tags_packages")):
        for pair in pairs:
            if not (isinstance(pair, tuple) and len(pair) == 2 and isinstance(pair[0], str)
                    and isinstance(pair[1], (set, frozenset))
                    and all(isinstance(x, str) for x in pair[1])):
                raise Violation("query:" + name, "%s yields %s" % (who, short(pair, 120)))
            if pair[0] in side:
                raise Violation("query:" + name, "%s yields key %r twice" % (who, pair[0]))
            side[pair[0]] = set(pair[1])
    return s


def check_queries(db, s, who, old=False):
    """Every query method - under its deprecated alias when ``old`` - agrees with the observed
    (and already model-checked) content ``s``; names the collection does not have are asked, too."""
    def bad(method, arg, got, want):
        raise Violation("query:" + (ALIAS.get(method, method) if old else method),
                        "%s: %s(%s) = %s, the relation says %s" % (
                            who, ALIAS.get(method, method) if old else method,
                            "" if arg is None else short(arg, 120), short(got, 120), short(want, 120)))
    n, nt = len(s.fwd), len(s.rev)
    package_count, tag_count = meth(db, "package_count", old), meth(db, "tag_count", old)
    if package_count() != n:
        bad("package_count", None, package_count(), n)
    if tag_count() != nt:
        bad("tag_count", None, tag_count(), nt)
    for method, want in (("iter_packages", s.fwd), ("iter_tags", s.rev)):
        got = list(meth(db, method, old)())
        if sorted(got, key=repr) != sorted(want, key=repr):
            bad(method, None, got, sorted(want))
    has_package, has_tag = meth(db, "has_package", old), meth(db, "has_tag", old)
    tags_of_package, packages_of_tag = meth(db, "tags_of_package", old), meth(db, "packages_of_tag", old)
    probes = set(s.fwd) | set(s.rev) | set(ABSENT)
    for k in sorted(probes):
        if has_package(k) != (k in s.fwd):
            bad("has_package", k, has_package(k), k in s.fwd)
        if tags_of_package(k) != s.fwd.get(k, set()):
            bad("tags_of_package", k, tags_of_package(k), s.fwd.get(k, set()))
        if has_tag(k) != (k in s.rev):
            bad("has_tag", k, has_tag(k), k in s.rev)
        want = s.rev.get(k, set())
        if packages_of_tag(k) != want:
            bad("packages_of_tag", k, packages_of_tag(k), want)
        if db.card(k) != len(want):
            bad("card", k, db.card(k), len(want))
        if db.discriminance(k) != min(len(want), n - len(want)):
            bad("discriminance", k, db.discriminance(k), min(len(want), n - len(want)))


# ------------------------------------------------------------------------------------------
# the interpreter


class Entry(object):
    def __init__(self, eid, db, origin, parent):
        self.id, self.db, self.origin, self.parent = eid, db, origin, parent
        self.S = None        # agreed observable state (M, or M' after a known-finding hit)
        self.T = None        # what M alone says (differs from S only downstream of a hit)
        self.live = True
        self.alias = False   # derived through the deprecated alias of ``origin``
        self.failed_read = False   # a read() into it has failed at some point
        # documented sharing (see Interp.bind): which *set* stands behind every key of the two
        # indexes - an integer per set, equal integers = one set shared as documented
        self.cf, self.cr = {}, {}
        self.dg = object()   # databases that are reverse() views of one another carry the same token
        self.flip = 0        # ... and this tells whether the roles are swapped relative to its first holder
        self.down = False    # its state descends from a known-finding hit (S != T at some point)
        self.loose = False   # its state was shaped by an insert into a database it shares sets with
        self.routes = []     # what has changed (or tried to change) its data so far, in order
        self.seen = 0        # for a derived database: len(parent.routes) when it was derived

    def name(self):
        return "#%d(%s)" % (self.id, ALIAS.get(self.origin, self.origin) if self.alias else self.origin)


def _value_ids(db):
    ids = set()
    for attr in ("db", "rdb"):
        d = getattr(db, attr, None)
        if isinstance(d, dict):
            ids.update(id(v) for v in d.values())
    return ids


class Interp(object):
    def __init__(self):
        self.allowed = findings.allowed(ID)
        self.pool = []
        self.labels = set()
        self.hits = 0
        self.derived = False
        self.insert_after_derivation = False
        self.shared_tag = False
        self.steps = 0
        self.cells = 0

    # -- pool -------------------------------------------------------------------------------

    def live(self):
        return [e for e in self.pool if e.live]

    def target(self, i):
        lv = self.live()
        e = lv[(i if isinstance(i, int) and not isinstance(i, bool) else 0) % len(lv)]
        if e.failed_read:
            self.labels.add("op-on-db-after-failed-read")
        return e

    def add(self, db, origin, parent, share):
        e = Entry(len(self.pool), db, origin, parent)
        self.pool.append(e)
        return e

    # -- documented sharing ------------------------------------------------------------------

    def newcell(self):
        self.cells += 1
        return self.cells

    def bind(self, e, fwd_from=None, rev_from=None, keep=False):
        """Say which set stands behind every key ``e`` shows now: the one it had (``keep``), else
        the one the given database has under that key (the docstring of the derivation says
        "sharing tagsets / package sets with this one"), else a set of its own."""
        old_f, old_r = (e.cf, e.cr) if keep else ({}, {})
        fwd_from, rev_from = fwd_from or {}, rev_from or {}
        e.cf = {k: old_f.get(k) or fwd_from.get(k) or self.newcell() for k in sorted(e.S.fwd)}
        e.cr = {k: old_r.get(k) or rev_from.get(k) or self.newcell() for k in sorted(e.S.rev)}

    def unbind(self, e):
        """read()/qread() into ``e``: "Read the database" - it shares nothing with anyone any more."""
        e.dg, e.flip = object(), 0
        self.bind(e)

    def sharers(self, e):
        """The other live databases that, going by the docstrings of the derivations that made
        them, hold a set ``e`` holds or are reverse() views of it."""
        mine = set(e.cf.values()) | set(e.cr.values())
        return [o for o in self.live() if o is not e and (
            o.dg is e.dg or not mine.isdisjoint(o.cf.values()) or not mine.isdisjoint(o.cr.values()))]

    # -- the dual-model comparison ----------------------------------------------------------

    def settle(self, e, spec, dev, truth, opname, opt_fwd=(), opt_rev=(), old=False, src=None):
        """Compare database ``e`` after ``opname`` with M (``spec``); failing that, and only while
        the known finding is listed, with M' (``dev``).  Fitting neither is a Violation.
        With ``old`` the database is looked at through the deprecated aliases of the query methods
        (which must show exactly what the methods they document show).  ``src``: the database
        the state was computed from (the source of a derivation, the writer of a pickle, ``e``
        itself for an insert) - the new state descends from whatever that one descends from."""
        obs = observe(e.db, e.name(), old)
        if rel.agrees(obs, spec, opt_fwd, opt_rev):
            pass
        elif dev is not None and rel.agrees(obs, dev, opt_fwd, opt_rev):
            if KNOWN_ID not in self.allowed:
                raise Violation(KNOWN_SIG, "%s on %s: %s  (specified: %s)" % (
                    opname, e.name(), rel.diff(obs, spec), spec.show()))
            self.hits += 1
            self.labels.add("hit-via:" + opname)
        else:
            raise Violation(opname + "-result", "%s gives %s: %s" % (
                opname, e.name(), rel.diff(obs, spec)))
        e.S = obs
        # optional keys the implementation chose to keep are part of what M says, too
        for k in obs.fwd:
            if k in opt_fwd and k not in truth.fwd:
                truth.fwd[k] = set()
        for k in obs.rev:
            if k in opt_rev and k not in truth.rev:
                truth.rev[k] = set()
        e.T = truth
        e.down = e.S != e.T or (src is not None and src.down)
        e.loose = src is not None and src.loose
        if e.down:
            self.labels.add("state-downstream-of-known-finding")
        elif e.loose:
            self.labels.add("state-downstream-of-insert-through-shared-sets")
        elif not e.S.is_relation():
            raise AssertionError("model M produced a non-relation")
        check_queries(e.db, obs, e.name(), old)
        # asking (also for names the collection does not have) is not changing
        again = observe(e.db, e.name())
        if again != obs:
            raise Violation("query-changes-collection", "%s after the %squery methods were called "
                            "with every name it has and with %s: %s" % (
                                e.name(), "deprecated aliases of the " if old else "", ABSENT,
                                rel.diff(again, obs)))
        if old:
            self.labels.add("queries-via-deprecated-aliases")
        if obs.max_card() >= 2:
            self.shared_tag = True

    def verify_others(self, actor, opname):
        """No live database other than ``actor`` may have changed."""
        for e in self.live():
            if e is actor:
                continue
            obs = observe(e.db, e.name())
            if obs != e.S:
                raise Violation(self.blame(actor, e, opname), "%s on %s changed %s: %s" % (
                    opname, actor.name(), e.name(), rel.diff(obs, e.S)))

    def blame(self, actor, victim, opname):
        """Name the copy-documented derivation between the two that shares set objects."""
        def chain(e):
            out = []
            while e is not None:
                out.append(e)
                e = e.parent
            return out
        ca, cv = chain(actor), chain(victim)
        common = [e for e in ca if e in cv]
        if common:
            lca = common[0]
            edges = cv[:cv.index(lca)] + ca[:ca.index(lca)]
            culprits = [e for e in edges if e.origin in COPYING.values()
                        and _value_ids(e.db) & _value_ids(e.parent.db)]
            spelt = lambda e: ALIAS.get(e.origin, e.origin) if e.alias else e.origin   # noqa: E731
            if culprits:       # every such edge is needed for the damage; name the one nearest the victim
                return spelt(culprits[0]) + "-shares-sets"
            named = sorted({spelt(e) for e in edges if e.origin in COPYING.values()})
            if named:
                return "+".join(named) + "-not-independent"
            named = sorted({spelt(e) for e in edges if e.origin in SHARING.values()})
            if named:          # only sharing derivations in between, but more is shared than they document
                return "+".join(named) + "-shares-more-than-documented"
        return "%s-changes-unrelated-db" % opname

    # -- operations -------------------------------------------------------------------------

    def feed(self, db, lines, allowed, form, final_newline=True, fail=None):
        """db.read() of the text of ``lines``, handed over as ``form`` says: an iterator over the
        lines, a list of lines, an io.StringIO, or a real text file opened for reading.

        ``fail`` = (how, k) makes the read fail midway (the exception is the caller's to catch):
        "filter": the tag_filter answers as ``allowed`` says k' = k mod (number of tags in the text)
        times and raises InputFailure on the next call; "input": in the "file" form the byte 0xFF,
        which is not UTF-8, stands in front of line k' = k mod (lines + 1) (UnicodeDecodeError when
        the reader gets there; lines of earlier buffers have been handed out by then), in every
        other form an iterator hands out the first k' lines and then raises InputFailure.  When
        there is nothing to fail on (a text without tags for "filter") the read simply succeeds."""
        text = [line_of(p, t, s) for p, t, s in lines]
        if not final_newline and text and text[-1] != "\n":
            text[-1] = text[-1][:-1]
            self.labels.add("read:last-line-without-newline")
        args = () if allowed is None else (lambda t: t in allowed,)
        form = form if form in FORMS else "iter"
        size = sum(map(len, text))
        how, k = fail if fail else (None, 0)
        if how == "filter":
            ntags = sum(len(set(t)) for p, t, _ in lines if p)
            left = [k % ntags if ntags else 0]

            def failing_filter(t):
                if left[0] <= 0:
                    raise InputFailure("tag_filter(%r) raises" % (t,))
                left[0] -= 1
                return allowed is None or t in allowed
            args = (failing_filter,)
        elif how == "input":
            k %= len(text) + 1
            if k:
                self.labels.add("failed-read:lines-before-the-failure")
            if form == "file":
                d = tempfile.mkdtemp(prefix="vcheck-c20-", dir=SCRATCH)
                try:
                    path = os.path.join(d, "package-tags")
                    with open(path, "wb") as f:
                        f.write("".join(text[:k]).encode("utf-8") + b"\xff"
                                + "".join(text[k:]).encode("utf-8"))
                    with open(path, "r", encoding="utf-8") as f:
                        db.read(f, *args)
                finally:
                    shutil.rmtree(d, ignore_errors=True)
                return

            def failing_input():
                for line in text[:k]:
                    yield line
                raise InputFailure("the input raises after %d lines" % k)
            db.read(failing_input(), *args)
            return
        if form == "list":
            db.read(list(text), *args)
        elif form == "stringio":
            db.read(io.StringIO("".join(text)), *args)
        elif form == "file":
            d = tempfile.mkdtemp(prefix="vcheck-c20-", dir=SCRATCH)
            try:
                path = os.path.join(d, "package-tags")
                with open(path, "w", encoding="utf-8", newline="") as f:
                    f.write("".join(text))
                with open(path, "r", encoding="utf-8") as f:
                    db.read(f, *args)
            finally:
                shutil.rmtree(d, ignore_errors=True)
        else:
            db.read(iter(text), *args)
        self.labels.add("read-from:" + form)
        if size > 65536:
            self.labels.add("read-from:%s/text>64KiB" % form)

    def note_names(self, lines):
        for pkgs, tags, _ in lines:
            for p in pkgs:
                for shape in name_shapes(p):
                    self.labels.add("name:%s/%s/%s" % (shape, "multi-package-line" if len(pkgs) > 1 else
                                                       "single-package-line", "tagged" if tags else "untagged"))

    def do_read(self, entries, flt, origin="read", form="iter", final_newline=True, old=False):
        lines = clean_lines(entries, self.labels)
        self.note_names(lines)
        allowed = None if flt is None else set(strs(flt))
        db = DB()
        self.feed(db, lines, allowed, form, final_newline)
        if allowed is not None:
            self.labels.add("read-with-tag-filter")
        if any(len(p) > 1 for p, _, _ in lines):
            self.labels.add("multi-package-line")
        if any(p and not t for p, t, _ in lines):
            self.labels.add("package-without-tags")
        e = self.add(db, origin, None, False)
        model_lines = [(p, t) for p, t, _ in lines if p]    # a line without packages is a blank line
        self.settle(e, rel.read(model_lines, allowed), None, rel.read(model_lines, allowed), "read",
                    old=old)
        self.unbind(e)
        return e

    def do_reread(self, e, entries, flt, form="iter", old=False, fail=None):
        """read() into a database that already holds a collection: "Read the database from a file"
        - afterwards it holds what the text says (that is also what the code does: both indexes are
        rebound).  Views that shared sets with the old content are retired; whatever is derived
        from the database from now on must reflect the new content.

        With ``fail`` (see feed) the read raises midway.  A read that failed has not happened: the
        reference keeps the pairs it had (DB.read installs both indexes with one assignment after
        the whole input has been consumed), so the database - and every other one, its sharing
        views included - must show exactly what it showed before, through every query method, and
        stays in the pool for whatever the history does next."""
        lines = clean_lines(entries_of(entries), self.labels)
        self.note_names(lines)
        allowed = None if flt is None else set(strs(flt))
        views = self.sharers(e)
        try:
            self.feed(e.db, lines, allowed, form, fail=fail)
        except (InputFailure, UnicodeDecodeError) as exc:
            if fail is None or not isinstance(exc, UnicodeDecodeError if (
                    fail[0] == "input" and form == "file") else InputFailure):
                raise
            self.after_failed_read(e, "%s/%s" % (fail[0], form if form in FORMS else "iter"), old)
            e.routes.append("failed-read")
            return e
        for o in views:
            o.live = False
        model_lines = [(p, t) for p, t, _ in lines if p]
        self.settle(e, rel.read(model_lines, allowed), None, rel.read(model_lines, allowed), "reread",
                    old=old)
        self.unbind(e)
        e.routes.append("read")
        self.labels.add("op:read-into-existing-db")
        return e

    def after_failed_read(self, e, what, old=False):
        for o in self.live():
            obs = observe(o.db, o.name())
            if obs != o.S:
                broken = o.S.is_relation() and not obs.is_relation()
                raise Violation("failed-read-leaves-indexes-not-inverse" if broken else
                                "failed-read-changes-collection",
                                "read() into %s failed (%s) and left %s as: %s" % (
                                    e.name(), what, "it" if o is e else o.name(), rel.diff(obs, o.S)))
        check_queries(e.db, e.S, e.name(), old)
        e.failed_read = True
        self.labels.add("failed-read:" + what)
        self.labels.add("failed-read-into:%s" % (
            "new-db" if e.origin == "read" and not e.S.fwd and not e.S.rev else
            "db-with-sharing-views" if self.sharers(e)
            else "existing-db"))

    def verify_all(self, actor, opname, sig):
        """A query / a write-out changes nothing: every live database still shows its state."""
        for o in self.live():
            obs = observe(o.db, o.name())
            if obs != o.S:
                raise Violation(sig, "%s on %s changed %s: %s" % (
                    opname, actor.name(), "itself" if o is actor else o.name(), rel.diff(obs, o.S)))

    def do_mquery(self, e, names, old=False, form=None):
        """The multi-name queries packages_of_tags / tags_of_packages / ideal_tagset, each called
        with every rotation of the (non-empty, duplicate-free) name list, so that every name is the
        first argument once.  What is demanded: they are *queries* - afterwards every database of
        the pool is unchanged - and the answer lies between the intersection and the union of the
        single-name answers (the docstrings say "all", the code takes the union: either reading
        passes); ideal_tagset returns the set of a non-empty prefix of its argument ("taken in
        consecutive sequence from the beginning", "always at least the first tag").
        With ``old`` all of this is asked of the deprecated aliases packagesOfTags /
        tagsOfPackages / idealTagset.  ``form`` (a kind of ARG_FORMS): how packages_of_tags /
        tags_of_packages (Iterable[str]) are handed every rotation of the names - see as_form();
        ideal_tagset, which takes a list ("vector": it is sliced), gets a tuple for "tuple" and a
        list otherwise."""
        kind, _ = argform(form)
        names = [n for i, n in enumerate(strs(names)) if n not in strs(names)[:i]][:6]
        if not names:
            self.labels.add("note:mquery-skipped-empty-list")
            return None
        S = e.S
        for side, key in ((S.rev, "tags"), (S.fwd, "packages")):
            present = [n for n in names if n in side]
            if len(present) >= 2:
                self.labels.add("mquery:2+-existing-%s" % key)
                if any(side[n] - side[present[0]] for n in present[1:]):
                    self.labels.add("mquery:later-%s-add-to-the-first" % key)
            if present and len(present) < len(names):
                self.labels.add("mquery:existing-and-absent-%s" % key)
        for r in range(len(names)):
            arg = names[r:] + names[:r]
            for method, side in (("packages_of_tags", S.rev), ("tags_of_packages", S.fwd)):
                given = as_form(arg, kind)
                got = meth(e.db, method, old, self.labels)(given)
                if kind:
                    self.labels.add("arg:%s/%s" % (method, kind))
                if old:
                    method = ALIAS[method]
                if not (isinstance(got, (set, frozenset)) and all(isinstance(x, str) for x in got)):
                    raise Violation("query:" + method, "%s: %s(%s) = %s" % (
                        e.name(), method, arg, short(got, 120)))
                parts = [side.get(n, set()) for n in arg]
                lo, hi = set.intersection(*parts), set().union(*parts)
                if not (lo <= set(got) <= hi):
                    raise Violation("query:" + method, "%s: %s(%s) = %s, not between the common "
                                    "members %s and all members %s of the single answers" % (
                                        e.name(), method, arg, short(sorted(got), 120),
                                        sorted(lo), sorted(hi)))
                if not still_holds(given, arg, kind):
                    raise Violation("query:" + method, "%s(%s) left its argument as %s" % (
                        method, arg, short(given, 120)))
                self.verify_all(e, "%s(%s)" % (method, arg), method + "-changes-collection")
            given = tuple(arg) if kind == "tuple" else list(arg)
            if kind == "tuple":
                self.labels.add("arg:ideal_tagset/tuple")
            ideal = ALIAS["ideal_tagset"] if old else "ideal_tagset"
            got = meth(e.db, "ideal_tagset", old, self.labels)(given)
            if not (isinstance(got, (set, frozenset))
                    and any(set(got) == set(arg[:k]) for k in range(1, len(arg) + 1))):
                raise Violation("query:" + ideal, "%s: %s(%s) = %s, not a non-empty "
                                "prefix of the argument" % (e.name(), ideal, arg, short(got, 120)))
            if list(given) != arg:
                raise Violation("query:" + ideal, "%s(%s) left its argument as %s" % (
                    ideal, arg, short(given, 120)))
            self.verify_all(e, "%s(%s)" % (ideal, arg), ideal + "-changes-collection")
        check_queries(e.db, e.S, e.name(), old)
        self.verify_all(e, "the single-name queries", "query-changes-collection")
        self.labels.add("op:multi-name-queries")
        if old:
            self.labels.add("op-via-alias:multi-name-queries")
        return None

    def do_qio(self, e, extras, mode, old=False):
        """qwrite()/qread(): the target and up to two more pool members are written one after
        another into ONE in-memory file, which is then read back in the same order

          "fresh"  into one new DB() per collection (all join the pool),
          "reuse"  all into one new DB() (checked after each qread; it joins the pool),
          "into"   all into the target itself, a database that already holds a collection
                   (views sharing sets with its old content are retired, as for reread).

        "Quickly write the data" / "Quickly read the data": after the k-th qread the database is
        exactly what the k-th writer showed when it was written (both indexes are stored, so this
        also holds downstream of the known finding); writing changes nothing."""
        mode = mode if mode in ("fresh", "reuse", "into") else "fresh"
        extras = [x for x in extras if isinstance(x, int) and not isinstance(x, bool)][:2] \
            if isinstance(extras, list) else []
        srcs = [e] + [self.target(x) for x in extras]
        if len(self.pool) + (len(srcs) if mode == "fresh" else 1) > 24:
            return None
        buf = io.BytesIO()
        for s in srcs:
            s.db.qwrite(buf)
            self.verify_all(s, "qwrite", "qwrite-changes-collection")
        written = []
        for s in srcs:               # what the writer was when it wrote
            w = Entry(s.id, None, s.origin, None)
            w.S, w.T, w.down, w.loose = s.S.copy(), s.T.copy(), s.down, s.loose
            written.append((s, w.S, w.T, w))
        buf.seek(0)
        out = []
        holder = None
        if mode == "into":
            for o in self.sharers(e):
                o.live = False
            holder = e
            self.labels.add("qread-into-existing-db")
            if written[-1][1] != e.S:
                self.labels.add("qread-into-existing-db:other-content")
        for s, spec, truth, w in written:
            if holder is None:
                holder = self.add(DB(), "qread", s, False)
                out.append(holder)
            holder.db.qread(buf)
            self.settle(holder, spec, None, truth, "qread", old=old, src=w)
            self.unbind(holder)
            holder.routes.append("qread")
            self.verify_others(holder, "qread")
            if mode == "fresh":
                holder = None
        self.labels.add("op:qwrite/qread")
        if len(written) >= 2:
            self.labels.add("qio:2+-collections-in-one-file/" + mode)
            if any(a[1] != b[1] for a, b in zip(written, written[1:])):
                self.labels.add("qio:different-collections-in-one-file")
        if any(sp.fwd != sp.rev for _, sp, _, _ in written):
            self.labels.add("qio:collection-differs-from-its-reverse")
        if mode == "reuse":
            self.labels.add("qread-twice-into-one-db" if len(written) >= 2 else "qread-into-new-db")
        return out or None

    def do_insert(self, e, pkg, tags, old=False):
        if not isinstance(pkg, str) or not pkg or pkg in e.S.fwd or pkg in e.T.fwd:
            self.labels.add("note:insert-skipped-existing-name")
            return False
        tags = set(strs(tags))
        arg = set(tags)
        # the sets an insert may add a name to: the package sets of its tags (the tagset of the new
        # package is a new set).  Who else holds one of them, going by the docstrings?
        touched = {e.cr[t] for t in tags if t in e.cr}
        views = self.sharers(e)
        others = [(o, o in views, o.dg is e.dg or not touched.isdisjoint(o.cf.values())
                   or not touched.isdisjoint(o.cr.values())) for o in self.live() if o is not e]
        e.db.insert(pkg, arg)
        if arg != tags:
            raise Violation("insert-mutates-argument", "insert(%r, %s) left the argument as %s" % (
                pkg, sorted(tags), sorted(arg)))
        self.labels.add("insert:1-char-name" if len(pkg) == 1 else "insert:multi-char-name")
        if any(t not in e.S.rev for t in tags):
            self.labels.add("insert:new-tag/1-char" if len(pkg) == 1 else "insert:new-tag/multi-char")
        if any(t in e.S.rev for t in tags):
            self.labels.add("insert:existing-tag")
        if views:
            self.labels.add("insert-into-db-with-sharing-views")
        if e.origin in COPYING.values():
            self.labels.add("insert-into-copy")
        if e.origin in SHARING.values():
            self.labels.add("insert-into-sharing-view")
        if any(o.live and o.parent is e and o.origin in COPYING.values() for o in self.pool):
            self.labels.add("insert-into-source-of-live-copy")
        if self.derived:
            self.insert_after_derivation = True
        self.settle(e, rel.insert(e.S, pkg, tags), rel.insert(e.S, pkg, tags, deviant=True),
                    rel.insert(e.T, pkg, tags), "insert", old=old, src=e)
        self.bind(e, keep=True)
        e.routes.append("insert")
        self.after_insert(e, pkg, tags, others)
        return True

    def after_insert(self, e, pkg, tags, others):
        """Every other live database is looked at after an insert into ``e``.

        One that - going by the docstrings of the derivations between them - holds none of the
        package sets the insert adds a name to, and is not a reverse() view of ``e``, shows exactly
        what it showed before: that is every copy, every unrelated database, and also a
        choose_packages / filter_packages / filter_packages_tags view and its source (they share
        *tagsets*, and an insert of a new package adds to no existing tagset), whatever the filter
        kept.  One that does hold such a set (a filter_tags view or its source, a reverse() view,
        views of those) may show the new name - its two indexes are then not promised to be
        inverse - but nothing else: every key and every member it had is still there, and whatever
        is new is the inserted name or one of the given tags (or, while the known finding is
        listed, a character of the name).  What it shows now is what its query methods answer,
        and it is the state every later operation on it starts from."""
        names = {pkg} | set(tags) | (set(pkg) if KNOWN_ID in self.allowed else set())
        for o, view, may in others:
            if not o.live:
                continue
            obs = observe(o.db, o.name())
            if obs == o.S:
                if view:
                    self.labels.add("insert:sharing-view-unchanged" if not may else
                                    "insert:view-sharing-the-package-sets-unchanged")
                continue
            if not may:
                raise Violation(self.blame(e, o, "insert"), "insert(%r, %s) on %s changed %s: %s" % (
                    pkg, sorted(tags), e.name(), o.name(), rel.diff(obs, o.S)))
            for was, now in ((o.S.fwd, obs.fwd), (o.S.rev, obs.rev)):
                for k in sorted(set(was) | set(now)):
                    if (k not in was and (k not in names or not now[k] <= names)) or (
                            k in was and (k not in now or not was[k] <= now[k]
                                          or not now[k] - was[k] <= names)):
                        raise Violation("insert-through-shared-sets-changes-other-pairs",
                                        "insert(%r, %s) on %s left %s as: %s" % (
                                            pkg, sorted(tags), e.name(), o.name(), rel.diff(obs, o.S)))
            if o.dg is e.dg and o.S.is_relation() and e.S.is_relation() and not obs.is_relation():
                # reverse() is one of the derivations the statement lists: "after any sequence of
                # ... inserts and derivations ... a package is listed under a tag exactly when the
                # tag is listed for the package".  A reverse() view and its source hold the same
                # tagsets in both indexes, so - unlike a filter_tags view, which has an index of
                # its own - nothing stands in the way: when the database inserted into is inverse
                # after the insert, the other one of the pair, if it shows the insert at all, shows
                # it in both indexes (whatever the size of either index was before).
                raise Violation("insert-leaves-reverse-view-pair-not-inverse",
                                "insert(%r, %s) on %s (indexes inverse before and after) left %s, which was "
                                "inverse before, as %s: %s" % (
                                    pkg, sorted(tags), e.name(), o.name(), short(obs.show(), 240),
                                    rel.diff(obs, o.S)))
            check_queries(o.db, obs, o.name())
            if observe(o.db, o.name()) != obs:
                raise Violation("query-changes-collection", "%s after the query methods were called: %s" % (
                    o.name(), rel.diff(observe(o.db, o.name()), obs)))
            o.S, o.T = obs, obs.copy()
            o.routes.append("insert-into-a-reverse-view" if o.dg is e.dg else "insert-into-a-db-sharing-sets")
            o.down = o.down or e.down
            if obs.is_relation():
                self.labels.add("insert:sharing-view-follows")
            else:
                o.loose = True
                self.labels.add("insert:sharing-view-no-longer-inverse")
            if o.dg is e.dg:           # a reverse() view of e: the new keys stand for e's new sets
                self.bind(o, *((e.cf, e.cr) if o.flip == e.flip else (e.cr, e.cf)), keep=True)
            else:
                self.bind(o, keep=True)
            if obs.max_card() >= 2:
                self.shared_tag = True

    def do_derive(self, op, e, a, b, old=False):
        S, T = e.S, e.T
        opt_fwd = opt_rev = ()
        dev = None
        call = lambda name: meth(e.db, name, old, self.labels)    # noqa: E731
        if op in ("reverse", "reverse_copy"):
            nd = e.db.reverse() if op == "reverse" else call("reverse_copy")()
            spec, truth = rel.swapped(S), rel.swapped(T)
        elif op == "copy":
            nd = e.db.copy()
            spec, truth = S.copy(), T.copy()
        elif op == "facet":
            tags = set(S.rev) | set(T.rev)
            for ts in S.fwd.values():
                tags |= ts
            strict = all(rel.facetable(t) for t in tags)
            if not strict and e.down:
                self.labels.add("note:facet-skipped-tag-without-facet-downstream-of-known-finding")
                return None
            order = list(e.db.iter_packages())
            nd = call("facet_collection")()
            if strict:
                spec, dev, truth = rel.facet(S), rel.facet(S, order, deviant=True), rel.facet(T)
            else:
                fw = self.loose_facets(nd, S, ALIAS["facet_collection"] if old else "facet_collection")
                spec, dev, truth = rel.rebuild(fw), rel.rebuild(fw, order, deviant=True), rel.rebuild(fw)
                self.labels.add("facet:tag-without-documented-facet")
            if len({rel.facet_of(t) for t in tags}) < len(tags):
                self.labels.add("facet-merges-tags")
        elif op in ("choose", "choose_copy", "filter_packages", "filter_packages_copy"):
            sel = self.selection(a, S.fwd)
            if op == "choose":
                nd = self.handing(e, "choose_packages", call("choose_packages"), sel, b)
                if sel - set(S.fwd):
                    self.labels.add("choose-with-missing-package")
            elif op == "choose_copy":
                nd = self.choose_copy(e, sel, call("choose_packages_copy"), b)
            elif op == "filter_packages":
                nd = call("filter_packages")(lambda p: p in sel)
            else:
                nd = call("filter_packages_copy")(lambda p: p in sel)
            (spec, opt_rev), (truth, _) = (rel.restrict_packages(S, lambda p, ts: p in sel),
                                           rel.restrict_packages(T, lambda p, ts: p in sel))
        elif op in ("filter_packages_tags", "filter_packages_tags_copy"):
            sel, tsel = self.selection(a, S.fwd), self.selection(b, self.tags_in(S))
            pred = lambda pt: pt[0] in sel or bool(pt[1] & tsel)   # noqa: E731
            nd = call(op)(pred)
            keep = lambda p, ts: p in sel or bool(ts & tsel)       # noqa: E731
            (spec, opt_rev), (truth, _) = rel.restrict_packages(S, keep), rel.restrict_packages(T, keep)
        elif op in ("filter_tags", "filter_tags_copy"):
            tsel = self.selection(a, S.rev)
            nd = call(op)(lambda t: t in tsel)
            (spec, opt_fwd), (truth, _) = (rel.restrict_tags(S, lambda t: t in tsel),
                                           rel.restrict_tags(T, lambda t: t in tsel))
            if opt_fwd:
                self.labels.add("filter_tags-leaves-package-without-tags")
        else:
            return None
        if not isinstance(nd, DB):
            raise Violation(op + "-result", "%s returned %s" % (op, short(nd, 80)))
        share = op in SHARING
        origin = SHARING[op] if share else COPYING[op]
        if e.origin != "read":
            self.labels.add("derivation-of-derivation")
            if share and self.sharers(e):
                self.labels.add("transitive-sharing")
        n = self.add(nd, origin, e, share)
        self.labels.add("op:" + origin)
        if old and origin in ALIAS:
            n.alias = True
            self.labels.add("op-via-alias:" + ALIAS[origin])
            origin = ALIAS[origin]
        if e.down:
            self.labels.add("derivation-from-state-downstream-of-known-finding")
        if e.loose:
            self.labels.add("derivation-from-state-downstream-of-insert-through-shared-sets")
        n.seen = len(e.routes)
        prev = [o for o in self.pool if o.parent is e and o.origin == n.origin and o is not n]
        if prev:                # asked before on this very object: what happened to its data since?
            self.labels.add("derivation-repeated-on-the-same-db")
            for r in sorted(set(e.routes[prev[-1].seen:])) or ["nothing"]:
                self.labels.add("derivation-repeated-after:" + r)
            if prev[-1].alias != n.alias:
                self.labels.add("derivation-repeated-under-the-other-spelling")
        self.settle(n, spec, dev, truth, origin, opt_fwd, opt_rev, old, src=e)
        if op == "reverse":                       # "sharing tagsets with this one"
            n.dg, n.flip = e.dg, e.flip ^ 1
            self.bind(n, e.cr, e.cf)
        elif op in ("choose", "filter_packages", "filter_packages_tags"):     # "sharing tagsets"
            self.bind(n, e.cf, None)
        elif op == "filter_tags":                 # "sharing package sets with this one"
            self.bind(n, None, e.cr)
        else:                                     # "a copy of ..."
            self.bind(n)
        if len(spec.fwd) not in (0, len(S.fwd)) or len(spec.rev) not in (0, len(S.rev)):
            self.labels.add("proper-restriction")
        if op not in ("reverse", "reverse_copy", "copy", "facet"):
            side, was = (spec.rev, S.rev) if op.startswith("filter_tags") else (spec.fwd, S.fwd)
            if len(was) >= 2:
                kind = ("restriction-keeps-everything" if len(side) == len(was) else
                        "restriction-keeps-nothing" if not side else
                        "restriction-keeps-all-but-one" if len(side) == len(was) - 1 else None)
                if kind:
                    self.labels.add(kind)
                    self.labels.add("%s/%s" % (kind, "sharing" if share else "copy"))
        self.derived = True
        self.verify_others(n, origin)
        return n

    @staticmethod
    def tags_in(S):
        out = set(S.rev)
        for ts in S.fwd.values():
            out |= ts
        return out

    @staticmethod
    def selection(spec, keys):
        """The names a filter / choice lets through: a list of names, or - relative to what the
        target holds when the operation runs - {"keep": "all"} every key, {"keep": "none"} no
        name at all, {"keep": "all-but", "j": n} every key except the n-th (modulo, sorted)."""
        if isinstance(spec, dict):
            ks = sorted(keys)
            keep, j = spec.get("keep"), spec.get("j")
            if keep == "all":
                return set(ks)
            if keep == "all-but" and ks:
                j = j if isinstance(j, int) and not isinstance(j, bool) else 0
                return set(ks) - {ks[j % len(ks)]}
            return set()
        return set(strs(spec))

    def loose_facets(self, nd, S, origin):
        """facet_collection() of a collection in which some tag is not of the shape facet::name.
        What the facet of such a tag is, nothing documents - so only this is demanded of the
        forward index of the result: the same packages; every package has the facets of those of
        its tags that do have one and at most one further name per tag that does not.  Returns that
        forward index; the caller then demands that the reverse index is exactly its inverse
        (the result is the collection built by inserting these packages with these sets)."""
        if not isinstance(nd, DB):
            raise Violation(origin + "-result", "%s returned %s" % (origin, short(nd, 80)))
        obs = observe(nd, origin + "()")
        if set(obs.fwd) != set(S.fwd):
            raise Violation(origin + "-result", "%s: packages %s, the source has %s" % (
                origin, short(sorted(obs.fwd), 100), short(sorted(S.fwd), 100)))
        for p in sorted(S.fwd):
            sure = {rel.facet_of(t) for t in S.fwd[p] if rel.facetable(t)}
            free = len([t for t in S.fwd[p] if not rel.facetable(t)])
            if not sure <= obs.fwd[p] or len(obs.fwd[p] - sure) > free:
                raise Violation(origin + "-result", "%s: package %r with tags %s got %s" % (
                    origin, p, sorted(S.fwd[p]), sorted(obs.fwd[p])))
        return obs.fwd

    def handing(self, e, method, fn, names, form):
        """fn(<the names as ``form`` says>): package_iter is an Iterable[str], so the same names are
        handed over as a list, a tuple, a set, a frozenset, the keys view of a dict, a generator,
        iter(list) or map(str, list) - a new object per call, in the order arranged() gives (one
        that is usually not the order the database iterates in) - and the same result is demanded
        whatever the form.  An object that can be walked again still holds what it held."""
        kind, r = argform(form)
        seq = arranged(names, r)
        given = as_form(seq, kind)
        res = fn(given)
        if not still_holds(given, seq, kind):
            raise Violation(method + "-changes-argument", "%s(%s of %s) left its argument as %s" % (
                method, kind or "list", seq, short(given, 120)))
        if kind:
            self.labels.add("arg:%s/%s" % (method, kind))
            have = [n for n in seq if n in e.S.fwd]
            if len(have) >= 2:
                self.labels.add("arg:2+-names-of-the-collection/" + ("walked-once" if kind in ONE_SHOT else
                                                                     "unordered" if "set" in kind else "ordered"))
                if kind not in ("set", "frozenset") and have != [p for p in e.db.iter_packages() if p in have]:
                    self.labels.add("arg:names-not-in-the-order-of-the-collection"
                                    + ("/walked-once" if kind in ONE_SHOT else ""))
        return res

    def choose_copy(self, e, sel, choose_packages_copy, form=None):
        """choose_packages_copy has no "if pkg in self.db": when some of the names are not
        packages of the collection the call either fails with KeyError - then nothing was derived
        and every database is as before, and the names the collection does have are chosen in a
        second call - or it returns the restriction to the names it has (what choose_packages
        does).  It never changes the collection it is asked of.  ``form``: see handing()."""
        have = sel & set(e.S.fwd)
        if not sel - set(e.S.fwd):
            return self.handing(e, "choose_packages_copy", choose_packages_copy, have, form)
        self.labels.add("choose_copy-with-missing-package")
        try:
            nd = self.handing(e, "choose_packages_copy", choose_packages_copy, sel, form)
        except KeyError:
            nd = None
            self.labels.add("choose_copy-with-missing-package:KeyError")
        self.verify_all(e, "choose_packages_copy(%s)" % sorted(sel),
                        "choose_packages_copy-unknown-name-changes-collection")
        return self.handing(e, "choose_packages_copy", choose_packages_copy, have, form) if nd is None else nd

    def step(self, op):
        """Apply one op; returns the Entry created, True for an executed insert, else None."""
        if not (isinstance(op, list) and op and isinstance(op[0], str)):
            self.labels.add("note:malformed-op-skipped")
            return None
        self.steps += 1
        name = op[0]
        old = name.startswith(OLD)
        if old:
            name = name[len(OLD):]
        arg = lambda k: op[k] if len(op) > k else None   # noqa: E731
        if name == "read":
            if len(self.pool) >= 24:
                return None
            e = self.do_read(arg(1), arg(2), form=arg(3), old=old)
            self.labels.add("op:read-into-pool")
            self.verify_others(e, "read")
            return e
        if name == "reread":
            e = self.do_reread(self.target(arg(1)), arg(2), arg(3), arg(4), old)
            self.verify_others(e, "reread")
            return e
        if name == "failread":
            how = arg(6) if arg(6) in HOWS else "input"
            k = arg(5) if isinstance(arg(5), int) and not isinstance(arg(5), bool) else 0
            if arg(1) is None:                       # into a new DB(), which joins the pool - empty
                if len(self.pool) >= 24:
                    return None
                e = self.add(DB(), "read", None, False)
                e.S, e.T = rel.State(), rel.State()
                self.do_reread(e, arg(2), arg(3), arg(4), old, (how, k))
                self.verify_others(e, "read")
                return e
            e = self.do_reread(self.target(arg(1)), arg(2), arg(3), arg(4), old, (how, k))
            self.verify_others(e, "reread")
            return None
        if name == "insert":
            return self.do_insert(self.target(arg(1)), arg(2), arg(3), old) or None
        if name == "mquery":
            return self.do_mquery(self.target(arg(1)), arg(2), old, arg(3))
        if name == "qio":
            return self.do_qio(self.target(arg(1)), arg(2), arg(3), old)
        if name in SHARING or name in COPYING:
            if len(self.pool) >= 24:
                return None
            return self.do_derive(name, self.target(arg(1)), arg(2), arg(3), old)
        self.labels.add("note:malformed-op-skipped")
        return None

    def result(self):
        labels = sorted(self.labels)
        labels += ["known-finding-hit"] * self.hits
        if self.hits:
            labels.append("history-with-known-finding-hit")
        else:
            labels.append("history-within-M")
            if "insert:multi-char-name" not in self.labels and (
                    "insert:1-char-name" in self.labels):
                labels.append("history-within-M/only-1-char-inserts")
        if self.insert_after_derivation:
            labels.append("insert-after-derivation")
        if self.shared_tag:
            labels.append("tag-with-2+-packages")
        labels.append("pool-size:%s" % ("1" if len(self.pool) == 1 else
                                        "2-4" if len(self.pool) <= 4 else "5+"))
        return (self.insert_after_derivation and self.shared_tag, labels)


def big_entries(spec):
    """A long text written out from three numbers (deterministic; the case stays small):
    {"chars": n, "block": B, "off": d} = lines `pNNNNN: tags` (every 7th package without tags,
    every 11th line naming two packages, 1..3 of the TAGS per line) until the text has n
    characters, where for EVERY k >= 1 with k*B + d inside the text a line is lengthened (its
    package name padded) so that its newline is character number k*B + d of the text: d = 0 the
    k-th block of B characters ends with a newline, d = 1 the newline is the first character of the
    next block, d = -1 one character earlier."""
    def num(key, lo, hi, default):
        v = spec.get(key) if isinstance(spec, dict) else None
        return min(hi, max(lo, v)) if isinstance(v, int) and not isinstance(v, bool) else default
    chars, block, off = num("chars", 0, 400000, 1000), num("block", 256, 1 << 20, 65536), num("off", -8, 8, 0)
    out, size, i = [], 0, 0
    target = block + off
    while size < chars:
        pkgs = ["p%05d" % i] + (["q%05d" % i] if i % 11 == 10 else [])
        tags = [] if i % 7 == 6 else sorted({TAGS[i % 10], TAGS[(i // 10 + 3 * i) % 10],
                                             TAGS[(i // 3) % 10]})[:1 + i % 3]
        style = i % 4
        length = len(line_of(pkgs, tags, style))
        if size + length + 64 > target:          # no later line is sure to fit: this one is stretched
            pad = target - size - length
            if pad >= 0:
                pkgs[0] += "x" * pad
                length += pad
                target += block
        out.append([pkgs, tags, style])
        size += length
        i += 1
    return out


def check(case):
    if not isinstance(case, dict):
        return (False, ("note:invalid-case-skipped",))
    with quiet():
        it = Interp()
        init = case.get("init")
        if isinstance(init, dict):
            init = big_entries(init.get("big"))
            it.labels.add("init:long-text-with-aligned-line-ends")
        it.do_read(init, case.get("filter"), form=case.get("form"),
                   final_newline=case.get("final_newline") is not False)
        ops = case.get("ops")
        for op in ops if isinstance(ops, list) else []:
            it.step(op)
        return it.result()


# ------------------------------------------------------------------------------------------
# bounded-exhaustive enumeration


ENUM_INIT = [[["p"], ["f::a", "g::b"], 0], [["q"], ["f::a"], 0], [["rr"], [], 0],
             [["s", "t"], ["g::b", "h::c"], 0]]     # one line naming two packages
ENUM_OPS = [
    ["reverse"], ["reverse_copy"], ["copy"], ["facet"],
    ["choose", ["p", "f::a", "zz"]], ["choose_copy", ["p", "f::a"]],
    ["filter_packages", ["p", "f::a"]], ["filter_packages_copy", ["p", "f::a"]],
    ["filter_packages_tags", ["q", "g::b"], ["g::b", "p"]],
    ["filter_packages_tags_copy", ["q", "g::b"], ["g::b", "p"]],
    ["filter_tags", ["f::a", "p"]], ["filter_tags_copy", ["f::a", "p"]],
    ["insert", "n", ["f::a"]], ["insert", "nn", ["g::b", "h::c"]], ["insert", "f::n", ["p"]],
    ["insert", "g::n", ["s"]],      # in a reversed view: a new item under one of the two packages of a line
    ["reread", [[["p"], ["h::c"], 0], [["u"], ["f::a"], 0]], None],   # read() into a database that holds something
]
ENUM_OPS_IO = ENUM_OPS + [
    ["mquery", ["f::a", "p", "zz", "g::b", "s"]],   # two tags, two packages, one absent name; every rotation
    ["qio", [0, 1], "fresh"],                       # target + members 0 and 1 through one pickle file
]


def enum_cases(maxlen, alphabet, spellings=("",), init=ENUM_INIT):
    """Every op sequence of length 1..maxlen x target indices, once per spelling: "" = the
    snake_case methods, OLD = every step of the history through the deprecated aliases."""
    def gen():
        def rec(prefix, pos, mark):
            if prefix:
                yield {"kind": "history", "init": init, "filter": None, "ops": list(prefix)}
            if pos == maxlen:
                return
            for o in alphabet:
                for i in range(pos + 1):
                    prefix.append([mark + o[0], i] + o[1:])
                    for c in rec(prefix, pos + 1, mark):
                        yield c
                    prefix.pop()
        for mark in spellings:
            for c in rec([], 0, mark):
                yield c
    return gen


# tags that are not facet::name (and one with a colon after the '::'): every op sequence of length 1..2
ODD_INIT = [[["p"], ["f:x", "g::b"], 0], [["q"], ["f::a", "f:sub::y"], 0], [["rr"], ["special"], 0],
            [["s", "t"], ["g", "w::i:r"], 0], [["u"], [], 0], [["v"], [":lead", "f::a"], 0]]
ODD_OPS = ENUM_OPS_IO + [["insert", "m", ["f:x", "special", "w::i:r"]], ["insert", "mm", ["f:sub::z"]]]
ODD_DESC = ("all op sequences of length 1..2 over the 19-op alphabet + 2 inserts with such tags x target "
            "index 0..position x both spellings on a fixed 7-package collection whose tags include f:x, f:sub::y, "
            "special, g, :lead (no documented facet) and w::i:r")

# a read() that fails midway, then normal use: [nothing | a sharing view | a copy | an insert that hits
# the known finding] x failing read x one further op with every target
FAIL_LINES = [[["p"], ["h::c"], 0], [["u", "v"], ["f::a", "g::b"], 0], [["w"], [], 0]]
FAIL_PRE = [[], [["reverse", 0]], [["copy", 0]], [["insert", 0, "nn", ["g::b", "k::a"]]]]
FAIL_DESC = ("histories [none | reverse | copy | insert] + a read() that fails (into member 0 / into a new DB) "
             "because its input raises after 0 / 2 lines (iterator; real file with a byte that is not UTF-8) or its "
             "tag_filter raises on its 1st / 3rd call (iterator, real file) + one op of the 19-op alphabet "
             "with target index 0..2, snake_case and deprecated aliases")


def fail_cases():
    for mark in ("", OLD):
        for pre in FAIL_PRE:
            for tgt in (0, None):
                for how, form in (("input", "iter"), ("input", "file"), ("filter", "iter"), ("filter", "file")):
                    for k in (0, 2):
                        head = [[mark + o[0]] + o[1:] for o in pre] + [
                            [mark + "failread", tgt, FAIL_LINES, None, form, k, how]]
                        yield {"kind": "history", "init": ENUM_INIT, "filter": None, "ops": head}
                        for o in ENUM_OPS_IO:
                            for i in range(3):
                                yield {"kind": "history", "init": ENUM_INIT, "filter": None,
                                       "ops": head + [[mark + o[0], i] + o[1:]]}


# every derivation asked twice of the same object, its data changed in between through another route
ALL, NONE, ALL_BUT = {"keep": "all"}, {"keep": "none"}, {"keep": "all-but", "j": 0}
SELS = [ALL, NONE, ALL_BUT, {"keep": "all-but", "j": -1}]
REPEAT_DERIVS = ([["reverse"], ["reverse_copy"], ["copy"], ["facet"]]
                 + [[op, sel] for op in ("choose", "choose_copy", "filter_packages", "filter_packages_copy",
                                         "filter_tags", "filter_tags_copy") for sel in SELS]
                 + [[op, a, b] for op in ("filter_packages_tags", "filter_packages_tags_copy")
                    for a, b in ((ALL, []), ([], ALL), ([], []), (ALL_BUT, []))])
OTHER_LINES = [[["p"], ["k::n"], 0], [["u", "q"], ["f::a", "m::x"], 0], [["w"], [], 0]]
# the object asked is member 0, the first answer member 1, what a route creates member 2
REPEAT_ROUTES = [
    ("nothing", []),
    ("insert", [["insert", 0, "n", ["f::a", "k::n"]]]),
    ("insert into the first answer", [["insert", 1, "n", ["f::a", "k::n"]]]),
    ("insert into the first answer, roles swapped", [["insert", 1, "k::n", ["p", "n"]]]),
    ("reverse() view: a known package under a new tag", [["reverse", 0], ["insert", 2, "k::n", ["p"]]]),
    ("reverse() view: a new package, too", [["reverse", 0], ["insert", 2, "k::n", ["p", "z"]]]),
    ("filter_tags view keeping every tag: insert", [["filter_tags", 0, ALL], ["insert", 2, "n", ["f::a", "k::n"]]]),
    ("filter_packages view keeping every package: insert",
     [["filter_packages", 0, ALL], ["insert", 2, "n", ["f::a", "k::n"]]]),
    ("qread() of another collection", [["read", OTHER_LINES, None, "iter"], ["qio", 0, [-1], "into"]]),
    ("read() of another collection", [["reread", 0, OTHER_LINES, None, "list"]]),
    ("read() that fails", [["failread", 0, OTHER_LINES, None, "iter", 2, "input"]]),
]
REPEAT_AFTER = [[], [["insert", -1, "m", ["g::b"]]], [["insert", 0, "m", ["g::b"]]]]
REPEAT_DESC = ("%d derivations (reverse, reverse_copy, copy, facet_collection; each choice / filter keeping every "
               "key, none, all but the first, all but the last of what the database holds when asked) asked of "
               "one database, then one of %d routes to its data [%s], then the same derivation of the same "
               "database again - 4 spellings (snake_case / deprecated alias for the first and the second "
               "call) - then nothing / an insert into the second answer / an insert into the database" % (
                   len(REPEAT_DERIVS), len(REPEAT_ROUTES), "; ".join(r[0] for r in REPEAT_ROUTES)))


def repeat_cases():
    for d in REPEAT_DERIVS:
        for _, route in REPEAT_ROUTES:
            for m1, m2 in (("", ""), (OLD, ""), ("", OLD), (OLD, OLD)):
                for after in REPEAT_AFTER:
                    yield {"kind": "history", "init": ENUM_INIT, "filter": None,
                           "ops": [[m1 + d[0], 0] + d[1:]] + [list(o) for o in route]
                           + [[m2 + d[0], 0] + d[1:]] + [list(o) for o in after]}


# choices and filters that keep everything / nothing / all but one, then every op sequence of length 1..2
KEEP_DERIVS = [d for d in REPEAT_DERIVS if len(d) > 1]
KEEP_OPS = [["insert", "n", ["f::a"]], ["insert", "nn", ["g::b", "k::a"]], ["insert", "f::n", ["p"]],
            ["insert", "k::n", ["s", "z"]], ["reverse"], ["copy"], ["facet"], ["filter_tags", ALL],
            ["filter_packages", ALL]]
KEEP_DESC = ("%d choices / filters (all 8 methods; keeping every key, none, all but the first, all but the last) "
             "of the fixed collection, then every op sequence of length 1..2 over %d ops (4 inserts, reverse, copy, "
             "facet_collection, filter_tags and filter_packages keeping everything) x target index 0..position+1, "
             "both spellings; every live database is looked at after every step" % (len(KEEP_DERIVS), len(KEEP_OPS)))


def keep_cases():
    for mark in ("", OLD):
        for d in KEEP_DERIVS:
            head = [[mark + d[0], 0] + d[1:]]
            for o1 in KEEP_OPS:
                for i in range(2):
                    one = head + [[mark + o1[0], i] + o1[1:]]
                    yield {"kind": "history", "init": ENUM_INIT, "filter": None, "ops": one}
                    for o2 in KEEP_OPS:
                        for j in range(3):
                            yield {"kind": "history", "init": ENUM_INIT, "filter": None,
                                   "ops": one + [[mark + o2[0], j] + o2[1:]]}


# degenerate collections as the starting point of every derivation and of every sharing-view history:
# one index (or both) empty, or as small as an index can be
UNTAGGED = [[["p"], [], 0], [["q"], [], 1], [["s", "t"], [], 2], [["rr"], [], 3]]
# (what, init, tag_filter, ops that lead to the degenerate collection - it is then the LAST pool member)
DEGEN_STARTS = [
    ("no package at all (empty text)", [], None, []),
    ("a blank line only", [[[], [], 0]], None, []),
    ("five packages, no tag at all (lines without tags in the four styles)", UNTAGGED, None, []),
    ("one package without tags", [[["p"], [], 0]], None, []),
    ("one package, one tag", [[["p"], ["f::a"], 0]], None, []),
    ("the fixed collection read with a tag_filter that rejects every tag", ENUM_INIT, [], []),
    ("filter_packages_tags_copy keeping the untagged package only", ENUM_INIT, None,
     [["filter_packages_tags_copy", 0, ["rr"], []]]),
    ("filter_packages_tags keeping the untagged package only", ENUM_INIT, None,
     [["filter_packages_tags", 0, ["rr"], []]]),
    ("choose_packages of the untagged package", ENUM_INIT, None, [["choose", 0, ["rr"]]]),
    ("filter_packages keeping nothing", ENUM_INIT, None, [["filter_packages", 0, NONE]]),
    ("choose_packages_copy of no name", ENUM_INIT, None, [["choose_copy", 0, NONE]]),
    ("filter_tags keeping nothing", ENUM_INIT, None, [["filter_tags", 0, NONE]]),
    ("filter_tags_copy keeping nothing", ENUM_INIT, None, [["filter_tags_copy", 0, NONE]]),
    ("filter_tags_copy of the collection without tags", UNTAGGED, None, [["filter_tags_copy", 0, ALL]]),
]
DEGEN_INSERTS = [["insert", "z", ["p"]],          # in a reverse() view of a collection with package p: p gains the item z
                 ["insert", "n", ["f::a"]],       # one-character name (M and M' agree), a tag that may be new
                 ["insert", "m", []],             # a package without tags
                 ["insert", "k::n", ["p", "q"]],  # through a reverse() view: two packages gain a tag
                 ["insert", "nn", ["g::b", "h::c"]]]
DEGEN_FIRST = [["reverse"], ["copy"], ["filter_packages", ALL], ["filter_tags", ALL]]
DEGEN_OPS = DEGEN_FIRST + [["reverse_copy"], ["facet"], ["choose", ALL], ["filter_packages_tags_copy", ALL, []],
                           ["qio", [], "fresh"]] + DEGEN_INSERTS
DEGEN_DESC = ("%d degenerate starting points [%s] x every op sequence of length 1..2 over %d ops (reverse, copy, "
              "filter_packages / filter_tags / choose_packages keeping everything, reverse_copy, facet_collection, "
              "filter_packages_tags_copy, a pickle round trip, 5 inserts: a new item under an existing package through "
              "a reverse() view, a one-character name under a new tag, a package without tags, two packages gaining a "
              "tag, a multi-character name) x both spellings, and every sequence [reverse | copy | filter_packages | "
              "filter_tags] + any of the %d ops + one of the first 3 inserts (snake_case); targets: the degenerate "
              "collection and everything derived from it, and the collection it was filtered from; every live database "
              "is looked at after every step" % (len(DEGEN_STARTS), "; ".join(s[0] for s in DEGEN_STARTS),
                                                 len(DEGEN_OPS), len(DEGEN_OPS)))


def degen_cases():
    def case(init, flt, ops):
        return {"kind": "history", "init": init, "filter": flt, "ops": [list(o) for o in ops]}
    for _, init, flt, head in DEGEN_STARTS:
        h = len(head)
        targets = lambda pos: ([0] if h else []) + list(range(h, h + pos + 1))   # noqa: E731
        for mark in ("", OLD):
            pre = [[mark + o[0]] + o[1:] for o in head]
            for o1 in DEGEN_OPS:
                for i in targets(0):
                    one = pre + [[mark + o1[0], i] + o1[1:]]
                    yield case(init, flt, one)
                    for o2 in DEGEN_OPS:
                        for j in targets(1):
                            yield case(init, flt, one + [[mark + o2[0], j] + o2[1:]])
        for o1 in DEGEN_FIRST:
            for o2 in DEGEN_OPS:
                for j in targets(1):
                    for o3 in DEGEN_INSERTS[:3]:
                        for k in targets(2):
                            yield case(init, flt, head + [[o1[0], h] + o1[1:], [o2[0], j] + o2[1:],
                                                          [o3[0], k] + o3[1:]])


# the same names handed over in every form an Iterable[str] can take, in three orders
FORM_PRE = [([], 0), ([["reverse", 0]], 0), ([["reverse", 0]], 1),
            ([["insert", 0, "a", ["f::a", "k::n"]]], 0), ([["filter_packages", 0, ALL_BUT]], 1)]
FORM_SELS = [ALL, ALL_BUT, ["p", "s", "zz", "f::a", "h::c", "a"], []]
FORM_NAMES = [["f::a", "p", "zz", "g::b", "s"], ["q", "h::c"]]
FORM_DESC = ("choose_packages / choose_packages_copy of [the fixed collection | its reverse() view | the collection "
             "with a reverse() view alive | after an insert | a filter_packages view] with [every key | all but the "
             "first | six names, some absent | no name] handed over as each of %d forms (%s) in 3 orders (sorted, "
             "backwards, rotated by one) x both spellings x [nothing | insert into the answer | insert into the "
             "database asked]; the multi-name queries of the same five databases with 2 name lists in each form, both "
             "spellings" % (len(ARG_FORMS), ", ".join(ARG_FORMS)))


def form_cases():
    for mark in ("", OLD):
        for pre, tgt in FORM_PRE:
            head = [[mark + o[0]] + o[1:] for o in pre]
            for kind in ARG_FORMS:
                for names in FORM_NAMES:
                    yield {"kind": "history", "init": ENUM_INIT, "filter": None,
                           "ops": head + [[mark + "mquery", tgt, names, kind]]}
                for op in ("choose", "choose_copy"):
                    for sel in FORM_SELS:
                        for r in (0, -1, 1):
                            for after in REPEAT_AFTER:
                                yield {"kind": "history", "init": ENUM_INIT, "filter": None,
                                       "ops": head + [[mark + op, tgt, sel, [kind, r]]] + [list(o) for o in after]}


# package names of every shape the text format can carry, in every position of a line
NAME_SHAPES = [
    "libc6:amd64", "x:y:z", "a::b", "role::program", ":a", "::a", "a:::b", "1:2", "a:b::c:d",
    "python3.11", "1.2.3", ".", "..", ".a", "a.", "c++", "+", "libstdc++6", "g++-12.1:i386",
    "0", "7", "42", "007", "20260927", "a-b_c~d", "\u00e9:\u00fc.\u00df+1",
    "n" * 300, "lib" + "x" * 300 + ":amd64", ".".join(["1"] * 150),
    {"long": ["lib", "x", 5000, ":amd64"]}, {"long": ["", "ab:", 25000, "z"]},
    {"long": ["", "9", 70000, ""]}, {"long": ["v", ".0", 40000, "+b1"]},
]
NAME_TAGGED = [["f::a", "g::b"], ["f::a"]]
NAME_TAIL = [["choose_copy", 0, ALL], ["insert", 1, "n", ["f::a"]], ["reverse", 0], ["mquery", 0, ["f::a", "p"]]]
NAME_DESC = ("read() of a two-line text [p: f::a | one line holding a package name N] for %d names N - with one "
             "colon, several, '::', a leading colon, equal to a tag text, dots, plus signs, digits only, non-ASCII, "
             "of 300, 5000, 70000, 75000 and 80000 characters (plain, with a colon close to the end, with a colon in "
             "every third place) - x the line [N | N, q | p2, N | p2, N, q | N, N' (the next name of the list)] x "
             "[two tags, style 0 / one tag, padded style | no tag: nothing, ':', ': ', ':<tab>' after the names] x "
             "input form (iterator, list, io.StringIO, real file) x last line with / without newline, followed by "
             "choose_packages_copy of everything, an insert into the copy, reverse() and the multi-name queries" % (
                 len(NAME_SHAPES)))


def name_cases():
    for i, n in enumerate(NAME_SHAPES):
        nxt = NAME_SHAPES[(i + 1) % len(NAME_SHAPES)]
        for pkgs in ([n], [n, "q"], ["p2", n], ["p2", n, "q"], [n, nxt]):
            for tags, style in ((NAME_TAGGED[0], 0), (NAME_TAGGED[1], 3), ([], 0), ([], 1), ([], 2), ([], 3)):
                for form in FORMS:
                    for final_newline in (True, False):
                        yield {"kind": "history", "init": [[["p"], ["f::a"], 0], [list(pkgs), list(tags), style]],
                               "form": form, "final_newline": final_newline, "filter": None,
                               "ops": [list(o) for o in NAME_TAIL]}


# read() of long texts: (characters, block size) x offset of the aligned newlines x input form x
# last line with/without newline; each followed by a copy-derivation and an insert
BIG_SHAPES = [(3000, 512), (70000, 4096), (140000, 65536)]
BIG_TAIL = [["filter_tags_copy", 0, HOT], ["insert", 1, "n", ["f::a"]]]


LONG_DESC = ("read() of generated texts of 3000 / 70000 / 140000 characters in which the newline of a line is "
             "character k*B+d for every k (B = 512 / 4096 / 65536) x d in -1, 0, +1 x input form (iterator of "
             "lines, list, io.StringIO, real text file) x last line with / without newline, each followed by filter_tags_copy and an insert into the copy; "
             "24 read()s of the same three sizes (d = 0) that fail in front of their last line (input raises: iterator / "
             "undecodable byte in a real file) or on the last tag but one (tag_filter raises), into a database that holds a "
             "collection / a new one, followed by insert, copy, insert, a good read()")


BIG_FAIL_TAIL = [["insert", 0, "n", ["f::a"]], ["copy", 0], ["insert", 0, "nn", ["g::b"]],
                 ["reread", 0, FAIL_LINES, None, "iter"]]


def big_cases():
    # a long read() that fails close to its end (in front of the last line / on the last tag but one), then normal use
    for chars, block in BIG_SHAPES:
        for how in HOWS:
            for form in ("iter", "file"):
                for tgt in (0, None):
                    yield {"kind": "history", "init": ENUM_INIT, "filter": None,
                           "ops": [["failread", tgt, {"big": {"chars": chars, "block": block, "off": 0}},
                                    None, form, -2, how]] + [list(o) for o in BIG_FAIL_TAIL]}
    for chars, block in BIG_SHAPES:
        for off in (-1, 0, 1):
            for form in FORMS:
                for final_newline in (True, False):
                    yield {"kind": "history", "init": {"big": {"chars": chars, "block": block, "off": off}},
                           "form": form, "final_newline": final_newline, "filter": None,
                           "ops": [list(o) for o in BIG_TAIL]}


# ------------------------------------------------------------------------------------------
# Hypothesis generators
#
# All strategies are static (built once); package names are drawn as references into a per-case
# list of distinct names ("@j" any name, "+j" a name not used by the initial collection) and
# resolved after drawing, so the case that reaches the oracle holds plain strings only.


ONE = list("abcdepqxyz019é")
MULTI = "abpx1-é"
EXTRA_TAGS = ["f::n", "g::n", "k::a", "role::n::m", "w::i:r"]
name1 = st.sampled_from(ONE)
nameN = st.text(alphabet=st.sampled_from(MULTI), min_size=2, max_size=6)
# names over everything a line can carry (NAME_OK): colons - not in the last place -, dots, plus signs, digits
WIDE = "ab1:.+:0"
WIDE_FIXED = ["libc6:amd64", "libc6:i386", "x:y:z", "a::b", ":a", "1.2", "c++", "42", "0", ".", "+", "f::a", "g::a"]
nameW = st.one_of(st.text(alphabet=st.sampled_from(WIDE), min_size=1, max_size=8).map(
    lambda s: s + "x" if s.endswith(":") else s), st.sampled_from(WIDE_FIXED))
NAMES = {"single": st.lists(name1, unique=True, min_size=3, max_size=14),
         "multi": st.lists(nameN, unique=True, min_size=3, max_size=14),
         "mixed": st.lists(st.one_of(name1, nameN), unique=True, min_size=3, max_size=14),
         "wide": st.lists(st.one_of(nameW, nameW, nameW, name1, nameN), unique=True, min_size=3, max_size=14)}
IDX = st.integers(0, 7)
ANY = st.integers(0, 13).map(lambda j: "@%d" % j)
FRESH = st.integers(0, 9).map(lambda j: "+%d" % j)


def subset(pool, max_size, min_size=0):
    return st.lists(st.sampled_from(pool), unique=True, min_size=min_size, max_size=max_size)


line_tags = st.one_of(st.just([]), subset(HOT, 3, 1), subset(HOT, 3, 1), subset(HOT, 2, 1),
                      subset(TAGS, 4), subset(TAGS, 4, 1), subset(TAGS, 4, 1),
                      subset(TAGS[:6] + ODD_TAGS + ["w::i:r"], 3, 1))
tag_filter = st.one_of(st.none(), st.none(), st.none(), st.none(), subset(TAGS, 7), subset(HOT, 3, 1),
                       st.just([]))              # the last one rejects every tag
# a fifth of the histories start from a degenerate collection: no package at all, packages but no
# tag at all (one index empty), a single line
init_lines = st.one_of(*[st.lists(st.tuples(st.sampled_from([1, 1, 1, 1, 2, 3]), line_tags, st.integers(0, 3)),
                                  max_size=8)] * 12
                       + [st.just([]),
                          st.lists(st.tuples(st.sampled_from([1, 1, 2, 3]), st.just([]), st.integers(0, 3)),
                                   min_size=1, max_size=5),
                          st.lists(st.tuples(st.sampled_from([1, 1, 2]), line_tags, st.integers(0, 3)),
                                   min_size=1, max_size=1)])
read_lines = st.lists(st.tuples(st.lists(ANY, min_size=1, max_size=3), line_tags, st.integers(0, 3)),
                      max_size=5)
ins_pkg = st.one_of(FRESH, FRESH, FRESH, FRESH, name1, nameN, st.sampled_from(EXTRA_TAGS + TAGS[:3]))
ins_tags = st.one_of(subset(HOT, 2, 1), subset(HOT, 2, 1), subset(HOT, 3, 1),
                     subset(TAGS + EXTRA_TAGS, 3), subset(TAGS + EXTRA_TAGS, 3, 1),
                     subset(HOT + ODD_TAGS, 2, 1),
                     st.lists(st.one_of(ANY, ANY, st.sampled_from(HOT)), min_size=1, max_size=2),
                     st.just([]))
# relative to what the target holds when the operation runs: every key / all but one / none (Interp.selection)
keepsel = st.one_of(st.just({"keep": "all"}), st.just({"keep": "all"}), st.just({"keep": "none"}),
                    st.builds(lambda j: {"keep": "all-but", "j": j}, st.integers(0, 7)))
psel = st.one_of(st.lists(ANY, max_size=8), st.lists(ANY, min_size=1, max_size=4),
                 st.lists(st.one_of(ANY, st.sampled_from(TAGS)), max_size=8), subset(TAGS, 5), keepsel)
tsel = st.one_of(subset(TAGS, 6), subset(HOT, 3, 1), subset(TAGS, 8, 2),
                 st.lists(st.one_of(ANY, st.sampled_from(TAGS)), max_size=8), keepsel)
op_insert = st.tuples(st.just("insert"), IDX, ins_pkg, ins_tags)
op_d0 = st.tuples(st.sampled_from(["reverse", "reverse_copy", "copy"]), IDX)
op_facet = st.tuples(st.just("facet"), IDX)
# how choose_packages(_copy) get their names: the form and the order (see Interp.handing)
argf = st.tuples(st.sampled_from(ARG_FORMS), st.integers(-3, 3))
op_d1 = st.tuples(st.sampled_from(["choose", "choose_copy", "choose", "choose_copy",
                                   "filter_packages", "filter_packages_copy"]), IDX, psel, argf)
op_d2 = st.tuples(st.sampled_from(["filter_packages_tags", "filter_packages_tags_copy"]), IDX,
                  st.one_of(st.lists(st.one_of(ANY, st.sampled_from(TAGS)), max_size=3), keepsel), tsel)
op_d3 = st.tuples(st.sampled_from(["filter_tags", "filter_tags_copy"]), IDX, tsel)
form = st.sampled_from(FORMS)
op_read = st.tuples(st.just("read"), read_lines, tag_filter, form)
op_reread = st.tuples(st.just("reread"), IDX, read_lines, tag_filter, form)
op_failread = st.tuples(st.just("failread"), st.one_of(IDX, IDX, IDX, st.none()), read_lines, tag_filter,
                        form, st.integers(0, 7), st.sampled_from(HOWS))
op_mquery = st.tuples(st.just("mquery"), IDX,
                      st.lists(st.one_of(ANY, ANY, st.sampled_from(HOT), st.sampled_from(TAGS + EXTRA_TAGS)),
                               min_size=1, max_size=4), st.sampled_from(ARG_FORMS))
op_qio = st.tuples(st.just("qio"), IDX, st.lists(IDX, max_size=2),
                   st.sampled_from(["fresh", "fresh", "reuse", "into"]))
any_op = st.one_of(op_insert, op_insert, op_insert, op_insert, op_insert, op_insert, op_insert,
                   op_d0, op_d0, op_d0, op_d0, op_facet, op_d1, op_d1, op_d2, op_d3, op_d3, op_read, op_reread,
                   op_failread, op_failread, op_mquery, op_mquery, op_qio)
spelt_op = st.tuples(st.sampled_from(["", "", OLD]), any_op)    # a third of the steps: deprecated aliases


def resolve_case(mode, names, init, flt, ops, form="iter", final_newline=True):
    """Turn the drawn references into strings (see the comment at the top of this section)."""
    k = 0
    lines = []
    for cnt, tags, style in init:
        if k >= len(names):
            break
        lines.append([names[k:k + cnt], sorted(tags), style])
        k += len(lines[-1][0])

    def ref(x):
        if x[:1] == "@" and x[1:].isdigit():
            return names[int(x[1:]) % len(names)]
        if x[:1] == "+" and x[1:].isdigit():
            j = k + int(x[1:])
            if j < len(names):
                return names[j]
            unused = [c for c in ONE if c not in names]
            if mode == "single" or (mode == "mixed" and j % 2):
                return unused[j % len(unused)] if unused else names[j % len(names)]
            return "%s%d" % (MULTI[j % 4], j)
        return x

    def refs(xs):
        if isinstance(xs, dict):             # {"keep": ...}: resolved by the interpreter
            return dict(xs)
        out = []
        for x in xs:
            x = ref(x)
            if x not in out:
                out.append(x)
        return sorted(out)

    out = []
    for mark, op in ops:
        op = list(op)
        if op[0] == "insert":
            pkg = ref(op[2])
            if mode == "single" and len(pkg) > 1:
                pkg = ONE[sum(map(ord, pkg)) % len(ONE)]
            op = ["insert", op[1], pkg, refs(op[3])]
        elif op[0] == "read":
            seen, rl = set(), []
            for pk, tags, style in op[1]:
                pk = [p for p in refs(pk) if p not in seen]
                seen.update(pk)
                rl.append([pk, sorted(tags), style])
            op = ["read", rl, None if op[2] is None else sorted(op[2]), op[3]]
        elif op[0] in ("reread", "failread"):
            seen, rl = set(), []
            for pk, tags, style in op[2]:
                pk = [p for p in refs(pk) if p not in seen]
                seen.update(pk)
                rl.append([pk, sorted(tags), style])
            op = [op[0], op[1], rl, None if op[3] is None else sorted(op[3])] + list(op[4:])
        elif op[0] == "mquery":
            names_ = []
            for x in op[2]:                  # the order of the names is part of the case
                x = ref(x)
                if x not in names_:
                    names_.append(x)
            op = ["mquery", op[1], names_] + list(op[3:4])
        elif op[0] == "qio":
            op = ["qio", op[1], list(op[2]), op[3]]
        elif op[0] in ("choose", "choose_copy"):
            op = [op[0], op[1], refs(op[2])] + [list(f) for f in op[3:4]]
        elif op[0] in ("filter_packages", "filter_packages_copy"):
            op = [op[0], op[1], refs(op[2])]
        elif len(op) == 3:
            op = [op[0], op[1], refs(op[2])]
        elif len(op) == 4:
            op = [op[0], op[1], refs(op[2]), refs(op[3])]
        op[0] = mark + op[0]
        out.append(op)
    return {"kind": "history", "init": lines, "form": form, "final_newline": final_newline,
            "filter": None if flt is None else sorted(flt), "ops": out}


def gen_case(max_ops=12):
    ops = st.one_of(st.lists(spelt_op, min_size=1, max_size=4),
                    st.lists(spelt_op, min_size=5, max_size=max_ops),
                    st.lists(spelt_op, min_size=max_ops // 2 + 2, max_size=max_ops))
    return st.sampled_from(["mixed", "mixed", "single", "multi", "wide"]).flatmap(
        lambda mode: st.builds(resolve_case, st.just(mode), NAMES[mode], init_lines, tag_filter, ops, form,
                                  st.sampled_from([True, True, False])))


# ------------------------------------------------------------------------------------------
# RuleBasedStateMachine (thorough): rules = operations, Bundle of databases, same interpreter


def fails_with(case, sig):
    try:
        check(case)
    except Violation as v:
        return v.sig == sig
    return False


def minimise(case, sig):
    """Greedy reduction of a failing trace through the plain oracle (rule-based shrinking cannot
    drop a rule that created a Bundle value other rules refer to; an op list can)."""
    if not fails_with(case, sig):
        return case
    best = case
    progress = True
    while progress:
        progress = False
        for key in ("ops", "init"):
            i = len(best[key]) - 1
            while i >= 0:
                cand = dict(best, **{key: best[key][:i] + best[key][i + 1:]})
                if fails_with(cand, sig):
                    best, progress = cand, True
                i -= 1
        for i, op in enumerate(best["ops"]):
            if len(op) > 1 and isinstance(op[1], int) and op[1] > 0:
                for j in range(op[1]):
                    cand = dict(best, ops=best["ops"][:i] + [[op[0], j] + op[2:]] + best["ops"][i + 1:])
                    if fails_with(cand, sig):
                        best, progress = cand, True
                        break
    return best


MACHINE_POOL_NAMES = ONE + ["ab", "pa", "xx", "b-1", "apé", "1x", "abp", "p-p", "x1a", "bb",
                            "a:b", "x:y:z", "a::b", ":a", "1.2", "c++", "42"]


def machine_phase(shard, nshards, seed, deadline, rec):
    import hypothesis
    from hypothesis import settings, HealthCheck, Phase, Verbosity
    from hypothesis.stateful import (RuleBasedStateMachine, Bundle, rule, initialize, multiple,
                                     run_state_machine_as_test)

    runs = 400
    state = {"excluded": set(), "fail": None}
    mname = st.sampled_from(MACHINE_POOL_NAMES)
    universe = sorted(set(MACHINE_POOL_NAMES) | set(TAGS))
    m_tags = st.one_of(subset(HOT, 2, 1), subset(HOT, 3, 1), subset(TAGS + EXTRA_TAGS, 3),
                       st.lists(st.one_of(mname, st.sampled_from(HOT)), unique=True, min_size=1,
                                max_size=2), st.just([])).map(sorted)
    m_psel = st.one_of(subset(MACHINE_POOL_NAMES, 8).map(sorted), subset(universe, 8).map(sorted),
                       subset(TAGS, 5).map(sorted), keepsel)
    m_tsel = st.one_of(subset(TAGS, 6).map(sorted), subset(HOT, 3, 1).map(sorted),
                       subset(universe, 8).map(sorted), keepsel)
    m_filter = st.one_of(st.none(), st.none(), st.none(), subset(TAGS, 7).map(sorted), st.just([]))
    m_old = st.sampled_from([False, False, True])
    def distinct(lines):
        seen, out = set(), []
        for pk, tags, style in lines:
            pk = [p for p in sorted(set(pk)) if p not in seen]
            seen.update(pk)
            out.append([pk, sorted(tags), style])
        return out
    m_lines = st.one_of(*[st.lists(st.tuples(st.lists(mname, min_size=1, max_size=3), line_tags,
                                             st.integers(0, 3)), max_size=8)] * 6
                        + [st.lists(st.tuples(st.lists(mname, min_size=1, max_size=3), st.just([]),
                                              st.integers(0, 3)), max_size=4)]).map(distinct)   # no tag at all

    class Machine(RuleBasedStateMachine):
        dbs = Bundle("dbs")

        def __init__(self):
            RuleBasedStateMachine.__init__(self)
            self.it = None
            self.case = None
            self.stopped = False

        def guard(self, fn):
            """Run one interpreter step; a Violation whose signature was already reported in this
            shard ends the history quietly (so that the next root cause can surface)."""
            if self.stopped or rec.budget_exhausted or rec.expired():
                self.stopped = True
                return None
            try:
                with quiet():
                    return fn()
            except Violation as v:
                self.stopped = True
                if v.sig in state["excluded"]:
                    rec.excluded_hits += 1
                    return None
                state["fail"] = (v, dict(self.case, ops=list(self.case["ops"])))
                raise

        def index_of(self, entry):
            lv = self.it.live()
            return lv.index(entry) if entry in lv else entry.id

        def apply(self, op_tail_builder, entry, old=False):
            if self.it is None or self.stopped:
                return multiple()
            op = op_tail_builder(self.index_of(entry) if entry is not None else None)
            if old:
                op[0] = OLD + op[0]
            self.case["ops"].append(op)
            res = self.guard(lambda: self.it.step(op))
            if isinstance(res, list):
                return multiple(*[r for r in res if isinstance(r, Entry)])
            return res if isinstance(res, Entry) else multiple()

        @initialize(target=dbs, lines=m_lines, flt=m_filter, how=form)
        def start(self, lines, flt, how):
            self.case = {"kind": "history", "init": lines, "form": how, "filter": flt, "ops": []}
            self.it = Interp()
            res = self.guard(lambda: self.it.do_read(lines, flt, form=how))
            return res if isinstance(res, Entry) else multiple()

        @rule(target=dbs, lines=m_lines, flt=m_filter, how=form)
        def read_new(self, lines, flt, how):
            return self.apply(lambda i: ["read", lines, flt, how], None)

        @rule(target=dbs, lines=m_lines, flt=m_filter, how=form, k=st.integers(0, 7),
              why=st.sampled_from(HOWS), old=m_old)
        def failed_read_new(self, lines, flt, how, k, why, old):
            return self.apply(lambda i: ["failread", None, lines, flt, how, k, why], None, old)

        @rule(e=dbs, lines=m_lines, flt=m_filter, how=form, k=st.integers(0, 7),
              why=st.sampled_from(HOWS), old=m_old)
        def failed_read_into(self, e, lines, flt, how, k, why, old):
            self.apply(lambda i: ["failread", i, lines, flt, how, k, why], e, old)

        @rule(e=dbs, lines=m_lines, flt=m_filter, how=form, old=m_old)
        def read_into(self, e, lines, flt, how, old):
            self.apply(lambda i: ["reread", i, lines, flt, how], e, old)

        @rule(e=dbs, pkg=st.one_of(mname, mname, st.sampled_from(EXTRA_TAGS)), tags=m_tags)
        def insert(self, e, pkg, tags):
            self.apply(lambda i: ["insert", i, pkg, tags], e)

        @rule(e=dbs, pkg=st.one_of(mname, mname, st.sampled_from(EXTRA_TAGS)), tags=m_tags, old=m_old)
        def insert_again(self, e, pkg, tags, old):
            self.apply(lambda i: ["insert", i, pkg, tags], e, old)

        @rule(target=dbs, e=dbs, op=st.sampled_from(["reverse", "reverse_copy", "copy", "facet"]), old=m_old)
        def derive(self, e, op, old):
            return self.apply(lambda i: [op, i], e, old)

        @rule(target=dbs, e=dbs, sel=m_psel, old=m_old, how=argf,
              op=st.sampled_from(["choose", "choose_copy", "choose", "choose_copy",
                                  "filter_packages", "filter_packages_copy"]))
        def select_packages(self, e, op, sel, old, how):
            return self.apply(lambda i: [op, i, sel] + ([list(how)] if op.startswith("choose") else []), e, old)

        @rule(target=dbs, e=dbs, sel=st.one_of(subset(universe, 4).map(sorted), keepsel), tsel=m_tsel,
              old=m_old,
              op=st.sampled_from(["filter_packages_tags", "filter_packages_tags_copy"]))
        def select_packages_tags(self, e, op, sel, tsel, old):
            return self.apply(lambda i: [op, i, sel, tsel], e, old)

        @rule(target=dbs, e=dbs, tsel=m_tsel, op=st.sampled_from(["filter_tags", "filter_tags_copy"]),
              old=m_old)
        def select_tags(self, e, op, tsel, old):
            return self.apply(lambda i: [op, i, tsel], e, old)

        @rule(e=dbs, names=st.lists(st.sampled_from(universe), unique=True, min_size=1, max_size=4),
              old=m_old, how=st.sampled_from(ARG_FORMS))
        def multi_name_queries(self, e, names, old, how):
            self.apply(lambda i: ["mquery", i, names, how], e, old)

        @rule(target=dbs, e=dbs, extras=st.lists(st.integers(0, 7), max_size=2),
              mode=st.sampled_from(["fresh", "fresh", "reuse", "into"]))
        def pickle_round_trip(self, e, extras, mode):
            return self.apply(lambda i: ["qio", i, extras, mode], e)

        def teardown(self):
            if self.it is not None and not self.stopped and self.case["ops"]:
                rec.ok(self.case, self.it.result())

    phases = [Phase.generate] if os.environ.get("VERIF_NO_SHRINK") else [Phase.generate, Phase.shrink]
    cfg = settings(max_examples=runs, stateful_step_count=16, database=None, deadline=None,
                   derandomize=False, report_multiple_bugs=False, phases=phases, print_blob=False,
                   verbosity=Verbosity.quiet,
                   suppress_health_check=[HealthCheck.too_slow, HealthCheck.data_too_large,
                                          HealthCheck.large_base_example, HealthCheck.filter_too_much])
    for _ in range(4):
        state["fail"] = None
        try:
            run_state_machine_as_test(hypothesis.seed(seed)(Machine), settings=cfg)
        except Violation:
            v, case = state["fail"]
            # the saved trace is an ordinary history: it must fail the plain oracle the same way
            case = minimise(case, v.sig)
            ok = rec.case(case)
            if ok or v.sig not in rec.failures:
                raise RuntimeError("state-machine trace does not replay as %s: %s" % (v.sig, short(case)))
            rec.note("machine_failures")
            state["excluded"].add(v.sig)
            continue
        break
    rec.note("machine_runs:state-machine", rec.evals)


def sources(tier):
    if tier == "quick":
        return [Enum("op-alphabet<=3", enum_cases(3, ENUM_OPS_IO, ("", OLD)), EXHAUSTIVE["quick"]),
                Enum("long-texts", big_cases, LONG_DESC),
                Enum("failed-reads", fail_cases, FAIL_DESC),
                Enum("odd-tags<=2", enum_cases(2, ODD_OPS, ("", OLD), ODD_INIT), ODD_DESC),
                Enum("repeated-derivations", repeat_cases, REPEAT_DESC),
                Enum("keep-all-none-all-but-one", keep_cases, KEEP_DESC),
                Enum("argument-forms", form_cases, FORM_DESC),
                Enum("name-shapes", name_cases, NAME_DESC),
                Enum("degenerate-starts", degen_cases, DEGEN_DESC),
                Hyp("pool-histories", gen_case(12), 400, shards=8)]
    return [Enum("op-alphabet<=3", enum_cases(3, ENUM_OPS_IO, ("", OLD)), EXHAUSTIVE["quick"]),
            Enum("long-texts", big_cases, LONG_DESC),
            Enum("failed-reads", fail_cases, FAIL_DESC),
            Enum("odd-tags<=2", enum_cases(2, ODD_OPS, ("", OLD), ODD_INIT), ODD_DESC),
            Enum("repeated-derivations", repeat_cases, REPEAT_DESC),
            Enum("keep-all-none-all-but-one", keep_cases, KEEP_DESC),
            Enum("argument-forms", form_cases, FORM_DESC),
            Enum("name-shapes", name_cases, NAME_DESC),
            Enum("degenerate-starts", degen_cases, DEGEN_DESC),
            Enum("op-alphabet17<=4", enum_cases(4, ENUM_OPS), EXHAUSTIVE["thorough"]),
            Hyp("pool-histories", gen_case(20), 5000, shards=16),
            Custom("state-machine", machine_phase, shards=8)]
