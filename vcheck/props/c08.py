"""C08 - an accepted field value can never inject fields or split the paragraph.

case = {"fields": [[name, [first, [cont, ...]]], ...],   the paragraph before the assignment
        "key":    str,                                   field assigned to (existing name, the same
                                                         name in another letter case, or a new name)
        "value":  str,                                   the value tried
        "origin": str,                                   how the paragraph object was obtained (ORIGINS)
        "cls":    str,                                   class of the paragraph (CLASSES; default Deb822)
        "route":  str}                                   how the value is assigned (ROUTES; default d[k] = v)

The paragraph - a ``Deb822`` or one of its documented subclasses (Dsc, Changes, Sources, BuildInfo,
Release, PdiffIndex, Packages, Removals) - is built by assignment (neighbour values come from the
C02 domain: valid by construction).  Then the value is assigned to the field by one of the routes
``d[key] = value``, ``d.update({key: value})``, ``d.update(Deb822Dict({key: value}))``,
``d.update(Deb822Dict([(key, value)]))``, ``d.update([(key, value)])``, ``d.update(key=value)`` (names
that are identifiers), ``d.setdefault(key, value)`` (new keys) or ``d.merge_fields(key, other)`` with
``other`` a dict or a Deb822Dict holding the value under that key - all of them assign a value to a
field and must accept/reject alike - and the outcome is judged:

* rejected  -> must be ValueError (any other exception is a violation), the independent rule below
               must say "reject", and ``list(d.items())`` must be what it was;
* accepted  -> the rule must say "accept"; ``d.dump()`` re-read in six input forms (str, bytes,
               text file, binary file, list of lines with and without line ends) with
               ``strict={'whitespace-separates-paragraphs': False}`` - and with the default setting
               when no continuation line is whitespace-only - by ``Deb822.iter_paragraphs``, by the
               constructor of the paragraph's own class and by that class's ``iter_paragraphs``
               must give exactly one paragraph whose field names are exactly the paragraph's names,
               in order.  Values are not compared (that is C02).

``merge_fields(key, other)`` for a field the paragraph lacks, or has with an empty value, assigns
the other mapping's value (judged as above).  For a field with a non-empty value the two values are
combined by the library; how is not part of this property, so the value the paragraph holds
afterwards is read back from the paragraph and *that* is the value judged (rule says "accept",
dump re-reads as one paragraph); a ValueError that leaves the paragraph unchanged is always allowed
there (a single-line value does not combine with a multi-line one).

Field names whose value is a list of records *in the paragraph's own class* (Files in a Dsc, SHA256
in a Release, ...) are outside the property (their value is not a string) and are skipped; the same
names in any other class are ordinary fields and are generated on purpose.  Before the first case
of a process one small document of every class with record fields is parsed, dumped and rebuilt by
assignment, and before a case on such a name the name is used, in the case's spelling, in the
classes where it carries records: a paragraph is judged in a process that has used the library
for other kinds of control file before.
"""
import io
import itertools

from hypothesis import strategies as st

from ..core import Violation, Enum, Hyp, short
from ..gen import c02_deb822text as G

from debian import deb822 as _lib
from debian.deb822 import Deb822, Deb822Dict

ID = "C08"
LEVEL = "exploration"
RULE = ("a case is (paragraph, key, value); enumerated: every string of 0..4 characters over the 12 "
        "characters 'a B 0 : # - . SPACE TAB CR LF e-acute' assigned to the middle key of a three-field "
        "paragraph A,K,Z (and, for strings of 0..3 characters, to the first key, the last key and a new "
        "key); generated: sequences of 0..14 tokens over single characters and boundary-hitting "
        "multi-character tokens ('\\n ', '\\n\\t', '\\n\\n', '\\r\\n', 'B: ', '\\n#', '\\n.', an indented PGP "
        "armor line, ...) assigned to the first/middle/last key, to the same key in another letter case "
        "or to a new key of a 1..4-field paragraph with single- and multi-line neighbours (160 fixed "
        "paragraphs over boundary-shaped values, or a freshly generated one). "
        "The tokens include text that means something to str.format / %-formatting / escapes and nothing "
        "to the format ('{', '}', '{}', '{0}', '{x}', '${misc:Depends}', '%s', '%(x)s', '%', '$', "
        "backslash); a third enumeration takes every sequence of 0..3 tokens over 'a', SPACE, LF, ':' and "
        "eight of those, for the middle key and a new key. "
        "Further dimensions of every generated case and of a second enumeration (every string of 0..3 "
        "characters over the same 12 characters x 9 assignment routes): the route - d[k]=v, update(dict), "
        "update(Deb822Dict from a dict / from pairs), update(list of pairs), update(**kw), setdefault for "
        "a new key, merge_fields(key, dict / Deb822Dict) for the multi-line middle key, the single-line "
        "first key, a new key and an existing empty field; the reader of the dump - Deb822.iter_paragraphs, "
        "the own class's constructor and iter_paragraphs, each in six input forms; the class of the paragraph - Deb822, Dsc, Changes, Sources, BuildInfo, Release, "
        "PdiffIndex, Packages, Removals; and keys that carry records in another class but are ordinary in "
        "this one (Files in a Release, SHA256 in a Dsc, ...: all 0..1-character strings x every such "
        "(class, name) pair, as the middle field and as a new key in another letter case), after ordinary "
        "use of every class in the same process. "
        "Non-trivial = the value is rejected, or is accepted and contains a line boundary (LF or CR); "
        "distinct = distinct canonical JSON of the case")
ASSUMPTIONS = [
    "rejection rule restated by hand: reject iff the value ends in LF, or some line after the first is "
    "empty or does not start with SPACE/TAB, where lines end at LF, CR LF or CR (the str input form of "
    "the parser splits there); inside the property's character domain nothing else is a line boundary",
    "a continuation line counts as whitespace-only if it consists of SPACE/TAB once the value is split "
    "at LF, CR LF and CR (the coarsest reading: the default parser setting is then not exercised)",
    "field names of the dumped paragraph are taken from the object itself (list(d.keys())) and must "
    "equal, ignoring case, the names before the assignment plus the assigned key if it was new",
    "which field names carry records (lists of dicts, not strings) in which class is restated by hand "
    "from the file formats (.dsc/.changes/Sources: Files, Checksums-Sha1/256/512; .buildinfo: "
    "Checksums-Md5/Sha1/Sha256/Sha512; Release: MD5Sum, SHA1, SHA256, SHA512; pdiff Index: "
    "[X-Unmerged-]SHA1/SHA256-History/Patches/Download and SHA1/SHA256-Current); a case whose key or "
    "neighbour has such a name in the paragraph's own class is skipped, never judged",
    "update() is exercised with exactly one item, so that 'rejected leaves the paragraph unchanged' "
    "is what the statement says; setdefault on an existing key and the keyword form with a name that is "
    "not an identifier fall back to d[k]=v / update(dict) (label route:...)",
    "merge_fields(key, other) is taken as an assignment route: with the field absent from or empty in "
    "the paragraph the assigned value is other[key]; with a non-empty field the combined value is not "
    "modelled - the field's value after an accepted call is read from the paragraph (d[key]) and judged "
    "by the rule and by re-reading the dump, and a ValueError leaving the items unchanged is accepted "
    "without asking the rule (label merge-with-nonempty-field:...); the three-argument form "
    "merge_fields(key, d1, d2) assigns nothing and is not exercised",
    "the constructor of a class reads one paragraph (the first): its result is compared as a "
    "one-paragraph list, so a dump that splits shows up as lost fields; iter_paragraphs of the own "
    "class is called with use_apt_pkg=False (the internal parser is the one the statement speaks of)",
    "the warm-up (parse, read, dump, re-assign one two-record document per class; per case the same "
    "for the case's spelling of the key in the classes where it carries records) is not judged; an "
    "exception escaping from it is reported by the engine as EXC:...",
    "Hypothesis 6.168 generators; sha1 for distinctness",
]
EXHAUSTIVE = {
    "quick": "all strings of 0..4 characters over 12 characters (22 621) assigned to the middle key of "
             "A,K,Z; all strings of 0..3 characters (1 885) x {first key, last key, new key}; "
             "all strings of 0..3 characters x 9 assignment routes (class and origin cycling; the two "
             "merge_fields routes x {multi-line key, single-line key, new key, empty field}); all strings "
             "of 0..1 characters x every (class, name carrying records in another class) pair; all "
             "sequences of 0..3 tokens over 12 letter/blank/LF/brace/percent/backslash tokens x {middle key, "
             "new key}",
    "thorough": "all strings of 0..5 characters over 12 characters (271 453) assigned to the middle key of "
                "A,K,Z; all strings of 0..4 characters (22 621) x {first key, last key, new key}; "
                "all strings of 0..4 characters x 9 assignment routes (class and origin cycling; the two "
                "merge_fields routes x {multi-line key, single-line key, new key, empty field}); all "
                "strings of 0..1 characters x every (class, name carrying records in another class) pair; "
                "all sequences of 0..4 tokens over 12 letter/blank/LF/brace/percent/backslash tokens x "
                "{middle key, new key}",
}
EXHAUSTIVE_ROUTES = {
    "quick": "all strings of 0..3 characters over 12 characters (1 885) x 9 routes (merge_fields routes x 4 "
             "targets), + one (class, foreign record name) pair each; all strings of 0..1 characters (13) x all such pairs x 2",
    "thorough": "all strings of 0..4 characters over 12 characters (22 621) x 9 routes (merge_fields routes x 4 "
                "targets), + one (class, foreign record name) pair each; all strings of 0..1 characters (13) x all such pairs x 2",
}
EXHAUSTIVE_FORMAT = {
    "quick": "all sequences of 0..3 tokens over 'a', SPACE, LF, ':', '{', '}', '{}', '{0}', "
             "'${misc:Depends}', '%s', '%(x)s', backslash (1 885) x {middle key, new key}; route, class "
             "and origin cycling",
    "thorough": "all sequences of 0..4 tokens over the same 12 tokens (22 621) x {middle key, new key}; "
                "route, class and origin cycling",
}
BUDGET = {"quick": 400, "thorough": 2400}

WSP_OFF = {"whitespace-separates-paragraphs": False}


# ------------------------------------------------------------------------------------------
# the rule, restated


def split_lines(value):
    """Lines of ``value``; a line ends at LF, CR LF or CR.  No trailing empty piece for a final
    terminator (like file iteration), which is why 'ends in LF' is a separate clause."""
    out, cur, i, n = [], "", 0, len(value)
    while i < n:
        ch = value[i]
        if ch == "\r" and i + 1 < n and value[i + 1] == "\n":
            out.append(cur)
            cur = ""
            i += 2
            continue
        if ch == "\n" or ch == "\r":
            out.append(cur)
            cur = ""
            i += 1
            continue
        cur += ch
        i += 1
    if cur != "" or not value or value[-1] not in "\r\n":
        out.append(cur)
    return out


def rule(value):
    """None if the value must be accepted, else the name of the clause that demands rejection."""
    if value.endswith("\n"):
        return "trailing-newline"
    for line in split_lines(value)[1:]:
        if line == "":
            return "empty-line"
        if line[0] not in " \t":
            return "unindented-line"
    return None


def has_blank_continuation(value):
    return any(l.strip(" \t") == "" for l in split_lines(value)[1:])


def in_domain(value):
    return isinstance(value, str) and all(ch.isprintable() or ch in "\t\r\n" for ch in value)


# ------------------------------------------------------------------------------------------
# oracle


def _forms(text):
    """(name, factory) for the input forms; a factory gives a fresh object for every parse."""
    raw = text.encode("utf-8")
    parts = text.split("\n")
    if parts and parts[-1] == "":
        parts.pop()
        ended = True
    else:
        ended = False
    with_nl = [p + "\n" for p in parts]
    if not ended and with_nl:
        with_nl[-1] = with_nl[-1][:-1]
    return [
        ("str", lambda: text),
        ("bytes", lambda: raw),
        ("StringIO", lambda: io.StringIO(text)),
        ("BytesIO", lambda: io.BytesIO(raw)),
        ("lines+nl", lambda: list(with_nl)),
        ("lines", lambda: list(parts)),
    ]


def _readers(cls):
    """(name, read(source, strict) -> [field names of each paragraph]) for the ways a dump of a
    ``cls`` paragraph is read back: the generic ``Deb822.iter_paragraphs`` and the paragraph's own
    class - its constructor (which reads one paragraph: the first) and its ``iter_paragraphs``."""
    klass = getattr(_lib, cls)
    out = [("Deb822.iter_paragraphs",
            lambda src, strict: [list(p.keys()) for p in Deb822.iter_paragraphs(src, strict=strict)]),
           ("%s(...)" % cls,
            lambda src, strict: [list(klass(src, strict=strict).keys())])]
    if cls != "Deb822":
        out.append(("%s.iter_paragraphs" % cls,
                    lambda src, strict: [list(p.keys()) for p in
                                         klass.iter_paragraphs(src, use_apt_pkg=False, strict=strict)]))
    return out


def _classify(got, names):
    if len(got) != 1:
        return "paragraph-split", "%d paragraphs" % len(got)
    g = got[0]
    if g == names:
        return None, ""
    extra = [n for n in g if n not in names]
    missing = [n for n in names if n not in g]
    if extra:
        return "field-injected", "extra fields %r" % extra
    if missing:
        return "field-lost", "missing fields %r" % missing
    return "field-order", "order %r" % g


# ------------------------------------------------------------------------------------------
# the classes of paragraph, and the field names whose value is a list of records (not a string)
#
# "A Deb822 paragraph" includes the library's documented subclasses.  In some of them a few field
# names carry *records* (a .dsc's Files, a Release file's SHA256, ...): their value is not a plain
# string, and assigning to them is outside this property (C12's business).  The table restates, by
# hand, which names those are in which file format; everywhere else the same name is an ordinary
# field and the property applies to it in full.

_SRC = ["Files", "Checksums-Sha1", "Checksums-Sha256", "Checksums-Sha512"]
_PDIFF = [pre + h + "-" + what for pre in ("", "X-Unmerged-") for h in ("SHA1", "SHA256")
          for what in ("History", "Patches", "Download")] + ["SHA1-Current", "SHA256-Current"]
STRUCTURED = {
    "Deb822": [],
    "Packages": [],
    "Removals": [],
    "Dsc": _SRC,
    "Changes": _SRC,
    "Sources": _SRC,
    "BuildInfo": ["Checksums-Md5", "Checksums-Sha1", "Checksums-Sha256", "Checksums-Sha512"],
    "Release": ["MD5Sum", "SHA1", "SHA256", "SHA512"],
    "PdiffIndex": _PDIFF,
}
CLASSES = list(STRUCTURED)
STRUCTURED_LOWER = {c: frozenset(n.lower() for n in names) for c, names in STRUCTURED.items()}
ALL_STRUCTURED = sorted({n for names in STRUCTURED.values() for n in names})


def foreign_names(cls):
    """Names that carry records in some *other* class and are ordinary fields in ``cls``."""
    return [n for n in ALL_STRUCTURED if n.lower() not in STRUCTURED_LOWER[cls]]


def _record_line(cls, name):
    """One well-formed record of field ``name`` of class ``cls`` (plain data about the formats)."""
    if cls == "Changes" and name.lower() == "files":
        return "0123456789abcdef0123456789abcdef 11 misc optional w_1.dsc"
    if cls == "PdiffIndex":
        return "0123abcd 11" + ("" if name.lower().endswith("-current") else " 2026-01-01-0000.00")
    return "0123abcd 11 w_1.orig.tar.gz"


def _use_structured(cls, names):
    """Ordinary use of a ``cls`` paragraph whose record fields ``names`` are present: parse it,
    look at the records, dump it, assign the records to a second paragraph, dump that."""
    klass = getattr(_lib, cls)
    text = "Origin: w\n"
    for n in names:
        rec = _record_line(cls, n)
        single = cls == "PdiffIndex" and n.lower().endswith("-current")
        text += "%s: %s\n" % (n, rec) if single else "%s:\n %s\n %s\n" % (n, rec, rec)
    p = klass(text)
    q = klass()
    q["Origin"] = "w"
    for n in names:
        q[n] = p[n]
    p.dump()
    q.dump()


_WARM = []


def warm_up():
    """Once per process, before the first case: one small document of every class that has record
    fields, every such field present in its usual spelling - the process has then *used* the
    library the ordinary way, as any program handling several kinds of control file has."""
    if _WARM:
        return
    _WARM.append(True)
    for cls in CLASSES:
        if STRUCTURED[cls]:
            _use_structured(cls, STRUCTURED[cls])


def warm_up_key(own_cls, key):
    """Before a case on a name that carries records elsewhere: use that very spelling of the name
    in every class where it does."""
    for cls in CLASSES:
        if cls != own_cls and key.lower() in STRUCTURED_LOWER[cls]:
            _use_structured(cls, [key])


# ------------------------------------------------------------------------------------------
# the routes by which a value is assigned to a field

ROUTES = ["setitem", "update-dict", "update-Deb822Dict", "update-Deb822Dict-pairs", "update-pairs",
          "update-kwargs", "setdefault", "merge-dict", "merge-Deb822Dict"]
MERGE_ROUTES = ("merge-dict", "merge-Deb822Dict")


def effective_route(route, key, is_new):
    """setdefault assigns only when the key is new, the keyword form needs an identifier: where a
    route does not apply, the plain one is taken."""
    if route == "setdefault" and not is_new:
        return "setitem"
    if route == "update-kwargs" and not key.isidentifier():
        return "update-dict"
    return route


def assign(d, key, value, route):
    if route == "setitem":
        d[key] = value
    elif route == "update-dict":
        d.update({key: value})
    elif route == "update-Deb822Dict":
        d.update(Deb822Dict({key: value}))
    elif route == "update-Deb822Dict-pairs":
        d.update(Deb822Dict([(key, value)]))
    elif route == "update-pairs":
        d.update([(key, value)])
    elif route == "update-kwargs":
        d.update(**{key: value})
    elif route == "setdefault":
        d.setdefault(key, value)
    elif route == "merge-dict":
        # merge_fields(key, other): the paragraph takes over / merges in the other mapping's field
        d.merge_fields(key, {key: value})
    elif route == "merge-Deb822Dict":
        d.merge_fields(key, Deb822Dict({key: value}))
    else:
        raise AssertionError(route)


def name_ok(n):
    """Policy 5.1 field name (the names that carry records in some class are allowed here)."""
    return (isinstance(n, str) and n != "" and n[0] in G.NAME_FIRST and all(c in G.NAME_CHARS for c in n))


def fields_ok(fields):
    if not isinstance(fields, list) or not fields:
        return False
    seen = set()
    for f in fields:
        if not (isinstance(f, list) and len(f) == 2 and name_ok(f[0]) and G.valid_value(f[1])):
            return False
        if f[0].lower() in seen:
            return False
        seen.add(f[0].lower())
    return True


ORIGINS = ["new", "empty-str", "empty-list", "blank-lines", "empty-bytes", "parsed", "parsed-lines",
           "iter", "copy", "mapping", "dsc-empty"]


def make_paragraph(fields, origin, cls="Deb822"):
    """The paragraph the value is assigned into, of class ``cls``, obtained the way ``origin``
    says: the property speaks of *any* paragraph, however the object came to be."""
    klass = getattr(_lib, cls)

    def fill(d):
        for n, v in fields:
            d[n] = G.value_string(v)     # C02 domain: must be accepted; a ValueError here escapes
        return d
    if origin == "empty-str":
        return fill(klass(""))
    if origin == "empty-list":
        return fill(klass([]))
    if origin == "blank-lines":
        return fill(klass("\n\n"))
    if origin == "empty-bytes":
        return fill(klass(io.BytesIO(b"")))
    if origin == "dsc-empty":            # (the effective class is Dsc: see effective_class)
        return fill(klass(""))
    base = fill(klass())
    if origin == "parsed":
        return klass(base.dump())
    if origin == "parsed-lines":
        return klass(base.dump().split("\n"))
    if origin == "iter":
        got = list(klass.iter_paragraphs(base.dump(), use_apt_pkg=False))
        if len(got) != 1:
            raise Violation("origin-parse", "iter_paragraphs of %s gave %d paragraphs" % (short(base.dump()), len(got)))
        return got[0]
    if origin == "copy":
        return base.copy()
    if origin == "mapping":
        return klass(base)
    return base


def effective_class(cls, origin):
    return "Dsc" if (cls == "Deb822" and origin == "dsc-empty") else cls


def check(case):
    if not (isinstance(case, dict) and fields_ok(case.get("fields")) and name_ok(case.get("key"))
            and in_domain(case.get("value")) and isinstance(case.get("cls", "Deb822"), str)
            and case.get("cls", "Deb822") in STRUCTURED and isinstance(case.get("route", "setitem"), str)
            and case.get("route", "setitem") in ROUTES):
        return (False, ("invalid-or-out-of-domain-case-skipped",))
    fields, key, value = case["fields"], case["key"], case["value"]
    origin = case.get("origin", "new")
    cls = effective_class(case.get("cls", "Deb822"), origin)
    own = STRUCTURED_LOWER[cls]
    if key.lower() in own or any(f[0].lower() in own for f in fields):
        # the value of such a field is a list of records in this class, not a plain string
        return (False, ("record-field-of-own-class-skipped",))

    warm_up()
    elsewhere = any(key.lower() in STRUCTURED_LOWER[c] for c in CLASSES)
    if elsewhere:
        warm_up_key(cls, key)

    d = make_paragraph(fields, origin, cls)
    if type(d).__name__ != cls:      # the table above would be the wrong one for this object
        return (False, ("origin-gave-another-class-skipped",))
    before = [[k, v] for k, v in d.items()]
    names_before = [f[0] for f in fields]
    lower = [n.lower() for n in names_before]
    if key.lower() in lower:
        pos = lower.index(key.lower())
        where = ("only" if len(lower) == 1 else "first" if pos == 0 else
                 "last" if pos == len(lower) - 1 else "middle")
        target = "existing-%s%s" % (where, "" if key == names_before[pos] else "-othercase")
        expect_lower = lower
    else:
        target = "new-key"
        expect_lower = lower + [key.lower()]
    route = effective_route(case.get("route", "setitem"), key, target == "new-key")
    how = "d[%r] = %r" % (key, value) if route == "setitem" else "%s of %r: %r" % (route, key, value)
    if cls != "Deb822":
        how = "%s paragraph, %s" % (cls, how)
    # merge_fields on a field the paragraph has: if that field is empty the merge with the other
    # mapping's value is that value; otherwise the two are combined, and the value the paragraph
    # ends up with is read from the paragraph itself and judged (no model of the combining)
    existing = d.get(key) if target != "new-key" else None
    observed = route in MERGE_ROUTES and isinstance(existing, str) and existing != ""

    verdict = rule(value)
    labels = ["target:" + target, "origin:" + str(origin), "class:" + cls, "route:" + route]
    if observed:
        labels.append("merge-with-nonempty-field:stored-value-judged")
    if elsewhere:
        labels.append("name-carries-records-in-another-class")
    if "\r" in value:
        labels.append("cr-present")
    if any(len(f[1][1]) > 0 for f in fields):
        labels.append("multiline-neighbour")

    try:
        assign(d, key, value, route)
        accepted = True
    except ValueError:
        accepted = False
    except Exception as e:      # "rejected with ValueError": no other exception is a rejection
        raise Violation("raised-not-ValueError:" + type(e).__name__,
                        "%s raised %s(%s); the rule says %s" % (
                            how, type(e).__name__, short(str(e)),
                            "the merged value decides" if observed else
                            "accept" if verdict is None else "reject with ValueError (%s)" % verdict))

    if not accepted:
        after = [[k, v] for k, v in d.items()]
        if after != before:
            raise Violation("rejected-but-state-changed",
                            "%s raised ValueError but items went from %s to %s"
                            % (how, short(before), short(after)))
        if observed:
            # combining two non-empty values may be refused for reasons of its own (a single-line
            # with a multi-line value) or give an invalid value; either way a rejection is allowed
            labels.append("rejected:merge-with-nonempty-field")
            return (True, labels)
        # The statement only says which values MUST be rejected.  That a value is accepted is
        # promised elsewhere (C02) for first line + continuation lines that start with a blank and
        # contain non-blank text; for other values (whitespace-only continuation lines, CR used as
        # a line boundary) a stricter validator would still satisfy this property.
        plain = [l for l in value.split("\n")]
        c02_domain = "\r" not in value and all(
            l[:1] in (" ", "\t") and l.strip(" \t") != "" for l in plain[1:])
        if verdict is None and not c02_domain:
            labels.append("rejected-outside-c02-domain")
            return (True, labels)
        if verdict is None:
            raise Violation("rejected-valid-value",
                            "%s raised ValueError although it does not end in a newline and every "
                            "continuation line starts with a blank" % how)
        labels.append("rejected:" + verdict)
        return (True, labels)

    names = list(d.keys())
    text = d.dump()
    if observed:
        stored = d[key]
        if not isinstance(stored, str):
            raise Violation("merged-value-not-a-string", "after %s the field holds %s" % (how, short(stored)))
        how = "%s (field was %r, is now %r)" % (how, existing, stored)
        value = stored
        verdict = rule(value)
    blank_cont = has_blank_continuation(value)
    settings = [("wsp-off", WSP_OFF)]
    if not blank_cont:
        settings.append(("default", None))
    bad = None
    forms = _forms(text)
    for rname, read in _readers(cls):
        for sname, strict in settings:
            for fname, make in forms:
                try:
                    got = read(make(), None if strict is None else dict(strict))
                except ValueError as e:          # the parser refusing the dump: no paragraph at all
                    got, sig, why = None, "reread-raised", "ValueError(%s)" % e
                else:
                    sig, why = _classify(got, names)
                if sig and bad is None:
                    bad = (sig if rname == "Deb822.iter_paragraphs" else sig + "@own-class-reader",
                           "dump %s re-read by %s from %s (%s) gives %s: %s; expected one paragraph with %r"
                           % (short(text), rname, fname, sname, short(got), why, names))

    if verdict is not None:
        raise Violation("accepted-invalid:" + verdict,
                        "%s was accepted (%s); %s" % (
                            how, verdict, bad[1] if bad else "dump is %s" % short(text)))
    if [n.lower() for n in names] != expect_lower:
        raise Violation("object-keys-unexpected", "after %s keys are %r, expected (ignoring case) %r"
                        % (how, names, expect_lower))
    if bad:
        raise Violation(bad[0], "%s accepted; %s" % (how, bad[1]))

    multiline = ("\n" in value) or ("\r" in value)
    labels.append("accepted-multiline" if multiline else "accepted-single-line")
    if blank_cont:
        labels.append("accepted-blank-continuation")
    if value[:1] in ("\n", "\r") or (multiline and split_lines(value)[0].strip(" \t") == ""):
        labels.append("accepted-empty-first-line")
    if "PGP" in value:
        labels.append("pgp-armor-lookalike")
    if any(":" in l for l in split_lines(value)[1:]):
        labels.append("accepted-colon-in-continuation")
    return (multiline, labels)


# ------------------------------------------------------------------------------------------
# generators

# characters and tokens that mean something to the text-formatting machinery of the language the
# library is written in (str.format, %-formatting, string.Template, escapes) and nothing to the
# control-file format: substitution variables are everyday content of control files
FORMAT_TOKENS = ["{", "}", "{}", "{0}", "${misc:Depends}", "%s", "%(x)s", "\\", "{x}", "%", "$", "\\n"]

ENUM_CHARS = ["a", "B", "0", ":", "#", "-", ".", " ", "\t", "\r", "\n", "é"]
AKZ = [["A", ["1", []]], ["K", ["2", [" 2b"]]], ["Z", ["3", ["\t3b", " 3c: d"]]]]


def enum_cases(maxlen):
    def gen():
        k = 0
        for n in range(0, maxlen + 1):
            for seq in itertools.product(ENUM_CHARS, repeat=n):
                v = "".join(seq)
                k += 1
                # the origin of the paragraph object cycles (coprime with the alphabet size), and
                # every value of up to 2 characters meets every origin
                for o in (ORIGINS if n <= 2 else [ORIGINS[k % len(ORIGINS)]]):
                    yield {"fields": AKZ, "key": "K", "value": v, "origin": o}
                if n < maxlen:
                    yield {"fields": AKZ, "key": "A", "value": v, "origin": ORIGINS[(k + 3) % len(ORIGINS)]}
                    yield {"fields": AKZ, "key": "Z", "value": v, "origin": ORIGINS[(k + 5) % len(ORIGINS)]}
                    yield {"fields": AKZ, "key": "New", "value": v, "origin": ORIGINS[(k + 7) % len(ORIGINS)]}
    return gen


FORMAT_ALPHABET = ["a", " ", "\n", ":"] + FORMAT_TOKENS[:8]


def enum_format_cases(maxlen):
    """Every sequence of 0..maxlen tokens over FORMAT_ALPHABET (a letter, SPACE, LF, ':' and the
    brace / percent / backslash tokens), assigned to an existing and to a new field; route, class
    and origin cycle."""
    def gen():
        k = 0
        for n in range(0, maxlen + 1):
            for seq in itertools.product(FORMAT_ALPHABET, repeat=n):
                v = "".join(seq)
                k += 1
                # 81 consecutive values meet every (route, class) pair; 11 origins are coprime with that
                yield {"fields": AKZ, "key": "K", "value": v, "origin": ORIGINS[k % len(ORIGINS)],
                       "cls": CLASSES[(k // len(ROUTES)) % len(CLASSES)], "route": ROUTES[k % len(ROUTES)]}
                yield {"fields": AKZ, "key": "New", "value": v, "origin": ORIGINS[(k + 5) % len(ORIGINS)],
                       "cls": CLASSES[(k // len(ROUTES) + 4) % len(CLASSES)],
                       "route": ROUTES[(k + 3) % len(ROUTES)]}
    return gen


def _othercase(n):
    s = n.swapcase()
    return s if s != n else n          # names without letters have no other spelling


FOREIGN_PAIRS = [(c, n) for c in CLASSES for n in foreign_names(c)]


AKZ_EMPTY_K = [AKZ[0], ["K", ["", []]], AKZ[2]]


def _akz(middle):
    return [AKZ[0], [middle, AKZ[1][1]], AKZ[2]]


def enum_route_cases(maxlen):
    """The assignment *route* and the *class* of the paragraph as dimensions of the enumeration."""
    def gen():
        k = 0
        for n in range(0, maxlen + 1):
            for seq in itertools.product(ENUM_CHARS, repeat=n):
                v = "".join(seq)
                k += 1
                # every value meets every route (classes and origins cycle, coprime with 12 and 7)
                for r, route in enumerate(ROUTES):
                    yield {"fields": AKZ, "key": "New" if route == "setdefault" else "K", "value": v,
                           "origin": ORIGINS[(k + r) % len(ORIGINS)], "cls": CLASSES[(k + 2 * r) % len(CLASSES)],
                           "route": route}
                    if route in MERGE_ROUTES:
                        # merge_fields also for a field the paragraph lacks and for one it has, empty
                        yield {"fields": AKZ, "key": "New", "value": v,
                               "origin": ORIGINS[(k + r + 2) % len(ORIGINS)],
                               "cls": CLASSES[(k + 2 * r + 4) % len(CLASSES)], "route": route}
                        yield {"fields": AKZ_EMPTY_K, "key": "K" if k % 2 else "k", "value": v,
                               "origin": ORIGINS[(k + r + 6) % len(ORIGINS)],
                               "cls": CLASSES[(k + 2 * r + 7) % len(CLASSES)], "route": route}
                        # ... and for a single-line one ("K" above is multi-line)
                        yield {"fields": AKZ, "key": "A", "value": v,
                               "origin": ORIGINS[(k + r + 8) % len(ORIGINS)],
                               "cls": CLASSES[(k + 2 * r + 1) % len(CLASSES)], "route": route}
                # ... and one (class, name that carries records in another class) pair, the name
                # being the middle field or a new one
                c, name = FOREIGN_PAIRS[(k * 5) % len(FOREIGN_PAIRS)]
                yield {"fields": _akz(name) if k % 2 else AKZ, "key": name, "value": v,
                       "origin": ORIGINS[(k + 1) % len(ORIGINS)], "cls": c, "route": ROUTES[k % len(ROUTES)]}
                # every value of up to 1 character meets every such pair
                if n <= 1:
                    for j, (c, name) in enumerate(FOREIGN_PAIRS):
                        yield {"fields": _akz(name), "key": name, "value": v,
                               "origin": ORIGINS[(k + j) % len(ORIGINS)], "cls": c, "route": "setitem"}
                        yield {"fields": AKZ, "key": _othercase(name), "value": v,
                               "origin": ORIGINS[(k + j + 4) % len(ORIGINS)], "cls": c,
                               "route": ROUTES[(k + j) % len(ROUTES)]}
    return gen


TOKENS = (["a", "b", "Z", "0", "9", ":", "#", " ", " ", "\t", "\r", "\n", "\n", ".", "-", "é", "漢"]
          + FORMAT_TOKENS
          + ["\n ", "\n ", "\n\t", "\n\n", "\r\n", "\r\n ", "\r ", "B: ", "B:", "\nB: ", "\n B: ", "\n#", "\n #",
             "\n.", "\n .", " \n", "\t\n", "\n \n", "\n\t\r", ": ", "\n -----BEGIN PGP SIGNED MESSAGE-----",
             "\n -----BEGIN PGP SIGNATURE-----", "\n -----END PGP SIGNATURE-----", "-----BEGIN PGP SIGNED MESSAGE-----",
             "\n-----BEGIN PGP SIGNED MESSAGE-----", "\n  ", "\n \t "])

token_value = st.lists(st.sampled_from(TOKENS), min_size=0, max_size=14).map("".join)
text_value = st.builds(lambda v: G.value_string(v), G.value)          # always acceptable (C02 domain)
near_valid = st.builds(lambda v, t, w: G.value_string(v)[:w] + t + G.value_string(v)[w:],
                       G.value, st.sampled_from(TOKENS), st.integers(0, 12))
any_value = st.one_of(token_value, token_value, token_value, near_valid, text_value)


def _neighbour_pool():
    """160 fixed paragraphs of 1..4 fields over the boundary first/continuation lines of the C02
    generator (cheap to draw from; one case in five still gets a freshly generated paragraph)."""
    names = G.COMMON_NAMES + ["!x", '"q"', "$", ";semi", "~", "9", "X-y#z", "a.b", "(p)", "_u", "0-1", "@at"]
    pool, k = [], 0
    for size in (1, 2, 3, 4):
        for _ in range(40):
            fields, seen = [], set()
            for i in range(size):
                k += 1
                name = names[(k * 7 + i * 3) % len(names)]
                if name.lower() in seen:
                    name = "%s-%d" % (name, i)
                seen.add(name.lower())
                first = G.SPECIAL_FIRST[(k * 5 + i) % len(G.SPECIAL_FIRST)]
                conts = [G.SPECIAL_CONT[(k * 11 + i * 7 + c * 3) % len(G.SPECIAL_CONT)] for c in range((k + i) % 3)]
                fields.append([name, [first, conts]])
            pool.append(fields)
    return pool


NEIGHBOURS = _neighbour_pool()
paragraph = st.one_of(st.sampled_from(NEIGHBOURS), st.sampled_from(NEIGHBOURS), st.sampled_from(NEIGHBOURS),
                      st.sampled_from(NEIGHBOURS), G.fields(min_size=1, max_size=4))


cls_name = st.one_of(st.just("Deb822"), st.sampled_from(CLASSES))                 # 5/9 plain Deb822
route_name = st.one_of(st.just("setitem"), st.sampled_from(ROUTES), st.sampled_from(ROUTES))


@st.composite
def gen_case(draw):
    fields = draw(paragraph)
    cls = draw(cls_name)
    how = draw(st.sampled_from(["first", "middle", "last", "new", "othercase", "othercase", "elsewhere"]))
    names = [f[0] for f in fields]
    lower = [n.lower() for n in names]
    if how == "first":
        key = names[0]
    elif how == "last":
        key = names[-1]
    elif how == "middle":
        key = names[len(names) // 2]
    elif how == "othercase":
        key = _othercase(names[draw(st.integers(0, len(names) - 1))])
    elif how == "elsewhere":
        # a name that carries records in another class: new, or taking the place of a field
        key = draw(st.sampled_from(foreign_names(cls)))
        if key.lower() not in lower and draw(st.booleans()):
            i = draw(st.integers(0, len(names) - 1))
            fields = [[key if j == i else f[0], f[1]] for j, f in enumerate(fields)]
        if draw(st.booleans()):
            key = _othercase(key)
    else:
        key = "New-Field"
        if key.lower() in lower:
            key = "New-Field-2"
    return {"fields": fields, "key": key, "value": draw(any_value), "origin": draw(st.sampled_from(ORIGINS)),
            "cls": cls, "route": draw(route_name)}


def sources(tier):
    if tier == "quick":
        return [Enum("values<=4chars", enum_cases(4), EXHAUSTIVE["quick"]),
                Enum("routes-classes<=3chars", enum_route_cases(3), EXHAUSTIVE_ROUTES["quick"]),
                Enum("format-tokens<=3", enum_format_cases(3), EXHAUSTIVE_FORMAT["quick"]),
                Hyp("token-values", gen_case(), 1200, shards=8)]
    return [Enum("values<=5chars", enum_cases(5), EXHAUSTIVE["thorough"]),
            Enum("routes-classes<=4chars", enum_route_cases(4), EXHAUSTIVE_ROUTES["thorough"]),
            Enum("format-tokens<=4", enum_format_cases(4), EXHAUSTIVE_FORMAT["thorough"]),
            Hyp("token-values", gen_case(), 25000, shards=16)]
